(* C09 — the command stream sent at deploy is exactly the patch that was shown.
   Declarative references and the boolean predicate evaluated on the real outputs of
   formatter.patch / formatter.cmd_paths / annet.deploy.apply_deploy_rulebook.
   The formatter-side references (lv, raw_paths, wb, shown, sib_distinct …) are in Spec/C09Blocks.v. *)
From Coq Require Import List String Ascii Bool Arith NArith ZArith.
From Annet Require Import Base.Str Model.Pattern Model.Order Model.Patch Model.Blocks Gen.Src_apply Model.Deploy.
From Annet Require Export Spec.C09Blocks.
Import ListNotations.
Open Scope string_scope.
Open Scope list_scope.

(* ------------------------------------------------------------------------------------ *)
(* Deploy rules: the chain reading of "the rule matching the block path"                  *)

Section Chain.
  Variable hit : drule -> string -> ctx -> bool.

  (* rows of the path are matched top-down; a header row matched by a rule moves to that rule's
     children, a header row matched by no rule leaves the level unchanged (this is how the
     shipped rulebooks address commands inside blocks, e.g. huawei `undo peer *`); the rule of
     the last row is the answer *)
  Fixpoint spec_rule (rs : list drule) (path : list string) (c : ctx) : option drule :=
    match path with
    | [] => None
    | row :: rest =>
      match find (fun r => hit r row c) rs with
      | Some r => if is_nil rest then Some r else spec_rule (d_kids r) rest c
      | None => spec_rule rs rest c
      end
    end.

  (* along that chain every header row is matched by at most one sibling rule *)
  Fixpoint chain_det (rs : list drule) (path : list string) (c : ctx) : bool :=
    match path with
    | [] => true
    | row :: rest =>
      is_nil rest ||
      match filter (fun r => hit r row c) rs with
      | [] => chain_det rs rest c
      | [r] => chain_det (d_kids r) rest c
      | _ => false
      end
    end.
End Chain.

Definition questions_of (ds : list dialog) : list question :=
  map (fun d => let t := dg_question d in
                if startswith "/" t && endswith "/" t
                then Q (substring 1 (String.length t - 2) t) (dg_answer d) true
                else Q t (dg_answer d) false) ds.

(* timeout and dialog answers of the matching rule, else (30 s, none) *)
Definition spec_params (r : option drule) : N * list question :=
  match r with
  | Some r => (d_timeout r, questions_of (d_dialogs r))
  | None => (N.of_nat default_timeout_s * 1000, [])%N
  end.

Definition send_nl_ok (r : drule) : bool := forallb dg_send_nl (d_dialogs r).

(* ------------------------------------------------------------------------------------ *)
(* Session wrapper vocabulary *)

Inductive wclass := WEnter | WCommit | WLeave | WSave.

Definition classify (c : string) : option wclass :=
  if existsb (String.eqb c) ["system-view"; "conf s"; "conf t"; "configure exclusive"; "configure private";
                             "etckeeper check"] then Some WEnter
  else if existsb (String.eqb c) ["commit"; "commit apply"] then Some WCommit
  else if existsb (String.eqb c) ["q"; "exit"; "end"; "abort"] then Some WLeave
  else if existsb (String.eqb c) ["save"; "save force"; "write memory"; "write";
                                  "copy running-config startup-config"] then Some WSave
  else None.

Definition is_class (k : wclass) (c : string) : bool :=
  match classify c, k with
  | Some WEnter, WEnter | Some WCommit, WCommit | Some WLeave, WLeave | Some WSave, WSave => true
  | _, _ => false
  end.

(* enter before; commit, leave, save after; no commit unless do_commit; no save unless do_finalize *)
Definition wrapper_ok (commit finalize : bool) (w : wrapper) : bool :=
  forallb (is_class WEnter) (fst w) &&
  forallb (fun c => is_class WCommit c || is_class WLeave c || is_class WSave c) (snd w) &&
  (commit || negb (existsb (is_class WCommit) (snd w))) &&
  (finalize || negb (existsb (is_class WSave) (snd w))).

(* the weaker form for the ap-env apply logic, where `write memory` is the commit *)
Definition wrapper_ok_weak (commit : bool) (w : wrapper) : bool :=
  forallb (is_class WEnter) (fst w) &&
  forallb (fun c => is_class WCommit c || is_class WLeave c || is_class WSave c) (snd w) &&
  (commit || negb (existsb (is_class WCommit) (snd w))).

(* ------------------------------------------------------------------------------------ *)
(* Observation of one case on the real implementation                                     *)

Record run09 := Run09 {
  r_commit : bool;
  r_finalize : bool;
  r_common : option wrapper;           (* common.apply(hw, do_commit, do_finalize) as command texts; None = raised *)
  r_ap_env : wrapper;                  (* aruba.ap_env.apply(hw, do_commit, do_finalize) *)
  r_cmds : option (list command)       (* apply_deploy_rulebook(hw, cmd_paths, do_finalize, do_commit);
                                          None = Exception("not supported false send_nl") *)
}.

Record obs09 := Obs09 {
  o_family : family;
  o_patch : ctree;                              (* the PatchTree with item contexts *)
  o_lines : list (nat * string);                (* formatter.patch(pt): indentation level, row *)
  o_paths : list (list string * ctx);           (* formatter.cmd_paths(pt).items() *)
  o_paths0 : list (list string * ctx);          (* the same with make_formatter(indent=""), as the deployer calls it *)
  o_rules : list drule;                         (* the deploy rulebook handed to compile_deploying_text *)
  o_hw : list string;                           (* hardware flags that are true *)
  o_opq : list string;                          (* opaque atoms that are true *)
  o_runs : list run09
}.

Definition env_of (o : obs09) (r : run09) : env :=
  Env (r_commit r) (r_finalize r) (fun s => existsb (String.eqb s) (o_hw o)) (fun s => existsb (String.eqb s) (o_opq o)).

(* ---- comparison helpers *)
Definition ctx_eqb (a b : ctx) : bool :=
  Nat.eqb (List.length a) (List.length b) &&
  forallb (fun kv => match ctx_get b (fst kv) with Some v => String.eqb v (snd kv) | None => false end) a.

Fixpoint cpaths_eqb (a b : list (list string * ctx)) : bool :=
  match a, b with
  | [], [] => true
  | (p, c) :: a', (q, d) :: b' => list_str_eqb p q && ctx_eqb c d && cpaths_eqb a' b'
  | _, _ => false
  end.

Fixpoint lines_eqb (a b : list (nat * string)) : bool :=
  match a, b with
  | [], [] => true
  | (n, x) :: a', (m, y) :: b' => Nat.eqb n m && String.eqb x y && lines_eqb a' b'
  | _, _ => false
  end.

Definition question_eqb (a b : question) : bool :=
  String.eqb (q_text a) (q_text b) && String.eqb (q_answer a) (q_answer b) && Bool.eqb (q_regexp a) (q_regexp b).

Fixpoint list_eqb {A} (e : A -> A -> bool) (a b : list A) : bool :=
  match a, b with
  | [], [] => true
  | x :: a', y :: b' => e x y && list_eqb e a' b'
  | _, _ => false
  end.

Definition command_eqb (a b : command) : bool :=
  String.eqb (c_cmd a) (c_cmd b) && Nat.eqb (c_level a) (c_level b) && N.eqb (c_timeout a) (c_timeout b) &&
  list_eqb question_eqb (c_questions a) (c_questions b).

Definition ocmds_eqb (a b : option (list command)) : bool :=
  match a, b with
  | Some x, Some y => list_eqb command_eqb x y
  | None, None => true
  | _, _ => false
  end.

Definition wrapper_eqb' (a b : wrapper) : bool := list_str_eqb (fst a) (fst b) && list_str_eqb (snd a) (snd b).

(* ---- model vs implementation *)
Definition agree_lines09 (o : obs09) : bool :=
  lines_eqb (indent_lines (blocks (o_family o) "" (erase (o_patch o))) 0) (o_lines o).

Definition agree_paths09 (o : obs09) : bool :=
  cpaths_eqb (ccmd_paths (o_family o) (o_patch o)) (o_paths o).

Definition agree_wrapper09 (o : obs09) : bool :=
  forallb (fun r =>
             match common_apply (env_of o r), r_common r with
             | Some w, Some w' => wrapper_eqb' w w'
             | None, None => true
             | _, _ => false
             end && wrapper_eqb' (ap_env_apply (env_of o r)) (r_ap_env r)) (o_runs o).

Definition agree_deploy09 (o : obs09) : bool :=
  let h := fast_hit (o_rules o) in
  forallb (fun r => ocmds_eqb (deploy h (std_wrappers (env_of o r)) (o_rules o) (o_paths0 o)) (r_cmds r))
          (o_runs o).

(* ---- the property on the implementation's outputs *)

(* the domain of the property: distinct sibling rows *)
Definition wf_C09 (o : obs09) : bool := sib_distinct (o_family o) "" (erase (o_patch o)).

(* what is shown is what is sent: lines of the displayed patch == (depth, command) of the paths *)
Definition c9_shown (o : obs09) : bool := lines_eqb (o_lines o) (map (fun pc => lv (fst pc)) (o_paths o)).

(* and the displayed patch is the tree with one exit statement after each block *)
Definition c9_exits (o : obs09) : bool := lines_eqb (o_lines o) (shown (o_family o) "" 0 (erase (o_patch o))).

Definition c9_indent (o : obs09) : bool := cpaths_eqb (o_paths o) (o_paths0 o).

Definition hitfn := drule -> string -> ctx -> bool.

Definition sel (h : hitfn) (o : obs09) (p : list string) (c : ctx) : option drule := spec_rule h (o_rules o) p c.
Definition sel_apply (h : hitfn) (o : obs09) (pc : list string * ctx) : nat :=
  match sel h o (fst pc) (snd pc) with Some r => d_apply r | None => 0 end.

(* an expected command and whether its parameters are determined (unique rule chain) *)
Definition expect (h : hitfn) (o : obs09) (p : list string) (c : ctx) : command * bool :=
  let '(t, qs) := spec_params (sel h o p c) in
  (Cmd (path_cmd p) (path_level p) t qs, chain_det h (o_rules o) p c).

Definition cmd_fits_plain (e : command * bool) (a : command) : bool :=
  String.eqb (c_cmd (fst e)) (c_cmd a) && Nat.eqb (c_level (fst e)) (c_level a).

Definition cmd_fits (e : command * bool) (a : command) : bool :=
  cmd_fits_plain e a &&
  (negb (snd e) || (N.eqb (c_timeout (fst e)) (c_timeout a) &&
                    list_eqb question_eqb (c_questions (fst e)) (c_questions a))).

Fixpoint all_fit (fit : command * bool -> command -> bool) (es : list (command * bool)) (acts : list command) : bool :=
  match es, acts with
  | [], [] => true
  | e :: es', a :: acts' => fit e a && all_fit fit es' acts'
  | _, _ => false
  end.

(* [es] as a subsequence of [acts]: the commands left over, None if it is not a subsequence *)
Fixpoint sub_rest (fit : command * bool -> command -> bool) (es : list (command * bool)) (acts : list command)
  : option (list command) :=
  match acts with
  | [] => match es with [] => Some [] | _ => None end
  | a :: acts' =>
    match es with
    | e :: es' => if fit e a then sub_rest fit es' acts'
                  else match sub_rest fit es acts' with Some r => Some (a :: r) | None => None end
    | [] => match sub_rest fit [] acts' with Some r => Some (a :: r) | None => None end
    end
  end.

(* every command of the patch is handled by the default apply logic, chosen by a unique rule chain *)
Definition single_wrapper (h : hitfn) (o : obs09) : bool :=
  forallb (fun pc => Nat.eqb (sel_apply h o pc) 0 && chain_det h (o_rules o) (fst pc) (snd pc)) (o_paths0 o).

(* the command stream of one run.  [fit] = cmd_fits_plain checks command text and level only,
   cmd_fits also timeout/dialogs where the rule chain is unique. *)
Definition run_stream (fit : command * bool -> command -> bool) (h : hitfn) (o : obs09)
           (single : bool) (body : list (command * bool)) (r : run09) : bool :=
  match r_cmds r, r_common r with
  | Some cmds, Some w =>
    if single then
      all_fit fit (match body with
                   | [] => []
                   | _ => map (fun s => expect h o [s] []) (fst w) ++ body ++ map (fun s => expect h o [s] []) (snd w)
                   end) cmds
    else
      (* several apply logics in one patch: the body is a subsequence, in order, and everything
         else is a level-0 session command of one of the wrappers *)
      match sub_rest fit body cmds with
      | Some extra =>
        forallb (fun c => Nat.eqb (c_level c) 0 &&
                          existsb (String.eqb (c_cmd c)) (fst w ++ snd w ++ fst (r_ap_env r) ++ snd (r_ap_env r))) extra
      | None => false
      end
  | _, _ => false
  end.

Definition streams (fit : command * bool -> command -> bool) (o : obs09) : bool :=
  let h := fast_hit (o_rules o) in
  let body := map (fun pc => expect h o (fst pc) (snd pc)) (o_paths0 o) in
  let single := single_wrapper h o in
  forallb (run_stream fit h o single body) (o_runs o).

Definition c9_body (o : obs09) : bool := streams cmd_fits_plain o.
Definition c9_params (o : obs09) : bool := streams cmd_fits o.      (* implies c9_body *)
Definition c9_raised (o : obs09) : bool :=     (* true = no run raised *)
  forallb (fun r => match r_cmds r with Some _ => true | None => false end) (o_runs o).
Definition c9_wrapper (o : obs09) : bool :=
  forallb (fun r => match r_common r with
                    | Some w => wrapper_ok (r_commit r) (r_finalize r) w
                    | None => false
                    end && wrapper_ok_weak (r_commit r) (r_ap_env r)) (o_runs o).
(* no commit-class command anywhere in the stream at level 0 beyond patch rows when do_commit = false *)
Definition c9_no_commit (o : obs09) : bool :=
  forallb (fun r =>
             r_commit r ||
             match r_cmds r with
             | Some cmds =>
               Nat.leb (List.length (filter (fun c => is_class WCommit (c_cmd c)) cmds))
                       (List.length (filter (fun pc => is_class WCommit (path_cmd (fst pc))) (o_paths0 o)))
             | None => true
             end) (o_runs o).

Definition P_C09 (o : obs09) : bool :=
  c9_shown o && c9_exits o && c9_indent o && c9_raised o && c9_params o && c9_wrapper o && c9_no_commit o.

Definition holds_C09 (o : obs09) : bool := negb (wf_C09 o) || P_C09 o.

Definition agree_C09 (o : obs09) : bool := agree_lines09 o && agree_paths09 o && agree_wrapper09 o && agree_deploy09 o.

(* outside the domain (equal sibling rows): is something shown twice and sent once? *)
Definition dup_collapsed (o : obs09) : bool :=
  negb (Nat.eqb (List.length (o_lines o)) (List.length (o_paths o))).

(* The same with the runs that raised left aside (they are reported separately, c9_raised):
   P_C09 o = P_C09_lenient o && c9_raised o. *)
Definition streams_lenient (fit : command * bool -> command -> bool) (o : obs09) : bool :=
  let h := fast_hit (o_rules o) in
  let body := map (fun pc => expect h o (fst pc) (snd pc)) (o_paths0 o) in
  let single := single_wrapper h o in
  forallb (fun r => match r_cmds r with None => true | Some _ => run_stream fit h o single body r end) (o_runs o).

Definition P_C09_lenient (o : obs09) : bool :=
  c9_shown o && c9_exits o && c9_indent o && streams_lenient cmd_fits o && c9_wrapper o && c9_no_commit o.

Definition holds_lenient_C09 (o : obs09) : bool := negb (wf_C09 o) || P_C09_lenient o.
