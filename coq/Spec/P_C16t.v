(* C16 at the TEXT level: both front ends start from the same dump text.
   The device front end parses the running config with
       tabparser.parse_to_tree(text, registry.match(hw).make_formatter().split)        (annet/gen.py)
   the file front end reads the same text from a file (api._read_device_config) and must hand the
   same tree to the same diff/patch stages.  Independent of the regenerated tables under coq/Gen, like
   Spec/P_C16o.v, so that it can be evaluated on the implementation's outputs whatever the source
   looks like; the model of the reader (which needs Gen/Src_vendors.v) is in Spec/P_C16r.v. *)
From Coq Require Import List String Ascii Bool Arith ZArith.
From Annet Require Import Base.Str Base.Tree Model.Offside
     Model.Pattern Model.Rulebook Model.Diff Model.Order Model.Patch Model.Blocks Model.Pipeline
     Spec.PipelineCase Spec.P_C16o.
Import ListNotations.
Open Scope string_scope.
Open Scope list_scope.

(* ---------- noise on the item stream (what _filtered_lines makes of the lines) ---------- *)

(* a whole section moved k columns to the right *)
Definition shift_item (k : nat) (i : item) : item :=
  match i with
  | Content l r => Content (k + l) r
  | other => other
  end.

Definition is_reset (i : item) : bool := match i with Reset => true | _ => false end.
Definition is_skip (i : item) : bool := match i with Skip => true | _ => false end.
Definition no_reset (sec : list item) : bool := forallb (fun i => negb (is_reset i)) sec.

(* a dump as '#'-terminated sections, each printed with its own left margin *)
Definition render_sections (secs : list (nat * list item)) : list item :=
  List.concat (map (fun ks => (map (shift_item (fst ks)) (snd ks) ++ [Reset])%list) secs).

Definition unshifted (secs : list (nat * list item)) : list (nat * list item) :=
  map (fun ks => (0, snd ks)) secs.

(* the same on lines: sections of lines, each line of a section printed k columns to the right, a "#"
   line after every section *)
Fixpoint indent_line (k : nat) (l : string) : string :=
  match k with O => l | S k' => String sp (indent_line k' l) end.
Definition hash_free (ls : list string) : bool := forallb (fun l => negb (startswith "#" l)) ls.
Definition render_lines (secs : list (nat * list string)) : list string :=
  List.concat (map (fun ks => (map (indent_line (fst ks)) (snd ks) ++ ["#"])%list) secs).
Definition unshifted_lines (secs : list (nat * list string)) : list (nat * list string) :=
  map (fun ks => (0, snd ks)) secs.

(* the outcome without the line number of an error (removing lines renumbers the rest) *)
Definition outcome_tree (r : result) : option forest :=
  match r with Ok f => Some f | Err _ _ => None end.

(* what a reader that drops the lines starting with "!" or "#" before parsing (instead of letting
   parse_to_tree classify them) makes of a text *)
Definition drop_marked_lines (text : string) : string :=
  join_with (String nl EmptyString)
            (filter (fun l => negb (startswith "!" l || startswith "#" l)) (split_char nl text)).

(* ---------- observations of one text-level case ---------- *)

Record obs16t := Obs16t {
  t_vendor : string;
  t_old_text : string; t_new_text : string;
  t_dev_old : forest; t_dev_new : forest;                   (* device side: parse_to_tree of the two texts *)
  t_file_old : option forest; t_file_new : option forest;   (* file side: _read_old_new_hw; None = it raised *)
  t_obs : obs16;                                            (* both front ends' diff / patch / command paths *)
  t_printed : list (string * string)
     (* (text formatted from the device side's result, text printed by file_patch_worker / file_diff_worker) *)
}.

Definition opt_forest_is (a : option forest) (f : forest) : bool :=
  match a with Some g => forest_eqb g f | None => false end.

(* the file front end read the trees the device front end parsed from the same texts, both computed
   the same diff, patch and command paths, and the file workers printed the same patch / diff text *)
Definition P_C16t (x : obs16t) : bool :=
  opt_forest_is (t_file_old x) (t_dev_old x) && opt_forest_is (t_file_new x) (t_dev_new x) &&
  P_C16 (t_obs x) &&
  forallb (fun p => String.eqb (fst p) (snd p)) (t_printed x).

