(* C16, text level: the model of the reader both front ends share, and its agreement with the real parse.
   Needs the regenerated vendor table (Gen/Src_vendors.v) through Model/Join.v. *)
From Coq Require Import List String Ascii Bool Arith ZArith.
From Annet Require Import Base.Str Base.Tree Model.Offside Gen.Src_vendors Model.Join Spec.P_C16t.
Import ListNotations.
Open Scope string_scope.
Open Scope list_scope.

(* ---------- the reader both front ends share, in the model ---------- *)

(* parse_to_tree(text, <vendor formatter>.split) with the default comments ("!", "#");
   None = the vendor's split is outside the modelled part (Model/Join.v) *)
Definition read_config (vendor : string) (text : string) : option result :=
  match Join.find_vendor vendor with
  | Some v => match Join.family v with
              | Some fm => parse_f fm (eff_indent v "  ") text
              | None => None
              end
  | None => None
  end.

(* correspondence: the model's reader gives the tree the real parse gave, on both texts *)
Definition agree_reader (x : obs16t) : bool :=
  let ok (text : string) (f : forest) :=
    match read_config (t_vendor x) text with
    | Some r => result_eqb r (Ok f)
    | None => true
    end in
  ok (t_old_text x) (t_dev_old x) && ok (t_new_text x) (t_dev_new x).

(* the vendor's formatter family is one Model/Join.v knows (its split may still be unmodelled on a given text) *)
Definition reader_vendor_modelled (x : obs16t) : bool :=
  match Join.find_vendor (t_vendor x) with
  | Some v => match Join.family v with Some _ => true | None => false end
  | None => false
  end.
