(* C06: declarative references for ACL filtering and the property predicates evaluated on
   the real implementation's outputs. *)
From Coq Require Import List String Ascii Bool Arith.
From Annet Require Import Base.Str Base.Tree Model.Pattern Model.Order Model.Acl.
Import ListNotations.
Open Scope string_scope.
Open Scope list_scope.

(* ------------------------------------------------------------------------------ *)
(* Trees: ordered sub-tree, pruning by a predicate on paths, inclusion             *)

(* a is an order-preserving sub-tree of b: rows of a are rows of b in the same relative
   order, and the same holds for the children of every kept row *)
Inductive sub : forest -> forest -> Prop :=
| sub_nil b : sub [] b
| sub_skip a r c b : sub a b -> sub a ((r, c) :: b)
| sub_keep r ca cb a b : sub (kids ca) (kids cb) -> sub a b -> sub ((r, ca) :: a) ((r, cb) :: b).

Fixpoint subb_t (b a : tree) {struct b} : bool :=
  match b with
  | T kb =>
    (fix go (lb : forest) (la : forest) {struct lb} : bool :=
       match lb with
       | [] => match la with [] => true | _ => false end
       | (r', cb) :: lb' =>
         match la with
         | [] => true
         | (r, ca) :: la' =>
           if String.eqb r r'
           then (if subb_t cb ca then (if go lb' la' then true else go lb' la) else go lb' la)
           else go lb' la
         end
       end) kb (kids a)
  end.
Definition subb (a b : forest) : bool := subb_t (T b) (T a).

(* keep exactly the rows whose whole path satisfies cov; cov sees the path from the top *)
Fixpoint prune_t (cov : list string -> bool) (t : tree) {struct t} : forest :=
  match t with
  | T k =>
    (fix go (l : forest) : forest :=
       match l with
       | [] => []
       | (r, c) :: l' =>
         if cov [r] then (r, T (prune_t (fun p => cov (r :: p)) c)) :: go l' else go l'
       end) k
  end.
Definition prune (cov : list string -> bool) (f : forest) : forest := prune_t cov (T f).

Fixpoint lookup (r : string) (f : forest) : option tree :=
  match f with
  | [] => None
  | (r', c) :: f' => if String.eqb r r' then Some c else lookup r f'
  end.

(* every line of a (with its whole path) is a line of b *)
Fixpoint leb_t (a b : tree) {struct a} : bool :=
  match a with
  | T ka =>
    (fix go (l : forest) : bool :=
       match l with
       | [] => true
       | (r, c) :: l' =>
         match lookup r (kids b) with
         | Some cb => leb_t c cb
         | None => false
         end && go l'
       end) ka
  end.
Definition forest_leb (a b : forest) : bool := leb_t (T a) (T b).
Definition forest_le (a b : forest) : Prop := forall p, In p (paths [] a) -> In p (paths [] b).

Fixpoint split_last (p : list string) : option (list string * string) :=
  match p with
  | [] => None
  | r :: q => match split_last q with
              | Some (par, l) => Some (r :: par, l)
              | None => Some ([], r)
              end
  end.

Fixpoint find_map {A B} (f : A -> option B) (l : list A) : option B :=
  match l with
  | [] => None
  | x :: t => match f x with Some y => Some y | None => find_map f t end
  end.

(* ------------------------------------------------------------------------------ *)
(* References, generic in the row matcher                                          *)

Section Ref.
  Variable rmatch : string -> string -> option (list string).
  Variable rsrc : string -> string.
  Variable rrev : string -> string.
  Variable norm : string -> string.

  Notation mrow := (match_row_to_acl rmatch rsrc rrev norm).
  Notation covers := (acl_covers_path rmatch rsrc rrev norm).
  Notation rules_at := (acl_rules_at rmatch rsrc rrev norm).

  (* "containing precisely the lines whose whole path is covered by the ACL" *)
  Definition ref_filter (rs : aset) (f : forest) : forest := prune (covers rs) f.

  (* what is wrong with the line at path p, if its parent is covered: no rule matches it
     (strict mode), or several generators claim the right to delete it (exclusive mode) *)
  Definition event_at (rs : aset) (fatal excl : bool) (p : list string) : option aerr :=
    match split_last p with
    | None => None
    | Some (parent, row) =>
      match rules_at rs parent with
      | None => None
      | Some crs =>
        match mrow row crs excl with
        | MErr g => Some (ENotExclusive p g)
        | MNone => if fatal then Some (EUncovered p) else None
        | MSome _ _ => None
        end
      end
    end.

  (* the first offending line in document order is named; without one the result is the
     filtered tree *)
  Definition ref_run (rs : aset) (fatal excl : bool) (f : forest) : forest + aerr :=
    match find_map (event_at rs fatal excl) (paths [] f) with
    | Some e => inr e
    | None => inl (ref_filter rs f)
    end.

  (* "some row of t at a covered parent is uncovered" *)
  Definition uncovered_at (rs : aset) (p : list string) : bool :=
    match event_at rs true false p with Some _ => true | None => false end.
End Ref.

(* ------------------------------------------------------------------------------ *)
(* Metric-free view of one row                                                      *)

(* outcome classes of a match: the row is dropped (0) / passed with the children rules of
   the matching local rules (1) / passed with the inherited globals only (2) *)
Definition mclass (m : amatch) : nat := if drops m then 0 else if am_cr m then 1 else 2.

Section Unambiguous.
  Variable rmatch : string -> string -> option (list string).
  Variable rsrc : string -> string.
  Variable rrev : string -> string.
  Variable norm : string -> string.

  (* all matching rules (in either form) would treat the row the same way: then neither
     prio nor the shared-symbol heuristic nor the order of the rules can change its fate *)
  Definition row_unambiguous (rs : aset) (row : string) : bool :=
    match acl_candidates rmatch rsrc rrev norm row rs with
    | [] => true
    | c :: l => forallb (fun m => Nat.eqb (mclass m) (mclass c)) l
    end.
End Unambiguous.

(* ------------------------------------------------------------------------------ *)
(* One observed case                                                               *)

Definition p_ref_filter (v : avendor) := ref_filter acl_pm acl_psrc (acl_prev v) (acl_norm v).
Definition p_ref_run (v : avendor) := ref_run acl_pm acl_psrc (acl_prev v) (acl_norm v).

Definition outcome_of (r : forest + aerr) : acl_outcome :=
  match r with
  | inl f => OTree f
  | inr (EUncovered p) => OUncovered p
  | inr (ENotExclusive p g) => ONotExclusive p g
  end.

(* the declarative outcome of apply_acl(t, compile_acl_text(A), fatal, exclusive) *)
Definition ref_outcome (v : avendor) (a : acl) (fatal excl : bool) (t : forest) : acl_outcome :=
  match compile_acl a with
  | None => OCompileError
  | Some rs => outcome_of (p_ref_run v rs fatal excl t)
  end.

Record c06case := C06Case {
  cc_vendor : avendor;
  cc_a : acl;
  cc_b : option acl;
  cc_tree : forest;
  cc_excl : bool;
  cc_plain : acl_outcome;            (* apply_acl(t, A, fatal_acl=False, exclusive=excl) *)
  cc_fatal : acl_outcome;            (* apply_acl(t, A, fatal_acl=True,  exclusive=excl) *)
  cc_twice : option acl_outcome;     (* apply_acl(plain, A) *)
  cc_ob : option acl_outcome;        (* apply_acl(t, B) *)
  cc_oab : option acl_outcome;       (* apply_acl(t, A + "\n" + B) *)
  cc_fcfg : option acl_outcome       (* filter_config(make_acl(A), CommonFormatter, join(t)), parsed back *)
}.

Definition opt_outcome_eqb (a b : option acl_outcome) : bool :=
  match a, b with
  | Some x, Some y => outcome_eqb x y
  | None, None => true
  | _, _ => false
  end.

(* model = implementation *)
Definition agree_plain (c : c06case) : bool :=
  outcome_eqb (run_acl (cc_vendor c) (cc_a c) false (cc_excl c) (cc_tree c)) (cc_plain c).
Definition agree_fatal (c : c06case) : bool :=
  outcome_eqb (run_acl (cc_vendor c) (cc_a c) true (cc_excl c) (cc_tree c)) (cc_fatal c).
Definition agree_twice (c : c06case) : bool :=
  match cc_plain c, cc_twice c with
  | OTree f, Some o => outcome_eqb (run_acl (cc_vendor c) (cc_a c) false false f) o
  | OTree _, None => false
  | _, _ => true
  end.
Definition agree_merge (c : c06case) : bool :=
  match cc_b c, cc_ob c, cc_oab c with
  | Some b, Some ob, Some oab =>
    outcome_eqb (run_acl (cc_vendor c) b false false (cc_tree c)) ob &&
    outcome_eqb (run_acl (cc_vendor c) (acl_concat (cc_a c) b) false false (cc_tree c)) oab
  | None, None, None => true
  | _, _, _ => false
  end.

(* the property clauses on the implementation's outputs *)

(* the result is an ordered sub-tree of the input *)
Definition holds_subtree (c : c06case) : bool :=
  match cc_plain c with OTree f => subb f (cc_tree c) | _ => true end &&
  match cc_fatal c with OTree f => subb f (cc_tree c) | _ => true end.

(* ... equal to the reference: exactly the covered lines; an error names the first
   offending line (both the lenient and the strict run) *)
Definition holds_exact (c : c06case) : bool :=
  outcome_eqb (cc_plain c) (ref_outcome (cc_vendor c) (cc_a c) false (cc_excl c) (cc_tree c)).
Definition holds_fatal (c : c06case) : bool :=
  outcome_eqb (cc_fatal c) (ref_outcome (cc_vendor c) (cc_a c) true (cc_excl c) (cc_tree c)).

(* filtering twice changes nothing *)
Definition holds_idem (c : c06case) : bool :=
  match cc_plain c, cc_twice c with
  | OTree f, Some (OTree g) => forest_eqb f g
  | OTree _, _ => false
  | _, _ => true
  end.

(* the merged ACL passes everything either passes alone *)
Definition holds_monotone (c : c06case) : bool :=
  match cc_excl c, cc_plain c, cc_ob c, cc_oab c with
  | false, OTree fa, Some (OTree fb), Some (OTree fab) => forest_leb fa fab && forest_leb fb fab
  | _, _, _, _ => true
  end.

(* the library entry point filter_config gives the same tree *)
Definition holds_filter_config (c : c06case) : bool :=
  match cc_fcfg c with
  | Some o => outcome_eqb o (ref_outcome (cc_vendor c) (cc_a c) false false (cc_tree c))
  | None => true
  end.

Definition P_C06 (c : c06case) : bool :=
  holds_subtree c && holds_exact c && holds_fatal c && holds_idem c && holds_monotone c && holds_filter_config c.

(* the clauses expected to hold of every run (monotonicity is treated separately) *)
Definition P_C06_core (c : c06case) : bool :=
  holds_subtree c && holds_exact c && holds_fatal c && holds_idem c && holds_filter_config c.

(* what the model predicts for a case; filter_config's text join / re-parse is taken to
   be the identity on the tree (that round trip is C04/C05's subject) *)
Definition model_case (v : avendor) (a : acl) (b : option acl) (t : forest) (excl : bool) : c06case :=
  let plain := run_acl v a false excl t in
  C06Case v a b t excl plain (run_acl v a true excl t)
          (match plain with OTree f => Some (run_acl v a false false f) | _ => None end)
          (option_map (fun b' => run_acl v b' false false t) b)
          (option_map (fun b' => run_acl v (acl_concat a b') false false t) b)
          (Some (run_acl v a false false t)).

(* ------------------------------------------------------------------------------ *)
(* Merged ACLs: when does "own" (A or B alone) passing a line imply that "mrg"      *)
(* (A + B) passes it?  The guard under which the law is proved, and the reason      *)
(* codes by which the check classifies the counterexamples.                          *)

Definition has_id (l : list arule) (i : string) : bool := existsb (fun r => String.eqb (ar_id r) i) l.

(* domination: r (a local rule) is represented in (L, G) — some local rule of L has the same
   row and, recursively, dominates r's children rules, or the row has become %global *)
Fixpoint rleb (r : arule) (L G : list arule) {struct r} : bool :=
  match r with
  | ARule i _ _ _ kl kg =>
    existsb (fun r' => String.eqb (ar_id r') i
                       && forallb (fun k => rleb k (ar_kl r') (ar_kg r')) kl
                       && forallb (fun k => has_id (ar_kg r') (ar_id k)) kg) L
    || has_id G i
  end.
(* r' has r's row and dominates its children rules *)
Definition belowb (r r' : arule) : bool :=
  String.eqb (ar_id r') (ar_id r)
  && forallb (fun k => rleb k (ar_kl r') (ar_kg r')) (ar_kl r)
  && forallb (fun k => has_id (ar_kg r') (ar_id k)) (ar_kg r).
(* own ⊑ mrg *)
Definition aset_le (own mrg : aset) : bool :=
  forallb (fun r => rleb r (fst mrg) (snd mrg)) (fst own) && forallb (fun k => has_id (snd mrg) (ar_id k)) (snd own).

(* rule rows are unique among the local rules of every level (they are dict keys) *)
Fixpoint nodupb (l : list string) : bool :=
  match l with [] => true | x :: t => negb (existsb (String.eqb x) t) && nodupb t end.
Fixpoint wfrb (r : arule) : bool :=
  match r with ARule _ _ _ _ kl _ => nodupb (map ar_id kl) && forallb wfrb kl end.
Definition wf_aset (rs : aset) : bool := nodupb (map ar_id (fst rs)) && forallb wfrb (fst rs).

(* the same relations as propositions (the boolean tests above are sound for them:
   Proofs/AclMono.v rleb_rle, belowb_below, aset_le_ale, wf_aset_wfl) *)
(* r (a local rule) is represented in (L, G): some local rule of L has the same row and
   dominates r's children rules, or the row has become global *)
Fixpoint rle (r : arule) (L G : list arule) {struct r} : Prop :=
  match r with
  | ARule i _ _ _ kl kg =>
    (exists r', In r' L /\ ar_id r' = i /\
                (fix all (l : list arule) : Prop :=
                   match l with [] => True | k :: t => rle k (ar_kl r') (ar_kg r') /\ all t end) kl /\
                (forall k, In k kg -> has_id (ar_kg r') (ar_id k) = true))
    \/ has_id G i = true
  end.

Definition lle (l L G : list arule) : Prop := forall r, In r l -> rle r L G.
Definition gle (g G : list arule) : Prop := forall k, In k g -> has_id G (ar_id k) = true.
Definition below (r r' : arule) : Prop :=
  ar_id r' = ar_id r /\ lle (ar_kl r) (ar_kl r') (ar_kg r') /\ gle (ar_kg r) (ar_kg r').
Definition ale (own mrg : aset) : Prop := lle (fst own) (fst mrg) (snd mrg) /\ gle (snd own) (snd mrg).

(* rule rows unique among the local rules of every level *)
Fixpoint wfr (r : arule) : Prop :=
  match r with
  | ARule _ _ _ _ kl _ =>
    NoDup (map ar_id kl) /\
    (fix all (l : list arule) : Prop := match l with [] => True | k :: t => wfr k /\ all t end) kl
  end.
Definition wfl (l : list arule) : Prop := NoDup (map ar_id l) /\ forall r, In r l -> wfr r.

(* lines with the same text carry the same row and flags *)
Definition fields_agree (x y : aitem) : Prop :=
  ai_row x = ai_row y /\ ai_ign x = ai_ign y /\ ai_glob x = ai_glob y.

(* x occurs in Z at some depth *)
Inductive occurs (Z : list aitem) : aitem -> Prop :=
| occ_top x : In x Z -> occurs Z x
| occ_kid x c : occurs Z x -> In c (ai_kids x) -> occurs Z c.

Definition acl_consistent (Z : acl) : Prop :=
  forall x y, occurs Z x -> occurs Z y -> ai_raw x = ai_raw y -> fields_agree x y.

(* a boolean test for acl_consistent *)
Fixpoint items_of (x : aitem) : list aitem :=
  x :: (fix go (l : list aitem) : list aitem := match l with [] => [] | c :: t => items_of c ++ go t end) (ai_kids x).
Definition all_items (Z : acl) : list aitem := flat_map items_of Z.
Definition fields_agreeb (x y : aitem) : bool :=
  String.eqb (ai_row x) (ai_row y) && Bool.eqb (ai_ign x) (ai_ign y) && Bool.eqb (ai_glob x) (ai_glob y).
Definition acl_consistentb (Z : acl) : bool :=
  forallb (fun x => forallb (fun y => negb (String.eqb (ai_raw x) (ai_raw y)) || fields_agreeb x y) (all_items Z)) (all_items Z).

Section Mono.
  Variable rmatch : string -> string -> option (list string).
  Variable rsrc : string -> string.
  Variable rrev : string -> string.
  Variable norm : string -> string.

  Notation mrow := (match_row_to_acl rmatch rsrc rrev norm).

  (* the local rules of rs that match the row directly: the cr-allowed matches *)
  Definition cr_matches (rs : aset) (row : string) : list arule :=
    filter (fun r => match rmatch (ar_id r) (norm row) with Some _ => true | None => false end) (fst rs).

  (* 0 = this step cannot lose anything; otherwise why the merged ACL may lose the row or
     rows below it although `own` passes them:
       1 the merged governing match is a reverse form with all cant_delete set; own's was a reverse form too
       2 ... own's was a direct match
       3 own's governing match carries children rules, the merged one is a reverse form (no children rules)
       4 ... the merged one is own's rule turned %global by the merge (global: a or b)
       5 ... the merged one is another %global rule
       6 both carry children rules, but some rule of own matching the row has no local counterpart
         among the merged matches that dominates its children rules (it has become %global)
       7 the merged ACL does not match the row at all (impossible when own ⊑ mrg) *)
  Definition step_reason (own mrg : aset) (row : string) : nat :=
    match mrow row own false, mrow row mrg false with
    | MSome m _, MSome m' _ =>
      if drops m' then (if am_rev m then 1 else 2)
      else if am_cr m && negb (am_cr m') then
             (if am_rev m' then 3
              else if has_id (fst own) (ar_id (am_rule m')) then 4 else 5)
      else if am_cr m && negb (forallb (fun r => existsb (belowb r) (cr_matches mrg row)) (cr_matches own row)) then 6
      else 0
    | MSome _ _, _ => 7
    | _, _ => 0
    end.

  (* along a path: the first step with a reason, 0 if there is none as far as own passes *)
  Fixpoint mono_reason (own mrg : aset) (p : list string) : nat :=
    match p with
    | [] => 0
    | r :: q =>
      match mrow r own false with
      | MSome m crs =>
        if drops m then 0
        else match step_reason own mrg r with
             | 0 => match mrow r mrg false with
                    | MSome _ crs' => mono_reason crs crs' q
                    | _ => 7
                    end
             | n => n
             end
      | _ => 0
      end
    end.

  (* the guard of the monotonicity theorem: no line of t has a reason *)
  Definition mono_guard (own mrg : aset) (t : forest) : bool :=
    forallb (fun p => Nat.eqb (mono_reason own mrg p) 0) (paths [] t).
End Mono.

Definition first_lost (fa fab : forest) : option (list string) :=
  find (fun p => negb (existsb (list_str_eqb p) (paths [] fab))) (paths [] fa).

(* the reason code of a failing monotonicity case: for the first line passed by A alone
   (else by B alone) that the merged ACL drops.  99 = lost without a reason (this would
   contradict the guarded theorem), 98 = nothing lost *)
Definition mono_code (c : c06case) : nat :=
  let v := cc_vendor c in
  match cc_b c with
  | None => 98
  | Some b =>
    match compile_acl (cc_a c), compile_acl b, compile_acl (acl_concat (cc_a c) b) with
    | Some ra, Some rb, Some rab =>
      let reason own p :=
          match mono_reason acl_pm acl_psrc (acl_prev v) (acl_norm v) own rab p with 0 => 99 | n => n end in
      let fab := p_ref_filter v rab (cc_tree c) in
      match first_lost (p_ref_filter v ra (cc_tree c)) fab with
      | Some p => reason ra p
      | None => match first_lost (p_ref_filter v rb (cc_tree c)) fab with
                | Some p => reason rb p
                | None => 98
                end
      end
    | _, _, _ => 98
    end
  end.

(* ------------------------------------------------------------------------------ *)
(* Ranking-free reading of an ACL: unambiguous inputs, and rule sets that differ only in    *)
(* how competing rules are ranked                                                           *)

Definition allcd (r : arule) : bool := forallb (fun b => b) (ar_cd r).

(* strict domination: r is represented in L by a rule with the same row which does not have
   all cant_delete set unless r has, and whose local and global children rules dominate r's *)
Fixpoint srle (r : arule) (L : list arule) {struct r} : Prop :=
  match r with
  | ARule i cd _ _ kl kg =>
    exists r', In r' L /\ ar_id r' = i /\ (allcd r' = true -> forallb (fun b => b) cd = true) /\
               (fix all (l : list arule) : Prop :=
                  match l with [] => True | k :: t => srle k (ar_kl r') /\ all t end) kl /\
               (fix all (l : list arule) : Prop :=
                  match l with [] => True | k :: t => srle k (ar_kg r') /\ all t end) kg
  end.
Definition slle (l L : list arule) : Prop := forall r, In r l -> srle r L.
Definition sbelow (r r' : arule) : Prop :=
  ar_id r' = ar_id r /\ (allcd r' = true -> allcd r = true) /\
  slle (ar_kl r) (ar_kl r') /\ slle (ar_kg r) (ar_kg r').
Definition sale (a b : aset) : Prop := slle (fst a) (fst b) /\ slle (snd a) (snd b).

(* rows unique in every local and global list *)
Fixpoint swfr (r : arule) : Prop :=
  match r with
  | ARule _ _ _ _ kl kg =>
    NoDup (map ar_id kl) /\ NoDup (map ar_id kg) /\
    (fix all (l : list arule) : Prop := match l with [] => True | k :: t => swfr k /\ all t end) kl /\
    (fix all (l : list arule) : Prop := match l with [] => True | k :: t => swfr k /\ all t end) kg
  end.
Definition swfl (l : list arule) : Prop := NoDup (map ar_id l) /\ forall r, In r l -> swfr r.
Definition swf (rs : aset) : Prop := swfl (fst rs) /\ swfl (snd rs).

(* the two rule sets have the same rows at the same places with the same cant_delete verdicts
   (they may differ in prio, in the order of the rules, in how often a flag is repeated) *)
Definition rank_equiv (a b : aset) : Prop := sale a b /\ sale b a /\ swf a /\ swf b.

(* boolean tests, sound for the relations above *)
Fixpoint srleb (r : arule) (L : list arule) {struct r} : bool :=
  match r with
  | ARule i cd _ _ kl kg =>
    existsb (fun r' => String.eqb (ar_id r') i && implb (allcd r') (forallb (fun b => b) cd)
                       && forallb (fun k => srleb k (ar_kl r')) kl && forallb (fun k => srleb k (ar_kg r')) kg) L
  end.
Definition saleb (a b : aset) : bool :=
  forallb (fun r => srleb r (fst b)) (fst a) && forallb (fun r => srleb r (snd b)) (snd a).
Fixpoint swfrb (r : arule) : bool :=
  match r with
  | ARule _ _ _ _ kl kg => nodupb (map ar_id kl) && nodupb (map ar_id kg) && forallb swfrb kl && forallb swfrb kg
  end.
Definition swfb (rs : aset) : bool :=
  nodupb (map ar_id (fst rs)) && forallb swfrb (fst rs) && nodupb (map ar_id (snd rs)) && forallb swfrb (snd rs).
Definition rank_equivb (a b : aset) : bool := saleb a b && saleb b a && swfb a && swfb b.

Section PathUnamb.
  Variable rmatch : string -> string -> option (list string).
  Variable rsrc : string -> string.
  Variable rrev : string -> string.
  Variable norm : string -> string.
  (* every row along the path (as far as it is passed) is unambiguous *)
  Fixpoint path_unambiguous (rs : aset) (p : list string) : bool :=
    match p with
    | [] => true
    | r :: q =>
      row_unambiguous rmatch rsrc rrev norm rs r &&
      match match_row_to_acl rmatch rsrc rrev norm r rs false with
      | MSome m crs => if drops m then true else path_unambiguous crs q
      | _ => true
      end
    end.
  Definition acl_unambiguous (rs : aset) (t : forest) : bool :=
    forallb (path_unambiguous rs) (paths [] t).
End PathUnamb.
