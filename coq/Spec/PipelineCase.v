(* One observed run of the real pipeline, as printed by the harness, and the
   model-vs-implementation agreement predicates shared by C01/C02/C03/C08/C09/C16. *)
From Coq Require Import List String Ascii Bool Arith ZArith.
From Annet Require Import Base.Str Base.Tree Model.Pattern Model.Rulebook Model.Diff Model.Order
     Model.Patch Model.Blocks Model.Pipeline.
Import ListNotations.
Open Scope string_scope.
Open Scope list_scope.

Record pcase := PCase {
  pc_vendor : vendor;
  pc_rules : rset;
  pc_ordering : list orule;
  pc_old : forest;
  pc_new : forest;
  pc_diff_full : list dnode;              (* patching.make_diff(old,new,rb,[None]) *)
  pc_diff : list dnode;                   (* diff returned by _diff_and_patch (stripped) *)
  pc_patch : option ptree;                (* PatchTree, None = AssertionError from a logic *)
  pc_paths : list (list string);          (* formatter.cmd_paths(patch).keys() *)
  pc_lines : list (nat * string)          (* formatter.patch(patch) as (level,row) *)
}.

Definition paths_eqb (a b : list (list string)) : bool :=
  Nat.eqb (List.length a) (List.length b) && forallb (fun p => list_str_eqb (fst p) (snd p)) (combine a b).

Definition lines_eqb (a b : list (nat * string)) : bool :=
  Nat.eqb (List.length a) (List.length b) &&
  forallb (fun p => Nat.eqb (fst (fst p)) (fst (snd p)) && String.eqb (snd (fst p)) (snd (snd p))) (combine a b).

Definition agree_diff_full (c : pcase) : bool :=
  diff_eqb (p_make_diff (pc_rules c) (pc_old c) (pc_new c)) (pc_diff_full c).

Definition agree_diff (c : pcase) : bool :=
  match pc_patch c with None => true | Some _ => true end &&
  (match pc_patch c with None => true | Some _ => false end ||
  diff_eqb (fst (diff_and_patch (pc_vendor c) (pc_rules c) (pc_ordering c) (pc_old c) (pc_new c))) (pc_diff c)).

Definition model_patch (c : pcase) : presult :=
  snd (diff_and_patch (pc_vendor c) (pc_rules c) (pc_ordering c) (pc_old c) (pc_new c)).

Definition agree_patch (c : pcase) : bool :=
  match model_patch c, pc_patch c with
  | POk a, Some b => ptree_eqb a b
  | PErr, None => true
  | _, _ => false
  end.

Definition is_ros (f : family) : bool := match f with FRos => true | _ => false end.

(* cmd_paths and patch text are compared on the implementation's own patch tree, so a
   patch disagreement is reported once *)
Definition agree_paths (c : pcase) : bool :=
  match pc_patch c with
  | Some p => is_ros (v_family (pc_vendor c)) || paths_eqb (cmd_paths (v_family (pc_vendor c)) p) (pc_paths c)
  | None => true
  end.

Definition is_flat (f : family) : bool := match f with FRos | FJuniper _ _ => true | _ => false end.

Definition agree_lines (c : pcase) : bool :=
  match pc_patch c with
  | Some p => is_flat (v_family (pc_vendor c)) ||
              lines_eqb (indent_lines (blocks (v_family (pc_vendor c)) "" p) 0) (pc_lines c)
  | None => true
  end.
