(* C11, text level: the domain of the theorems that are stated over configuration ROWS (strings).
   - rule_text_ok k : the texts of the rule (prefix words, reverse) are such that the printer, annet's
     _parse_vlancfg and the reader of the command syntax agree on where the range list starts;
     evaluated to true on every rule kind of the shipped rulebooks that holds a VLAN list.
   - read_line : device meaning of one configuration row of the list (the same range readers that
     Model.Vlan.parse_cmd uses for the emitted commands).
   - rows_wf : the rows are in the printer's range (reading a row and printing it again gives the
     row back) and the lines read satisfy wf_C11. *)
From Coq Require Import List String Ascii Bool Arith NArith.
From Annet Require Import Base.Str Model.Vlan Model.VlanDb Model.VlanCisco Spec.P_C11.
Import ListNotations.
Open Scope string_scope.
Open Scope list_scope.

Fixpoint no_comma (s : string) : bool :=
  match s with EmptyString => true | String c r => negb (Ascii.eqb c comma) && no_comma r end.

Definition last_word (ws : list string) : option string :=
  match rev ws with [] => None | x :: _ => Some x end.

Definition head_word (ws : list string) : option string :=
  match ws with [] => None | x :: _ => Some x end.

Definition opt_str_neq (o : option string) (w : string) : bool :=
  match o with Some x => negb (String.eqb x w) | None => false end.

Definition is_none {A} (o : option A) : bool := match o with None => true | Some _ => false end.

Definition rule_text_ok (k : rulek) : bool :=
  let pw := words (rk_prefix k) in
  let rw := words (rk_reverse k) in
  (* the prefix is its words joined by single blanks, and has no comma *)
  String.eqb (join_with " " pw) (rk_prefix k) && no_comma (rk_prefix k) &&
  match rk_logic k with
  | HwSingle =>
    (* the prefix does not end in a number or "to", does not start with "undo"; the reverse row
       is neither an add nor a remove row *)
    match last_word pw with Some x => negb (hw_vl_word x) | None => false end &&
    opt_str_neq (head_word pw) "undo" &&
    is_none (strip_prefix pw rw) && is_none (strip_prefix ("undo" :: pw) rw)
  | HwMulti =>
    match last_word pw with Some x => negb (hw_vl_word x) | None => false end &&
    opt_str_neq (head_word pw) "undo"
  | HwMultiAll =>
    match last_word pw with Some x => negb (hw_vl_word x) | None => false end &&
    opt_str_neq (head_word pw) "undo" &&
    list_str_eqb rw ("undo" :: pw)
  | CiscoSimple | CiscoSwtrunk =>
    opt_str_neq (last_word pw) "add" && opt_str_neq (head_word pw) "no"
  end.

(* a line the printer writes faithfully: ranges lo <= hi; the "add" form only for switchport
   trunk allowed vlan; an empty range list only as its "... vlan none" *)
Definition line_ok (k : rulek) (l : line) : bool :=
  forallb range_ok (snd l) &&
  (logic_eqb (rk_logic k) CiscoSwtrunk || negb (fst l)) &&
  (negb (is_nil (snd l)) || (logic_eqb (rk_logic k) CiscoSwtrunk && negb (fst l))).

(* device meaning of a configuration row of the list *)
Definition read_line (k : rulek) (row : string) : option line :=
  match strip_prefix (words (rk_prefix k)) (words row) with
  | None => None
  | Some tl =>
    if is_hw (rk_logic k) then option_map (pair false) (nonempty_ranges (hw_parse_ranges tl))
    else match tl with
         | [w] => if String.eqb w "none" then Some (false, [])
                  else option_map (pair false) (cisco_parse_ranges w)
         | [a; w] => if String.eqb a "add" then option_map (pair true) (cisco_parse_ranges w) else None
         | _ => None
         end
  end.

Definition read_lines (k : rulek) (rows : list string) : option (list line) :=
  all_some (map (read_line k) rows).

(* the VLAN set a list of configuration rows denotes on the device *)
Definition rows_set (k : rulek) (rows : list string) : NS.t :=
  match read_lines k rows with Some ls => set_of_lines ls | None => NS.empty end.

(* the rows are what the printer writes for the lines read from them, and those lines are a
   configuration pair of the domain *)
Definition rows_wf (k : rulek) (ro rn : list string) : bool :=
  rule_text_ok k &&
  match read_lines k ro, read_lines k rn with
  | Some o, Some n =>
    list_str_eqb (map (print_line k) o) ro && list_str_eqb (map (print_line k) n) rn && wf_C11 (k, o, n)
  | _, _ => false
  end.

(* the commands a row list is read as, the property on them *)
Definition rows_cmds_ok (k : rulek) (ro rn : list string) (out : list string) : bool :=
  match parse_cmds k out with
  | Some cs => reaches (rows_set k ro) (rows_set k rn) cs && keeps_common (rows_set k ro) (rows_set k rn) cs
  | None => false
  end.

(* a command the rule logics can emit (the range of the command printer) *)
Definition emittable (k : rulek) (c : cmd) : bool :=
  match c with
  | Add rs | Remove rs => negb (is_nil rs)
  | RemoveAll => logic_eqb (rk_logic k) HwSingle || logic_eqb (rk_logic k) HwMultiAll
  | SetNone => logic_eqb (rk_logic k) CiscoSwtrunk
  | SetTo _ => false
  end.

(* the rule kinds of the shipped rulebooks that hold a VLAN list (harness/props/c11.py KINDS) *)
Definition shipped_kinds : list rulek :=
  [ RK HwMultiAll "port trunk allow-pass vlan" "undo port trunk allow-pass vlan" false;
    RK HwMultiAll "port hybrid tagged vlan" "undo port hybrid tagged vlan" false;
    RK HwMultiAll "port hybrid untagged vlan" "undo port hybrid untagged vlan" false;
    RK HwMulti "vlan batch" "undo vlan batch" false;
    RK HwSingle "instance 1 vlan" "undo instance 1" false;
    RK CiscoSwtrunk "switchport trunk allowed vlan" "no switchport trunk allowed vlan" true;
    RK CiscoSwtrunk "switchport trunk allowed vlan" "no switchport trunk allowed vlan" false;
    RK CiscoSimple "vlan" "no vlan" true;
    RK CiscoSimple "vlan" "no vlan" false;
    RK CiscoSimple "vlan group G vlan-list" "no vlan group G vlan-list" false ].

(* ====================================================================================== *)
(* The Huawei global VLAN database over rows *)

(* reading the top-level rows of a configuration (P_C11.parse_db) and printing them again gives
   the rows back (batch rows first, then blocks: print_db's order), and the database read is in
   the domain *)
Definition db_rows_wf (ro rn : list trow) : bool :=
  match parse_db ro, parse_db rn with
  | Some o, Some n => trows_eqb (print_db o) ro && trows_eqb (print_db n) rn && wf_db (o, n)
  | _, _ => false
  end.

Definition db_rows_set (rows : list trow) : NS.t :=
  match parse_db rows with Some c => set_of_db c | None => NS.empty end.

Definition db_rows_guard (ro rn : list trow) : bool :=
  match parse_db ro, parse_db rn with
  | Some o, Some n => blocks_follow_batch (o, n)
  | _, _ => false
  end.

(* ====================================================================================== *)
(* The Cisco / Nexus global `vlan` rule over rows *)

Definition cdb_rows_wf (ro rn : list trow) : bool :=
  match parse_ccfg ro, parse_ccfg rn with
  | Some o, Some n => trows_eqb (print_ccfg o) ro && trows_eqb (print_ccfg n) rn && wf_cdb (false, o, n)
  | _, _ => false
  end.

Definition cdb_rows_set (rows : list trow) : NS.t :=
  match parse_ccfg rows with Some c => set_of_ccfg c | None => NS.empty end.

Definition cdb_rows_guard (ro rn : list trow) : bool :=
  match parse_ccfg ro, parse_ccfg rn with
  | Some o, Some n => rows_disjoint (false, o, n)
  | _, _ => false
  end.
