(* C01, %ordered rules, flat case: the computable domain of theorem C01_ordered_flat.
   A level (here: the top level) all of whose rows are leaves governed by ONE %ordered rule
   (ordered_diff + logic `ordered`), sequences of any length.  On the universe U of rows of old and new:
   - every row is known, its rule is %ordered with logic `ordered`, no %force_commit, the row is no exit word,
   - its removal command is matched by no rule and is no exit word,
   - all rows are governed by the same rule text with the same attributes,
   - the removal command determines the row, and THE KEY DETERMINES THE ROW: at most one row per
     (rule, key) in old and in new, and a key keeps its row text from old to new (no "re-texting" of an
     %ordered row; C01_ordered_retext_refuted shows that this is necessary),
   - [order_ok_o]: the patch is computed, no removal is ordered after the direct command of its slot and
     the ordering rulebook gives the direct commands of the %ordered rows one sort key.
   The comparison of the theorem is EQUALITY OF FORESTS (rows in sequence), which implies [sim], [sim_b]
   and [seq_agree] of Spec/P_C01o.v. *)
From Coq Require Import List String Ascii Bool Arith ZArith.
From Annet Require Import Base.Str Base.Tree Model.Pattern Model.Rulebook Model.Diff Model.Order
     Model.Patch Model.Blocks Model.Pipeline Model.Device Spec.P_C01 Spec.P_C01o.
Import ListNotations.
Open Scope string_scope.
Open Scope list_scope.

Definition leaf_level (f : forest) : bool :=
  forallb (fun e : string * tree => match snd e with T [] => true | _ => false end) f.

Fixpoint nodupb (l : list string) : bool :=
  match l with [] => true | x :: l' => negb (existsb (String.eqb x) l') && nodupb l' end.

Definition ord_flat_dom (v : vendor) (rs : rset) (U : list string) : bool :=
  forallb (fun r =>
    match match_row pm r rs with
    | Some (s, _) =>
      let rv := reverse_of (prreverse v) s in
      is_ordered s && logic_eqb (a_logic (mi_attrs s)) LOrdered && negb (a_force_commit (mi_attrs s)) &&
      negb (v_is_exit v r) &&
      match match_row pm rv rs with None => true | Some _ => false end && negb (v_is_exit v rv) &&
      forallb (fun r' =>
        match match_row pm r' rs with
        | Some (s', _) =>
          String.eqb (mi_raw s) (mi_raw s') && attrs_eqb (mi_attrs s) (mi_attrs s') &&
          (negb (String.eqb rv (reverse_of (prreverse v) s')) || String.eqb r r') &&
          (negb (list_str_eqb (mi_key s) (mi_key s')) || String.eqb r r')
        | None => false
        end) U
    | None => false
    end) U.

Definition wf_ord_flat (v : vendor) (rs : rset) (ordering : list orule) (old new : forest) : bool :=
  block_family (v_family v) && leaf_level old && leaf_level new && nodupb (keys old) && nodupb (keys new) &&
  ord_flat_dom v rs (keys old ++ keys new) && order_ok_o v rs ordering old new.
