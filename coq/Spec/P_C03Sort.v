(* C03, resort_diff: "sorted as far as diff_cmp allows".  diff_cmp is not transitive, so a level cannot in general
   be sorted in the strong sense (every earlier entry not greater than every later one).  What insertion by
   "not (b < a)" guarantees for ANY comparison that is sign-antisymmetric is that no entry is immediately followed
   by a strictly smaller one: [adj_lvl].  [adj_all]: at every depth. *)
From Coq Require Import List String Bool Arith ZArith.
From Annet Require Import Base.Str Base.Tree Model.Rulebook Model.Diff Model.DiffSort.
Import ListNotations.
Open Scope list_scope.

Fixpoint adj_lvl (l : list dnode) : bool :=
  match l with
  | a :: t => match t with b :: _ => cmp_leb a b | [] => true end && adj_lvl t
  | [] => true
  end.
Fixpoint adj_all_n (d : dnode) : bool := match d with DN _ _ _ k => adj_lvl k && forallb adj_all_n k end.
Definition adj_all (d : list dnode) : bool := adj_lvl d && forallb adj_all_n d.
