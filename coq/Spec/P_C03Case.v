(* C03, %ignore_case: what "lossless modulo case" loses, stated about the ORIGINAL configurations.
   [spelt fl ao f]: the forest f is the configuration ao (known rows with their rule matches) re-spelt -- same rows in
   the same order with the same nesting, a row governed by an %ignore_case rule possibly replaced by its lower-case
   spelling, every other row and every line of a %multiline body verbatim.  [ci_eq f g]: equal up to the case of
   the rows.  The diff of the extended model describes a re-spelling of each side (Properties/C03.v). *)
From Coq Require Import List String Bool Arith.
From Annet Require Import Base.Str Base.Tree Model.Pattern Model.Rulebook Model.Diff Model.DiffX.
Import ListNotations.
Open Scope string_scope.
Open Scope list_scope.

Inductive ci_eq : forest -> forest -> Prop :=
| ci_nil : ci_eq [] []
| ci_cons r r' k k' l l' : lower_str r = lower_str r' -> ci_eq k k' -> ci_eq l l' ->
                           ci_eq ((r, T k) :: l) ((r', T k') :: l').

Section X.
  Variable fl : minfo -> xflags.
  Inductive spelt : aforest -> forest -> Prop :=
  | sp_nil : spelt [] []
  | sp_body r m s l r' l' :
      ml fl m = true -> (r' = r \/ (ic fl m = true /\ r' = lower_str r)) ->
      spelt l l' -> spelt ((r, m, s) :: l) ((r', erase s) :: l')
  | sp_row r m s l r' k' l' :
      ml fl m = false -> (r' = r \/ (ic fl m = true /\ r' = lower_str r)) ->
      spelt (akids s) k' -> spelt l l' -> spelt ((r, m, s) :: l) ((r', T k') :: l').
End X.
