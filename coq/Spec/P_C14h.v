(* C14 — generator OBJECTS that are run more than once (next device handled by the process, a second
   gen/diff pass): "a generator's output depends only on its inputs, not on earlier runs".

   PartialGenerator.__call__ re-initialises _rows/_indents, so objects are meant to be run again.  The
   model (Model/Rpl.run_all) is a function of (vendor, program): it HAS no earlier runs.  That is an
   assumption about the Python objects, stated here:

     - [gobj]: an object with a state carried from run to run; [runs] = the outputs of a session;
       [history_free] = every run gives what the first run of a new object gives;
     - for a history-free object every per-run law transfers to every run of every session
       (Proofs/RplSession.v), in particular refs_defined;
     - an object that keeps the set of already emitted prefix-list names between runs (the set is a local
       of run_huawei / run_arista in the tree) gives the model's output on its first run and leaves the
       policy's references undefined on the second ([persisted_names_step], refuted in Properties/C14.v).

   The correspondence run observes the clause: harness/impl/c14_runner.py builds the generator objects of a
   session once, runs them for 2-3 devices in sequence (same / different inputs, same / different vendors,
   huawei after arista; every object twice per device: the consumed stream, then the real
   _run_partial_generator), feeds EVERY run to the predicates of Spec/P_C14.v and lets Coq compare each run
   with the run of new objects on the same inputs ([P_C14_indep]). *)
From Coq Require Import List String Ascii Bool Arith.
From Annet Require Import Base.Str Base.Tree Model.Offside Model.Rpl Spec.P_C14 Spec.P_C14r.
Import ListNotations.
Open Scope string_scope.
Open Scope list_scope.

(* ------------------------------------------------------------------ observed: run in a session = run of new objects *)

Definition irow_eqb (a b : irow) : bool :=
  list_str_eqb (i_path a) (i_path b) && String.eqb (i_text a) (i_text b) && Bool.eqb (i_hdr a) (i_hdr b) &&
  otag_eqb (i_tag a) (i_tag b).

Definition runres_eqb (a b : runres) : bool :=
  match a, b with
  | ROk f, ROk g => forest_eqb f g
  | RAcl, RAcl | RGen, RGen | RParser, RParser | ROther, ROther | RNone, RNone => true
  | _, _ => false
  end.

Definition igen_eqb (a b : igen) : bool :=
  gname_eqb (ig_name a) (ig_name b) && list_eqb irow_eqb (ig_rows a) (ig_rows b) &&
  gerr_eqb (ig_err a) (ig_err b) && runres_eqb (ig_run a) (ig_run b).

(* input: the observation of new objects run once; output: the observation of the session's objects on the
   same (vendor, program) *)
Definition P_C14_indep (fresh : list igen) (run : list igen) : bool := list_eqb igen_eqb fresh run.

(* which generator differs (for the signature of a violation) *)
Definition indep_per_gen (fresh run : list igen) : list (gname * bool) :=
  map (fun fr => (ig_name (fst fr), igen_eqb (fst fr) (snd fr))) (combine fresh run).

(* ------------------------------------------------------------------ objects with a state *)

Section Objects.
  Variables (S I O : Type).
  Variable step : S -> I -> O * S.

  Fixpoint runs (s : S) (xs : list I) : list O :=
    match xs with
    | [] => []
    | x :: r => fst (step s x) :: runs (snd (step s x)) r
    end.

  Fixpoint state_after (s : S) (xs : list I) : S :=
    match xs with
    | [] => s
    | x :: r => state_after (snd (step s x)) r
    end.

  (* whatever was run before, a run gives what the first run of a new object gives *)
  Definition history_free (s0 : S) : Prop :=
    forall hist x, fst (step (state_after s0 hist) x) = fst (step s0 x).
End Objects.
Arguments runs {S I O}.
Arguments state_after {S I O}.
Arguments history_free {S I O}.

(* ------------------------------------------------------------------ the generators of one device as objects *)

(* one run: the rows of the policy generator and the rows of the list generators *)
Definition run_out := (list row * list row)%type.
Definition refs_defined_run (x : vendor * prog) (o : run_out) : bool :=
  subset_refs (refs (fst x) (fst o)) (defs (fst x) (snd o)).

(* the model: no state *)
Definition model_step (fx : fixes) (_ : unit) (x : vendor * prog) : run_out * unit :=
  ((policy_rows fx (fst x) (snd x), lists_rows (fst x) (snd x)), tt).

(* prefix_lists.py with the uses to emit given from outside (= prefix_gen when they are [used_prefixes]) *)
Definition prefix_gen_of (uses : list puse) (v : vendor) (e : env) : gout :=
  (flat_map (fun u : puse =>
     match u with (v6, dn, n, ge, le) =>
       let ms := enumerate_from 0 (derived_members e n ge le) in
       match v with
       | Huawei =>
         map (fun im => MR [] (["ip"; (if v6 then "ipv6-prefix" else "ip-prefix"); dn; "index";
                                nat_to_str (fst im * 5 + 5); "permit"; up_str (pm_addr (snd im)); pm_len (snd im)]
                               ++ ge_le "greater-equal" "less-equal" (snd im)) false None) ms
       | Arista =>
         let hdr := [(if v6 then "ipv6" else "ip"); "prefix-list"; dn] in
         MR [] hdr true None ::
         map (fun im => MR [hdr] (["seq"; nat_to_str (fst im * 10 + 10); "permit";
                                   pm_addr (snd im) +++ "/" +++ pm_len (snd im)] ++ ge_le "ge" "le" (snd im))
                           false None) ms
       | Cumulus =>
         map (fun im => MR [] ([(if v6 then "ipv6" else "ip"); "prefix-list"; dn; "seq";
                                nat_to_str (fst im * 5 + 5); "permit";
                                pm_addr (snd im) +++ "/" +++ pm_len (snd im)] ++ ge_le "ge" "le" (snd im))
                           false None) ms
       end
     end) uses, None).

(* the object that keeps the names it has emitted: the de-duplication set outlives the run *)
Definition prefix_uses_seen (seen : list string) (ps : list policy) : list puse :=
  first_by_name seen (flat_map stmt_prefix_uses (all_stmts ps)).

Definition puse_name (u : puse) : string := match u with (_, dn, _, _, _) => dn end.

Definition list_gens_seen (seen : list string) (v : vendor) (g : prog) : list gout :=
  let e := g_env g in
  let ps := g_policies g in
  let pg := prefix_gen_of (prefix_uses_seen seen ps) v e in
  match v with
  | Huawei => [pg; hw_comm_gen e ps; plain (aspath_gen Huawei e ps); plain (rd_gen e ps)]
  | Arista => [pg; ar_comm_gen e ps; plain (aspath_gen Arista e ps)]
  | Cumulus => [pg; plain (cu_comm_gen e ps); plain (aspath_gen Cumulus e ps)]
  end.

Definition persisted_names_step (fx : fixes) (seen : list string) (x : vendor * prog) : run_out * list string :=
  ((policy_rows fx (fst x) (snd x), flat_map rows_of (list_gens_seen seen (fst x) (snd x))),
   seen ++ map puse_name (prefix_uses_seen seen (g_policies (snd x)))).
