(* C09, the `--dont-commit` clause at the patch level: "When committing is disabled no commit command
   is sent" also for the `commit` rows make_patch puts after the rows of %force_commit rules.

   Declarative reference.  pre_rows p = every row the diff offers to a rule that is NOT %force_commit,
   at any depth and not below a %force_commit rule: the rows of the diff themselves and the undo
   command of each (rule, key) slot.  With do_commit = false every row of the patch, at any depth, must
   be one of these: nothing is added (no `commit` row), nothing of a %force_commit rule is kept.
   A `commit` in such a patch is a row of the diff itself.

   obsdc = one observed run of the real annet.api._diff_and_patch with do_commit=True and with
   do_commit=False, and of annet.deploy.apply_deploy_rulebook(do_commit=False) on the cmd_paths of the
   latter (what CliDeployerJob.parse_result does under --dont-commit). *)
From Coq Require Import List String Ascii Bool Arith ZArith.
From Annet Require Import Base.Str Base.Tree Model.Pattern Model.Rulebook Model.Diff Model.Order
     Model.Patch Model.Blocks Model.Pipeline Model.PatchDC Gen.Src_apply Model.Deploy Spec.P_C09.
Import ListNotations.
Open Scope string_scope.
Open Scope list_scope.

(* every row of a patch tree, at any depth *)
Fixpoint pt_rows (t : ptree) : list string :=
  match t with
  | PT items =>
    flat_map (fun it : pt_item =>
                fst (fst it) :: match snd (fst it) with Some c => pt_rows c | None => [] end) items
  end.

Section PreRows.
  Variable rreverse : string -> list string -> string.

  Fixpoint pre_rows (p : pre) : list string :=
    match p with
    | Pre groups =>
      flat_map (fun g : pgroup =>
                  if a_force_commit (snd (fst g)) then [] else
                  flat_map (fun k : list string * list pitem =>
                              rreverse (a_pat (snd (fst g))) (fst k) ::
                              flat_map (fun it : pitem => snd (fst it) :: pre_rows (snd it)) (snd k))
                           (snd g))
               groups
    end.

  (* the same without looking at %force_commit: every row the diff offers to any rule *)
  Fixpoint pre_rows_all (p : pre) : list string :=
    match p with
    | Pre groups =>
      flat_map (fun g : pgroup =>
                  flat_map (fun k : list string * list pitem =>
                              rreverse (a_pat (snd (fst g))) (fst k) ::
                              flat_map (fun it : pitem => snd (fst it) :: pre_rows_all (snd it)) (snd k))
                           (snd g))
               groups
    end.

  (* no rule met by the diff is %force_commit, at any depth *)
  Fixpoint fc_free (p : pre) : bool :=
    match p with
    | Pre groups =>
      forallb (fun g : pgroup =>
                 negb (a_force_commit (snd (fst g))) &&
                 forallb (fun k : list string * list pitem => forallb (fun it : pitem => fc_free (snd it)) (snd k))
                         (snd g))
              groups
    end.
End PreRows.

Definition mem (x : string) (l : list string) : bool := existsb (String.eqb x) l.

Definition rows_within (allowed : list string) (t : ptree) : bool :=
  forallb (fun r => mem r allowed) (pt_rows t).

(* what the property asks of a patch built with do_commit = false *)
Definition dc_patch_ok (rreverse : string -> list string -> string) (p : pre) (r : presult) : bool :=
  match r with
  | POk t => rows_within (pre_rows rreverse p) t
  | PErr => true
  end.

(* ... and of a list of command texts sent with do_commit = false: a commit-class command is a row of the diff *)
Definition dc_stream_ok (allowed : list string) (cmds : list string) : bool :=
  forallb (fun c => negb (is_class WCommit c) || mem c allowed) cmds.

(* ------------------------------------------------------------------------------------ *)
Record obsdc := ObsDC {
  od_vendor : vendor;
  od_rules : rset;
  od_ordering : list orule;
  od_old : forest;
  od_new : forest;
  od_patch_t : option ptree;       (* _diff_and_patch(..., do_commit=True); None = AssertionError of a logic *)
  od_patch_f : option ptree;       (* _diff_and_patch(..., do_commit=False) *)
  od_paths_f : list (list string); (* make_formatter(indent="").cmd_paths(patch_f) keys *)
  od_runs : list (bool * option (list string))
                                   (* do_finalize, command texts of apply_deploy_rulebook(hw, cmd_paths(patch_f),
                                      do_finalize, do_commit=False); None = it raised *)
}.

Definition od_pre (o : obsdc) : pre := make_pre (p_make_diff (od_rules o) (od_old o) (od_new o)).
Definition od_allowed (o : obsdc) : list string := pre_rows (prreverse (od_vendor o)) (od_pre o).
Definition model_dc (o : obsdc) (dc : bool) : presult :=
  patch_of_dc (od_vendor o) dc (od_rules o) (od_ordering o) (od_old o) (od_new o).

Definition res_eqb (m : presult) (r : option ptree) : bool :=
  match m, r with
  | POk a, Some b => ptree_eqb a b
  | PErr, None => true
  | _, _ => false
  end.

Definition agree_dc_true (o : obsdc) : bool := res_eqb (model_dc o true) (od_patch_t o).
Definition agree_dc_false (o : obsdc) : bool := res_eqb (model_dc o false) (od_patch_f o).
Definition paths_eqb_dc (a b : list (list string)) : bool :=
  Nat.eqb (List.length a) (List.length b) && forallb (fun p => list_str_eqb (fst p) (snd p)) (combine a b).

(* cmd_paths of the do_commit=False patch (block-structured families) *)
Definition agree_dc_paths (o : obsdc) : bool :=
  match od_patch_f o with
  | Some t => paths_eqb_dc (cmd_paths (v_family (od_vendor o)) t) (od_paths_f o)
  | None => true
  end.

Definition agree_C09DC (o : obsdc) : bool := agree_dc_true o && agree_dc_false o && agree_dc_paths o.

(* clauses evaluated on the REAL outputs *)
Definition c9_dc_rows (o : obsdc) : bool :=
  match od_patch_f o with
  | Some t => rows_within (od_allowed o) t
  | None => true
  end.

Definition c9_dc_paths (o : obsdc) : bool :=
  forallb (fun p => negb (is_class WCommit (path_cmd p)) || mem (path_cmd p) (od_allowed o)) (od_paths_f o).

Definition c9_dc_stream (o : obsdc) : bool :=
  forallb (fun r : bool * option (list string) =>
             match snd r with Some cmds => dc_stream_ok (od_allowed o) cmds | None => true end) (od_runs o).

Definition P_C09DC (o : obsdc) : bool := c9_dc_rows o && c9_dc_paths o && c9_dc_stream o.

(* how much of the clause a case exercises (coverage statistics only) *)
Definition dc_differs (o : obsdc) : bool :=
  match od_patch_t o, od_patch_f o with
  | Some a, Some b => negb (ptree_eqb a b)
  | _, _ => false
  end.
Definition dc_commit_rows_true (o : obsdc) : nat :=
  match od_patch_t o with Some t => List.length (filter (String.eqb "commit") (pt_rows t)) | None => 0 end.
Definition dc_genuine_commit (o : obsdc) : bool :=
  match od_patch_f o with Some t => mem "commit" (pt_rows t) | None => false end.
