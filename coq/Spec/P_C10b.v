(* C10, widened domain of the tree clause.  Two declarative readings of "what a generator program
   stands for", both defined for every program:

   layer 1  (every program, no guard)   the program as a list of (column, raw row) pairs; a row is
            a '#' section reset, dropped (blank / comment) or a configuration line in a column; the
            result of the run is the offside reference (Spec/P_C05.v) over that list, or the
            generator error the program raises (None / list values, the word None).

   layer 2  (computable guard wfx_prog)  the program as a list of yielded PATHS: rows that are
            blank or comments vanish; a row indented by itself is placed by the offside rule among
            the recent rows of its own block; a block whose header vanishes hangs its body under the
            row yielded just before it; a header of several lines hangs the body under its last
            visible line; a zero-width indent keeps the body in the block's own column.  tree_of' is
            the ordered dict of these paths. *)
From Coq Require Import List String Ascii Bool Arith.
From Annet Require Import Base.Str Base.Tree Model.Offside Model.GenProg Spec.P_C05 Spec.P_C10.
Import ListNotations.
Open Scope string_scope.
Open Scope list_scope.

(* ================= layer 1: rows and their columns ================= *)

Definition crow := (nat * string)%type.

(* the rows of one text, all in the column of the enclosing block *)
Definition text_rows (c : nat) (t : string) : list crow := map (fun r => (c, r)) (split_and_strip t).

Definition ind_of (i : option nat) : nat := match i with Some n => n | None => default_indent end.

Definition rows_block (c : nat) (toks : list tok) (i : nat) (body : nat -> list crow) : list crow :=
  match join_toks toks with
  | inr b => text_rows c b ++ body (c + i)
  | inl _ => []
  end.

Fixpoint rows_multiblock (c : nat) (blocks : list mblk) (body : nat -> list crow) : list crow :=
  match blocks with
  | [] => body c
  | b :: r => rows_block c (mblk_toks b) default_indent (fun c' => rows_multiblock c' r body)
  end.

Fixpoint srows (c : nat) (s : stmt) {struct s} : list crow :=
  match s with
  | Yield v => match ytext v with inr t => text_rows c t | inl _ => [] end
  | Block toks ind body => rows_block c toks (ind_of ind) (fun c' => flat_map (srows c') body)
  | BlockIf toks cond body =>
    if block_if_cond toks cond then rows_block c toks default_indent (fun c' => flat_map (srows c') body)
    else flat_map (srows c) body
  | MultiBlock blocks body => rows_multiblock c blocks (fun c' => flat_map (srows c') body)
  | MultiBlockIf blocks cond body =>
    if multiblock_if_cond blocks cond then rows_multiblock c blocks (fun c' => flat_map (srows c') body)
    else flat_map (srows c) body
  end.

Definition prog_rows (p : prog) : list crow := flat_map (srows 0) p.

(* the run reaches a value _filter_str refuses: None or a list as a yield, None among the tokens of a
   block that is opened or inside a yielded tuple *)
Definition bad_toks (toks : list tok) : bool :=
  match join_toks toks with inl _ => true | inr _ => false end.

Fixpoint invalid (s : stmt) {struct s} : bool :=
  match s with
  | Yield v => match ytext v with inl _ => true | inr _ => false end
  | Block toks _ body => bad_toks toks || existsb invalid body
  | BlockIf toks cond body => (block_if_cond toks cond && bad_toks toks) || existsb invalid body
  | MultiBlock blocks body => existsb (fun b => bad_toks (mblk_toks b)) blocks || existsb invalid body
  | MultiBlockIf blocks cond body =>
    (multiblock_if_cond blocks cond && existsb (fun b => bad_toks (mblk_toks b)) blocks) || existsb invalid body
  end.

(* a row the parser drops: blank, or a "!" / "#" comment *)
Definition dropped (r : string) : bool :=
  is_empty (strip r) || startswith "!" (strip r) || startswith "#" (strip r).

(* what the parser makes of a raw row emitted in column c *)
Definition row_item (cr : crow) : item :=
  let '(c, r) := cr in
  if Nat.eqb c 0 && startswith "#" r then Reset            (* '#' in column 0 of the text *)
  else if dropped r then Skip
  else Content (c + parse_indent r) (strip r).

(* an empty line of the text is not even counted *)
Definition line_empty (cr : crow) : bool := Nat.eqb (fst cr) 0 && is_empty (snd cr).

Definition items_of (rows : list crow) : list item :=
  map row_item (filter (fun cr => negb (line_empty cr)) rows).

(* the outcome of _run_partial_generator(use_acl=False), for every program *)
Definition spec_noacl (p : prog) : gres :=
  if existsb invalid p then GInvalid
  else if existsb (fun cr : crow => has_none_word (snd cr)) (prog_rows p) then GNoneWord
  else match ref_items (items_of (prog_rows p)) 1 [] [] with
       | Ok f => GOk f
       | Err n row => GParse n row
       end.

Definition P_C10_items (p : prog) (out : gres) : bool := gres_eqb out (spec_noacl p).

(* ================= layer 2: yielded paths with vanishing rows ================= *)

(* The cursor: what is known about the most recent lines of the text.  Some l = the most recent
   lines are rows of the current block, l being their (own indentation, path below the block path)
   most recent first, down to a row that is not indented by itself; None = unknown (the lines of a
   nested block came last, or nothing was yielded yet). *)
Definition cursor := option hist.

(* result of reading a piece of program: inside the guard?, the paths it yields, the cursor behind it *)
Definition vres := (bool * list (list string) * cursor)%type.

Definition is_nil {A} (l : list A) : bool := match l with [] => true | _ => false end.

Definition parent_of (l : hist) (j : nat) : list string :=
  match find (fun e : nat * list string => Nat.ltb (fst e) j) l with Some (_, pp) => pp | None => [] end.

(* a visible row with own indentation j and key k: a row that is not indented by itself lies directly in
   the block; an indented one is placed by the offside rule (Spec/P_C05.v) among the recent rows of the
   same block - never outside of it.  Result: its path below the block path, the new recent rows. *)
Definition place (cur : cursor) (j : nat) (k : string) : option (list string * hist) :=
  if Nat.eqb j 0 then Some ([k], [(0, [k])])
  else match cur with
       | Some l => if ref_consistent l j then let q := ref_path l j k in Some (q, (j, q) :: l) else None
       | None => None
       end.

(* rows of one text in the current block: top = the block is the top level (column 0, where a row
   starting with '#' closes the section); blank and comment rows vanish *)
Fixpoint rows_sem (top : bool) (bp : list string) (cur : cursor) (rows : list string) : vres :=
  match rows with
  | [] => (true, [], cur)
  | r :: rest =>
    if top && startswith "#" r then rows_sem top bp None rest
    else if dropped r then rows_sem top bp cur rest
    else match place cur (parse_indent r) (key_of r) with
         | Some (q, l') => let '(ok, ps, cur') := rows_sem top bp (Some l') rest in (ok, (bp ++ q) :: ps, cur')
         | None => (false, [], cur)
         end
  end.

(* guard on the rows of a text: free of the word None *)
Definition rows_okx (rows : list string) : bool := forallb (fun r => negb (has_none_word r)) rows.

(* the column i deeper than the block's own is a legal place for a line, given the recent rows *)
Definition opens (cur : cursor) (i : nat) : bool :=
  match cur with Some l => ref_consistent l i | None => false end.

(* `with block(tokens, indent=i): body`.  The body hangs under the most recent visible row of this
   block that is indented by less than i: normally the (last visible line of the) header; when the whole
   header vanishes, the row yielded just before the block.  When no such row is known the body must not
   show anything.  With a zero-width indent the body simply goes on in the block's own column. *)
Definition vblock (top : bool) (bp : list string) (cur : cursor) (toks : list tok) (i : nat)
           (body : bool -> list string -> cursor -> vres) : vres :=
  match join_toks toks with
  | inl _ => (false, [], cur)
  | inr b =>
    let rows := split_and_strip b in
    let '(ok_h, ps_h, cur_h) := rows_sem top bp cur rows in
    if Nat.eqb i 0 then
      let '(ok_b, ps_b, cb) := body top bp cur_h in
      (rows_okx rows && ok_h && ok_b, ps_h ++ ps_b, cb)
    else
      let bp' := match cur_h with Some l => bp ++ parent_of l i | None => bp end in
      let '(ok_b, ps_b, _) := body false bp' None in
      (rows_okx rows && ok_h && ok_b && (is_nil ps_b || opens cur_h i),
       ps_h ++ ps_b,
       if is_nil ps_b then cur_h else None)
  end.

Fixpoint vmulti (top : bool) (bp : list string) (cur : cursor) (blocks : list mblk)
         (body : bool -> list string -> cursor -> vres) : vres :=
  match blocks with
  | [] => body top bp cur
  | b :: r => vblock top bp cur (mblk_toks b) default_indent
                     (fun top' bp' cur' => vmulti top' bp' cur' r body)
  end.

Section VSeq.
  Context {A : Type} (f : cursor -> A -> vres).
  Fixpoint vseq (cur : cursor) (ss : list A) : vres :=
    match ss with
    | [] => (true, [], cur)
    | s :: r =>
      let '(o1, p1, c1) := f cur s in
      let '(o2, p2, c2) := vseq c1 r in
      (o1 && o2, p1 ++ p2, c2)
    end.
End VSeq.

Fixpoint vsem (top : bool) (bp : list string) (cur : cursor) (s : stmt) {struct s} : vres :=
  match s with
  | Yield v =>
    match ytext v with
    | inl _ => (false, [], cur)
    | inr t => let rows := split_and_strip t in
               let '(ok, ps, cur') := rows_sem top bp cur rows in (rows_okx rows && ok, ps, cur')
    end
  | Block toks ind body =>
    vblock top bp cur toks (ind_of ind) (fun top' bp' cur' => vseq (vsem top' bp') cur' body)
  | BlockIf toks cond body =>
    if block_if_cond toks cond
    then vblock top bp cur toks default_indent (fun top' bp' cur' => vseq (vsem top' bp') cur' body)
    else vseq (vsem top bp) cur body
  | MultiBlock blocks body =>
    vmulti top bp cur blocks (fun top' bp' cur' => vseq (vsem top' bp') cur' body)
  | MultiBlockIf blocks cond body =>
    if multiblock_if_cond blocks cond
    then vmulti top bp cur blocks (fun top' bp' cur' => vseq (vsem top' bp') cur' body)
    else vseq (vsem top bp) cur body
  end.

Definition vprog (p : prog) : vres := vseq (vsem true []) None p.

(* the computable guard of the general tree theorem, the yielded paths, the tree *)
Definition wfx_prog (p : prog) : bool := fst (fst (vprog p)).
Definition prog_paths' (p : prog) : list (list string) := snd (fst (vprog p)).
Definition tree_of' (p : prog) : forest := insall (prog_paths' p) [].

(* on outputs: inside the guard the run succeeds with exactly tree_of' *)
Definition P_C10_tree' (p : prog) (out : gres) : bool :=
  if wfx_prog p then gres_eqb out (GOk (tree_of' p)) else true.
