(* C12, extended observations: the property predicate for payloads that are numbers, lists of yielded
   numbers, or unconsumed generators (Model/PoolSession.v), the task function used by the extended
   correspondence runs, and the clause for several pools run by one process. *)
From Coq Require Import List Bool Arith.
From Annet Require Import Model.Pool Spec.P_C12 Model.PoolSession.
Import ListNotations.

(* what was submitted to one pool: ids, tolerate_fails, the value the task computes for an id *)
Definition xinput := (list nat * bool * (nat -> xval))%type.

Definition xpayload_ok (g : nat -> xval) (d : list xresult) : bool :=
  forallb (fun r => xval_eqb (snd r) (g (fst r))) d.

(* the same shape as P_C12 *)
Definition P_C12x (x : xinput) (o : xoutcome) : bool :=
  match x with
  | (ids, tol, g) =>
    match o with
    | XCompleted d => ms_eqb (map fst d) ids && xpayload_ok g d
    | XRaised i d => negb tol && is_xfail (g i) && ms_subb (i :: map fst d) ids && xpayload_ok g d
    | XOther _ => false
    end
  end.

(* Several pools run one after another by the same process: every pool is judged against what was
   submitted to IT - ids, tolerate_fails, its own task and its own net_retry - and nothing else: what a
   pool delivers does not depend on the pools run before it. *)
Definition P_C12_session (runs : list (xinput * xoutcome)) : bool :=
  forallb (fun r => P_C12x (fst r) (snd r)) runs.

(* ------------------------------------------------------------------------------------------------ *)
(* The task of the extended correspondence runs (harness/impl/c12_runner.py, `xtask`):
     - the first [k] invocations for an id listed in [flaky] as (id, k) die with a network error whose code
       tells the invocation (1000 + 11 id + attempt);
     - then the task raises ValueError(13 id + 5) if the id is in [raising], else produces its value;
     - a generator task yields 7 id + 3 before anything else happens and, when it succeeds, id after it. *)
Fixpoint lookup (i : nat) (l : list (nat * nat)) : nat :=
  match l with
  | [] => 0
  | (j, k) :: t => if Nat.eqb i j then k else lookup i t
  end.

Definition std_task (gen : bool) (raising : list nat) (flaky : list (nat * nat)) : xtask :=
  fun i j =>
    if Nat.ltb j (lookup i flaky) then
      (if gen then RGen [7 * i + 3] (Some (true, 1000 + 11 * i + j)) else RRaise true (1000 + 11 * i + j))
    else if existsb (Nat.eqb i) raising then
      (if gen then RGen [7 * i + 3] (Some (false, 13 * i + 5)) else RRaise false (13 * i + 5))
    else
      (if gen then RGen [7 * i + 3; i] None else RRet (7 * i + 3)).
