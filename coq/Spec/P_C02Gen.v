(* C02, generator stage: annet.gen._old_new_per_device runs the selected partial generators for one device and
   compiles the ACL the patch is confined to.  A selected generator RUNS for the device when supports_device() is
   true and run() does not raise NotSupportedDevice; the others are skipped.  The reference ACL of the property is
   the union (texts concatenated in selection order, every line tagged with its generator: _combine_acl_text) of the
   ACLs of the generators that run - the ACL of a skipped generator gives no right to touch anything, and when no
   generator runs the reference is the empty ACL: nothing may be touched.  The run-time check
   (harness/impl/c02_gen_runner.py) drives the real function with real PartialGenerator subclasses and evaluates
   P_C02 with this reference ACL on what _diff_and_patch makes of the returned old / new / acl_rules. *)
From Coq Require Import List String Bool.
From Annet Require Import Base.Str Base.Tree Model.Pattern Model.Rulebook Model.Diff Model.Order
     Model.Patch Model.Blocks Model.Pipeline Model.Acl Model.AclPipeline Spec.P_C02.
Import ListNotations.

Record gpart := GPart {
  gp_acl : acl;           (* the generator's ACL text, structured, its lines tagged with the generator's name *)
  gp_runs : bool          (* supports_device() and no NotSupportedDevice *)
}.
Definition ref_acl (ps : list gpart) : acl := flat_map (fun p => if gp_runs p then gp_acl p else []) ps.
Definition ref_ars (ps : list gpart) : aset := match compile_acl (ref_acl ps) with Some r => r | None => ([], []) end.

(* the input of P_C02 for a device configuration `old`, the generated configuration `new` and a selection *)
Definition gen_in (v : vendor) (av : avendor) (rs : rset) (ps : list gpart) (old new : forest) : c02in :=
  C02In v av (ref_ars ps) rs old new.
