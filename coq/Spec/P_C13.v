(* C13: declarative reference (restriction of a document to glob pointers, its complement,
   sub-document) and the boolean predicates evaluated on the implementation's outputs. *)
From Coq Require Import List String Ascii Bool Arith ZArith.
From Annet Require Import Base.Str Model.Json.
Import ListNotations.
Open Scope string_scope.
Open Scope list_scope.

(* a glob pointer pattern, already split into its (unescaped) parts *)
Definition pattern := list string.

(* the member of document d at concrete path p (RFC 6901: object members by key, array
   elements by decimal index; scalars — strings included — have no members) *)
Fixpoint get (p : path) (d : json) : option json :=
  match p with
  | [] => Some d
  | k :: r => c <- lookup k (children d) ; get r c
  end.

(* pat selects exactly the path p: same length, every key matches its glob part *)
Fixpoint pmatch (pat : pattern) (p : path) : bool :=
  match pat, p with
  | [], [] => true
  | part :: pat', k :: p' => fnm k part && pmatch pat' p'
  | _, _ => false
  end.

(* p lies at or below a path selected by pat *)
Fixpoint pinside (pat : pattern) (p : path) : bool :=
  match pat, p with
  | [], _ => true
  | part :: pat', k :: p' => fnm k part && pinside pat' p'
  | _ :: _, [] => false
  end.

Definition selected (acl : list pattern) (p : path) : bool := existsb (fun pat => pmatch pat p) acl.
Definition inside (acl : list pattern) (p : path) : bool := existsb (fun pat => pinside pat p) acl.

(* d|acl as a finite map path -> value: the selected members of d *)
Definition restrict (acl : list pattern) (d : json) (p : path) : option json :=
  if selected acl p then get p d else None.

Definition is_container (v : json) : bool :=
  match v with JObj _ | JArr _ => true | _ => false end.

Definition leafval (o : option json) : option json :=
  match o with
  | Some v => if is_container v then None else Some v
  | None => None
  end.

(* d|not acl: every leaf of d that is not at or below a selected path (containers are
   determined by their leaves; an empty container on the way is not recorded) *)
Definition outside (acl : list pattern) (d : json) (p : path) : option json :=
  if inside acl p then None else leafval (get p d).

(* all paths of d (root and inner nodes included): the finite support of the maps above *)
Fixpoint allpaths (d : json) : list path :=
  [] ::
  match d with
  | JObj kvs =>
    (fix go (kvs : list (string * json)) : list path :=
       match kvs with
       | [] => []
       | (k, v) :: t => map (cons k) (allpaths v) ++ go t
       end) kvs
  | JArr l =>
    (fix go (i : nat) (l : list json) : list path :=
       match l with
       | [] => []
       | x :: t => map (cons (dec i)) (allpaths x) ++ go (S i) t
       end) 0 l
  | _ => []
  end.

(* "drawn from one schema": a path that is an object in one document is an object in the
   other one if it exists there *)
Fixpoint same_schema (a b : json) {struct a} : bool :=
  match a, b with
  | JObj x, JObj y =>
    (fix go (x : list (string * json)) : bool :=
       match x with
       | [] => true
       | (k, v) :: t => match lookup k y with Some w => same_schema v w | None => true end && go t
       end) x
  | JObj _, _ => false
  | _, JObj _ => false
  | _, _ => true
  end.

(* r is a sub-document of d: equal to it, or an object every member of which is a
   sub-document of the member of d with the same key / index *)
Fixpoint subdoc (r d : json) {struct r} : bool :=
  jeq r d ||
  match r with
  | JObj kvs =>
    (fix go (kvs : list (string * json)) : bool :=
       match kvs with
       | [] => true
       | (k, v) :: t => match lookup k (children d) with Some c => subdoc v c | None => false end && go t
       end) kvs
  | _ => false
  end.

Definition parse_acl (acl : list string) : option (list pattern) := mapM parse_pointer acl.

(* ---- predicates on observed outputs (None = the call raised) ---- *)

Definition support (old f r : json) : list path := allpaths old ++ allpaths f ++ allpaths r.

Definition inside_ok (acl : list pattern) (old f r : json) : bool :=
  forallb (fun p => ojeq (restrict acl r p) (restrict acl f p)) (support old f r).

Definition outside_ok (acl : list pattern) (old f r : json) : bool :=
  forallb (fun p => ojeq (outside acl r p) (outside acl old p)) (support old f r).

(* input: (old, f, acl); output: (r, rr) = apply_json_fragment(old,f,acl) and
   apply_json_fragment(r,f,acl) *)
Definition frag_in := (json * json * list string)%type.
Definition frag_out := (option json * option json)%type.

Definition dom_frag (x : frag_in) : bool :=
  let '(old, f, acl) := x in
  match parse_acl acl with Some _ => same_schema old f | None => false end.

Definition P_noerr (x : frag_in) (y : frag_out) : bool :=
  negb (dom_frag x) || match y with (Some _, Some _) => true | _ => false end.

Definition P_inside (x : frag_in) (y : frag_out) : bool :=
  let '(old, f, acl) := x in
  negb (dom_frag x) ||
  match parse_acl acl, fst y with
  | Some pats, Some r => inside_ok pats old f r
  | _, _ => true
  end.

Definition P_outside (x : frag_in) (y : frag_out) : bool :=
  let '(old, f, acl) := x in
  negb (dom_frag x) ||
  match parse_acl acl, fst y with
  | Some pats, Some r => outside_ok pats old f r
  | _, _ => true
  end.

Definition P_idem (x : frag_in) (y : frag_out) : bool :=
  negb (dom_frag x) ||
  match y with
  | (Some r, Some rr) => jeq rr r
  | _ => true
  end.

Definition P_C13_frag (x : frag_in) (y : frag_out) : bool :=
  P_noerr x y && P_inside x y && P_outside x y && P_idem x y.

(* input: (d, filters); output: apply_acl_filters(d, filters) *)
Definition dom_filter (x : json * list string) : bool :=
  match parse_acl (filter (fun t => negb (is_empty t)) (map strip (snd x))) with Some _ => true | None => false end.

Definition P_C13_filter (x : json * list string) (y : option json) : bool :=
  negb (dom_filter x) ||
  match y with
  | Some r => subdoc r (fst x)
  | None => false
  end.

(* input: (old, new); output: apply_patch(dumps(old), dumps(make_patch(old, new))) *)
Definition P_C13_patch (x : json * json) (y : option json) : bool := ojeq y (Some (snd x)).

(* ---- guard of the theorems about apply_json_fragment ---- *)

(* no pattern step is ever applied to an array: patterns address object members only *)
Fixpoint objects_only (pat : pattern) (d : json) : bool :=
  match pat with
  | [] => true
  | part :: rest =>
    match d with
    | JArr _ => false
    | JObj kvs => forallb (fun kv => if fnm (fst kv) part then objects_only rest (snd kv) else true) kvs
    | _ => true
    end
  end.

Definition wf_frag (acl : list pattern) (old f : json) : bool :=
  same_schema old f &&
  forallb (fun pat => objects_only pat old && objects_only pat f) acl.

(* representation invariant of Python dicts: keys are unique at every level *)
Fixpoint uniq (d : json) : bool :=
  match d with
  | JObj kvs =>
    (fix go (kvs : list (string * json)) : bool :=
       match kvs with
       | [] => true
       | (k, v) :: t => negb (existsb (String.eqb k) (map fst t)) && uniq v && go t
       end) kvs
  | JArr l =>
    (fix go (l : list json) : bool :=
       match l with
       | [] => true
       | x :: t => uniq x && go t
       end) l
  | _ => true
  end.

(* guard of the fragment theorems: dict invariant, one schema, patterns address object
   members only and none of them is the root pointer *)
Definition wf_C13 (acl : list pattern) (old f : json) : bool :=
  uniq old && uniq f && wf_frag acl old f && forallb (fun pat => negb (Nat.eqb (List.length pat) 0)) acl.

(* guard of the filter theorem: dict invariant; filters that parse address object members *)
Definition wf_filter (d : json) (filters : list string) : bool :=
  uniq d &&
  forallb (fun s => let t := strip s in
                    is_empty t || match parse_pointer t with Some pat => objects_only pat d | None => true end)
          filters.
