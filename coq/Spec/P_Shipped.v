(* The shipped rulebooks as model values, and what is evaluated on them (C01, C08).

   - [ym]: the rule matcher of the second language extension (Model/PatternY.v; equal to the plain
     matcher of Model/Pattern.v on the plain language, C07Y_conservative), the matcher with which
     the generic pipeline models are instantiated for shipped rule texts;
   - [shipped_rset h] / [shipped_ordering h]: the patching rule set and the ordering rulebook Coq
     parses from the RAW lines of Gen/Src_rules.v (Model/ShippedText.v);
   - the Tier-A domain [wf_A_y] and the ordering condition [order_ok_y] of C01 for that matcher;
   - [lit_quiet]: a conservative pattern-level test "no removal command of the patching pattern pp is
     matched by the ordering pattern po" (literal words in the same position differ);
   - [may_overlap]: the conservative test behind C08's quantifier "sibling ordering rules with pairwise
     disjoint languages", and the list of sibling pairs it cannot separate. *)
From Coq Require Import List String Ascii Bool Arith ZArith.
From Annet Require Import Base.Str Base.Tree Model.Pattern Model.PatternX Model.PatternY Model.PatternT
     Model.Rulebook Model.Diff Model.Order Model.Patch Model.Blocks Model.Pipeline Model.Device
     Model.ShippedText Spec.P_C01 Gen.Src_rules.
Import ListNotations.
Open Scope string_scope.
Open Scope list_scope.

(* ------------------------------------------------------------------ the matcher *)
Definition ym (pat row : string) : option (list string) := yrule_match pat false row.
Definition ysrc (pat : string) : string :=
  match yrule_pat pat with
  | Some p => match yproj p with Some xp => xregex_src xp | None => "" end
  | None => ""
  end.
Definition y_rreverse (v : vendor) (pat : string) (key : list string) : string := prreverse v pat key.
Definition pat_ok (row : string) : bool := match yrule_pat row with Some _ => true | None => false end.

Definition y_make_diff (rs : rset) (old new : forest) : list dnode := make_diff ym rs old new.
Definition y_make_patch (v : vendor) (ordering : list orule) (p : pre) : presult :=
  make_patch ym ysrc (prev v) (v_exit v) (y_rreverse v) p ordering.
Definition y_patch (v : vendor) (rs : rset) (ordering : list orule) (old new : forest) : presult :=
  y_make_patch v ordering (make_pre (y_make_diff rs old new)).
Definition y_exec (v : vendor) (rs : rset) (paths : list (list string)) (f : forest) : forest :=
  exec ym (y_rreverse v) (v_is_exit v) rs paths f.
Definition y_expected := expected ym.

(* the Tier-A domain of C01 (P_C01.wf_A) for this matcher *)
Definition wf_A_y (v : vendor) (rs : rset) (old new : forest) : bool :=
  wfb old && wfb new && slots_unique ym rs old && slots_unique ym rs new &&
  univ_ok ym (y_rreverse v) (v_is_exit v) allow_A rs (merge old new).
(* C01's ordering condition (P_C01.order_ok) for this matcher, without the no_orev escape *)
Definition order_ok_y (v : vendor) (rs : rset) (ordering : list orule) (old new : forest) : bool :=
  match y_patch v rs ordering old new with
  | POk pt => undo_first_b ym (y_rreverse v) pt rs
  | PErr => false
  end.

(* ------------------------------------------------------------------ the shipped tables, parsed *)
Definition vc_of (h : shw) : vconst := VConst (sh_rul_reverse h) (sh_diff h) (sh_diff_ordered h).
Definition shipped_srules (h : shw) : option (list srule * list srule) := compile_srules (vc_of h) (sh_rul h).
Definition shipped_rset (h : shw) : option rset := option_map (to_rset Src_logic_alias pat_ok) (shipped_srules h).
Definition shipped_ordering (h : shw) : option (list orule) := compile_ordering (sh_order h).
Definition shipped_deploying (h : shw) : list dline := compile_deploying (sh_deploy h).

(* rules of the patching rulebook that are opaque to the models, with the reasons *)
Definition shipped_opaque (h : shw) : list (string * list string) :=
  match shipped_srules h with
  | Some c => flat_map (fun i => match s_opaque Src_logic_alias pat_ok i with [] => [] | l => [(s_raw i, l)] end) (srs_flat c)
  | None => []
  end.
Definition shipped_counts (h : shw) : string * (nat * nat * nat * nat * nat * nat) :=
  (sh_hw h,
   (match shipped_srules h with Some c => List.length (srs_flat c) | None => 0 end,
    List.length (shipped_opaque h),
    match shipped_ordering h with Some o => List.length (os_flat o) | None => 0 end,
    match shipped_ordering h with Some o => List.length (filter o_rev (os_flat o)) | None => 0 end,
    match shipped_ordering h with Some o => List.length (filter (fun r => negb (pat_ok (o_pat r))) (os_flat o)) | None => 0 end,
    List.length (shipped_deploying h))).

(* ------------------------------------------------------------------ literal words of a pattern *)

(* a rule word that consumes exactly one word of the row *)
Definition ytok_one (t : ytok) : bool :=
  match t with YX XTilde => false | YX (XTildeRe _) => false | _ => true end.

(* the i-th word of every row the pattern matches is literally w (case-sensitive patterns only) *)
Definition lit_at (pat : string) (i : nat) : option string :=
  if rule_has_ic pat then None else
  match yrule_pat pat with
  | Some p =>
    if forallb ytok_one (firstn i (y_toks p)) then
      match nth_error (y_toks p) i with Some (YX (XLit w)) => Some w | _ => None end
    else None
  | None => None
  end.

(* what a pattern demands of the word at one position: nothing known, a literal word, a word of L(r) *)
Inductive lv := LvAny | LvLit (w : string) | LvRe (r : sre).

(* the demands at positions 0 .. n-1 (the pattern is parsed once) *)
Definition lit_vec (n : nat) (pat : string) : list lv :=
  if rule_has_ic pat then repeat LvAny n else
  match yrule_pat pat with
  | Some p =>
    (fix go (k : nat) (ts : list ytok) : list lv :=
       match k with
       | O => []
       | S k' =>
         match ts with
         | YX (XLit w) :: r => LvLit w :: go k' r
         | YX (XStarRe re) :: r => LvRe re :: go k' r
         | YX (XLitRe re) :: r => LvRe re :: go k' r
         | t :: r => if ytok_one t then LvAny :: go k' r else repeat LvAny k
         | [] => repeat LvAny k
         end
       end) n (y_toks p)
  | None => repeat LvAny n
  end.

Definition lv_differ (a b : lv) : bool :=
  match a, b with
  | LvLit x, LvLit y => negb (String.eqb x y)
  | LvLit x, LvRe r | LvRe r, LvLit x => negb (sre_match r x)
  | _, _ => false
  end.

(* some position where the two vectors cannot be met by one word *)
Fixpoint vecs_differ (a b : list lv) : bool :=
  match a, b with
  | x :: a', y :: b' => lv_differ x y || vecs_differ a' b'
  | _, _ => false
  end.
Definition lits_differ (n : nat) (p1 p2 : string) : bool := vecs_differ (lit_vec n p1) (lit_vec n p2).

(* C01: the removal commands of the patching pattern pp start with the negation word followed by the
   words of pp (a pattern that itself starts with the negation word loses it instead).  Conservative:
   only pp whose first word is a literal c different from the negation word - its removal commands read
   `prefix c ...` - against an ordering pattern po that demands a literal first word other than the
   negation word, or the negation word and then a literal other than c.  An ordering pattern outside the
   modelled rule language matches nothing in the model (ym = None): counted in [shipped_counts]. *)
Definition lit_quiet_v (prefix : string) (po : bool * list lv) (vp : list lv) : bool :=
  negb (fst po) ||
  match vp with
  | [LvLit c] =>
    negb (String.eqb c prefix) &&
    match snd po with
    | [LvLit a; LvLit b] => negb (String.eqb a prefix) || negb (String.eqb b c)
    | [LvLit a; _] => negb (String.eqb a prefix)
    | _ => false
    end
  | _ => false
  end.
(* the test against all patterns of OR; what depends on OR only is computed once *)
Definition lit_quiet (prefix : string) (OR : list string) : string -> bool :=
  let ORv := map (fun po => (pat_ok po, lit_vec 2 po)) OR in
  fun pp => let vp := lit_vec 1 pp in forallb (fun x => lit_quiet_v prefix x vp) ORv.

(* ------------------------------------------------------------------ C08: sibling overlap *)

(* the two forms under which an ordering rule mentions a row (Order.get_order: direct / reverse regexp) *)
Definition o_forms (prefix : string) (r : orule) : list string := [o_pat r; reverse_row (o_pat r) prefix].

(* two sibling rules may mention the same row unless every pair of forms is separated by literals *)
Definition form_vecs (prefix : string) (r : orule) : list (list lv) := map (lit_vec 8) (o_forms prefix r).
Definition vecs_overlap (v1 v2 : list (list lv)) : bool :=
  negb (forallb (fun a => forallb (fun b => vecs_differ a b) v2) v1).
Definition may_overlap (prefix : string) (r1 r2 : orule) : bool :=
  vecs_overlap (form_vecs prefix r1) (form_vecs prefix r2).

Definition scopes_meet (r1 r2 : orule) : bool :=
  match o_scope r1, o_scope r2 with
  | Some a, Some b => existsb (fun x => existsb (String.eqb x) b) a
  | _, _ => true
  end.

Fixpoint pairs_of {A} (l : list A) : list (A * A) :=
  match l with [] => [] | x :: t => map (fun y => (x, y)) t ++ pairs_of t end.

(* the sibling pairs (at every level) the test cannot separate; the literal vectors are computed once per rule *)
Fixpoint overlaps_r (prefix : string) (r : orule) : list (string * string) :=
  match r with
  | ORule _ _ _ _ _ kids =>
    let kv := map (fun k => (k, form_vecs prefix k)) kids in
    map (fun p => (o_raw (fst (fst p)), o_raw (fst (snd p))))
        (filter (fun p : (orule * list (list lv)) * (orule * list (list lv)) =>
                   scopes_meet (fst (fst p)) (fst (snd p)) && vecs_overlap (snd (fst p)) (snd (snd p))) (pairs_of kv))
    ++ flat_map (overlaps_r prefix) kids
  end.
Definition overlaps (prefix : string) (ord : list orule) : list (string * string) :=
  overlaps_r prefix (ORule "" "" false false None ord).

Definition shipped_overlaps (h : shw) : list (string * string) :=
  match shipped_ordering h with Some ord => overlaps (sh_reverse h) ord | None => [] end.

(* ------------------------------------------------------------------ correspondence with the real compiled rulebook *)
(* what the runner reports of one rule of get_rulebook(hw)["patching"]: raw_rule, type ignore, %global, canonical
   names of the logic / diff_logic functions, the reverse template, parent, multiline, force_commit, ignore_case,
   children (local, global) in dict order *)
Inductive robs := RObs (raw : string) (ign glob : bool) (logic dlogic : string) (reverse : option string)
                       (parent multiline fc ic : bool) (kl kg : list robs).
(* ... of one rule of ["ordering"]: raw_rule, %order_reverse, %global, %scope, children *)
Inductive oobs := OObs (raw : string) (orev glob : bool) (scope : option (list string)) (kids : list oobs).
(* ... of one rule of ["deploying"]: raw_rule, children *)
Inductive dobs := DObs (raw : string) (kids : list dobs).

Definition canon_name (n : string) : string :=
  match find (fun p => String.eqb (fst p) n) Src_logic_names with Some p => snd p | None => n end.

Fixpoint obs_of_srule (prefix : string) (r : srule) : robs :=
  match r with
  | SRule i kl kg =>
    RObs (s_raw i) (s_ign i) (s_glob i)
         (if s_ign i then "" else canon_name (s_logic i)) (canon_name (s_dlogic i))
         (if s_ign i then None else Some (make_reverse (s_row i) prefix))
         (s_parent i) (s_multiline i) (s_force_commit i) (s_ic i)
         (map (obs_of_srule prefix) kl) (map (obs_of_srule prefix) kg)
  end.
Fixpoint obs_of_orule (r : orule) : oobs :=
  match r with ORule raw _ orev glob scope kids => OObs raw orev glob scope (map obs_of_orule kids) end.
Fixpoint obs_of_dline (d : dline) : dobs :=
  match d with DLine raw _ _ kids => DObs raw (map obs_of_dline kids) end.

Definition ostr_eqb (a b : option string) : bool :=
  match a, b with Some x, Some y => String.eqb x y | None, None => true | _, _ => false end.
Definition oscope_eqb (a b : option (list string)) : bool :=
  match a, b with Some x, Some y => list_str_eqb x y | None, None => true | _, _ => false end.

Fixpoint robs_eqb (a b : robs) {struct a} : bool :=
  match a, b with
  | RObs r1 i1 g1 l1 d1 v1 p1 m1 f1 c1 kl1 kg1, RObs r2 i2 g2 l2 d2 v2 p2 m2 f2 c2 kl2 kg2 =>
    String.eqb r1 r2 && Bool.eqb i1 i2 && Bool.eqb g1 g2 && String.eqb l1 l2 && String.eqb d1 d2 && ostr_eqb v1 v2 &&
    Bool.eqb p1 p2 && Bool.eqb m1 m2 && Bool.eqb f1 f2 && Bool.eqb c1 c2 &&
    (fix go (x y : list robs) {struct x} : bool :=
       match x, y with [], [] => true | u :: x', w :: y' => robs_eqb u w && go x' y' | _, _ => false end) kl1 kl2 &&
    (fix go (x y : list robs) {struct x} : bool :=
       match x, y with [], [] => true | u :: x', w :: y' => robs_eqb u w && go x' y' | _, _ => false end) kg1 kg2
  end.
Fixpoint oobs_eqb (a b : oobs) {struct a} : bool :=
  match a, b with
  | OObs r1 v1 g1 s1 k1, OObs r2 v2 g2 s2 k2 =>
    String.eqb r1 r2 && Bool.eqb v1 v2 && Bool.eqb g1 g2 && oscope_eqb s1 s2 &&
    (fix go (x y : list oobs) {struct x} : bool :=
       match x, y with [], [] => true | u :: x', w :: y' => oobs_eqb u w && go x' y' | _, _ => false end) k1 k2
  end.
Fixpoint dobs_eqb (a b : dobs) {struct a} : bool :=
  match a, b with
  | DObs r1 k1, DObs r2 k2 =>
    String.eqb r1 r2 &&
    (fix go (x y : list dobs) {struct x} : bool :=
       match x, y with [], [] => true | u :: x', w :: y' => dobs_eqb u w && go x' y' | _, _ => false end) k1 k2
  end.
Fixpoint list_eqb_with {A} (e : A -> A -> bool) (x y : list A) : bool :=
  match x, y with [] , [] => true | u :: x', w :: y' => e u w && list_eqb_with e x' y' | _, _ => false end.

(* one observed rulebook: hardware string, patching local / global, ordering, deploying *)
Definition shipped_case := (string * (list robs * list robs) * list oobs * list dobs)%type.
Definition find_hw (hw : string) : option shw := find (fun h => String.eqb (sh_hw h) hw) Src_shipped.

Definition agree_patching (c : shipped_case) : bool :=
  let '(hw, (pl, pg), _, _) := c in
  match find_hw hw with
  | Some h => match shipped_srules h with
              | Some s => list_eqb_with robs_eqb (map (obs_of_srule (sh_rul_reverse h)) (fst s)) pl &&
                          list_eqb_with robs_eqb (map (obs_of_srule (sh_rul_reverse h)) (snd s)) pg
              | None => false
              end
  | None => false
  end.
Definition agree_ordering (c : shipped_case) : bool :=
  let '(hw, _, o, _) := c in
  match find_hw hw with
  | Some h => match shipped_ordering h with
              | Some ord => list_eqb_with oobs_eqb (map obs_of_orule ord) o
              | None => false
              end
  | None => false
  end.
Definition agree_deploying (c : shipped_case) : bool :=
  let '(hw, _, _, d) := c in
  match find_hw hw with
  | Some h => list_eqb_with dobs_eqb (map obs_of_dline (shipped_deploying h)) d
  | None => false
  end.
