(* C03: the diff is a faithful, lossless description of old versus new.
   Declarative checker evaluated on the implementation's make_diff output and
   proved of the model's. *)
From Coq Require Import List String Ascii Bool Arith.
From Annet Require Import Base.Str Base.Tree Model.Rulebook Model.Diff.
Import ListNotations.
Open Scope string_scope.
Open Scope list_scope.

Definition arow (k : string * minfo * atree) : string := fst (fst k).
Definition ami (k : string * minfo * atree) : minfo := snd (fst k).
Definition asub (k : string * minfo * atree) : atree := snd k.

Fixpoint alookup (row : string) (f : aforest) : option (minfo * atree) :=
  match f with
  | [] => None
  | (r, m, s) :: f' => if String.eqb r row then Some (m, s) else alookup row f'
  end.
Definition amem (row : string) (f : aforest) : bool :=
  match alookup row f with Some _ => true | None => false end.

Fixpoint nodup_rows (l : list string) : bool :=
  match l with [] => true | x :: r => negb (existsb (String.eqb x) r) && nodup_rows r end.

Definition is_moved_like (o : op) : bool :=
  match o with Moved | Affected | Unchanged => true | _ => false end.

(* projections of a diff: drop added (resp. removed) entries, keep rows and nesting *)
Fixpoint proj_n (drop : op) (d : dnode) : list (string * tree) :=
  match d with
  | DN o row _ kids => if op_eqb o drop then [] else [(row, T (flat_map (proj_n drop) kids))]
  end.
Definition proj_old (d : list dnode) : forest := flat_map (proj_n Added) d.
Definition proj_new (d : list dnode) : forest := flat_map (proj_n Removed) d.

(* canonical form for unordered comparison *)
Fixpoint ins_sorted (x : string * tree) (l : forest) : forest :=
  match l with
  | [] => [x]
  | y :: t => if String.leb (fst x) (fst y) then x :: l else y :: ins_sorted x t
  end.
Fixpoint canon (t : tree) : tree :=
  match t with
  | T kids => T (fold_right ins_sorted [] (map (fun kv : string * tree => (fst kv, canon (snd kv))) kids))
  end.
Definition canon_f (f : forest) : forest := Tree.kids (canon (T f)).
Definition unordered_eqb (a b : forest) : bool := forest_eqb (canon_f a) (canon_f b).

(* rows of a level governed by %ordered / %rewrite rules, in order *)
Definition ordered_rows_a (f : aforest) : list string :=
  map arow (filter (fun k => dlogic_eqb (mi_dlogic (ami k)) DOrdered) f).
Definition rewrite_group (f : aforest) : aforest :=
  filter (fun k => dlogic_eqb (mi_dlogic (ami k)) DRewrite) f.
Definition rewrite_rows_a (f : aforest) : list string := map arow (rewrite_group f).

(* "nothing changed, at any depth": the same rows with the same rule and key on both sides, in the
   same order wherever the rulebook says order matters (rows of %ordered and of %rewrite rules),
   and, recursively, nothing changed below any row *)
Fixpoint same_t (a b : atree) {struct a} : bool :=
  match a with
  | AT ka =>
    let kb := akids b in
    list_str_eqb (ordered_rows_a ka) (ordered_rows_a kb) &&
    list_str_eqb (rewrite_rows_a ka) (rewrite_rows_a kb) &&
    forallb (fun k => amem (arow k) ka) kb &&
    (fix go (l : aforest) : bool :=
       match l with
       | [] => true
       | (r, m, s) :: l' =>
         match alookup r kb with
         | Some (m', s') => mi_eqb m m' && same_t s s'
         | None => false
         end && go l'
       end) ka
  end.
Definition same_f (a b : aforest) : bool := same_t (AT a) (AT b).

(* the %rewrite rows of a level did not change at any depth (rewrite_diff then omits them) *)
Definition rw_unchanged (ao an : aforest) : bool := same_f (rewrite_group ao) (rewrite_group an).

(* every row of a level is accounted for by the diff; the only rows that may be missing are the
   rows of %rewrite rules, and only when the whole %rewrite group of the level is unchanged at
   every depth ([unch]) *)
Definition covered (f : aforest) (unch : bool) (rows : list string) : bool :=
  forallb (fun k => existsb (String.eqb (arow k)) rows ||
                    (dlogic_eqb (mi_dlogic (ami k)) DRewrite && unch)) f.

(* lossless ao an d: ops are exact and nothing is lost, at every depth *)
Fixpoint lossless_n (ao an : aforest) (d : dnode) {struct d} : bool :=
  match d with
  | DN o row mi kids =>
    let rows := map d_row kids in
    let sub (ao' an' : aforest) :=
        nodup_rows rows && covered ao' (rw_unchanged ao' an') rows && covered an' (rw_unchanged ao' an') rows &&
        forallb (lossless_n ao' an') kids in
    match o, alookup row ao, alookup row an with
    | Added, None, Some (m, s) =>
      mi_eqb mi m && forallb (fun k => op_eqb (d_op k) Added) kids && sub [] (akids s)
    | Removed, Some (m, s), None =>
      mi_eqb mi m && forallb (fun k => op_eqb (d_op k) Removed) kids && sub (akids s) []
    | (Affected | Moved | Unchanged), Some (m, so), Some (_, sn) =>
      mi_eqb mi m && sub (akids so) (akids sn) &&
      (negb (op_eqb o Unchanged) || forallb (fun k => op_eqb (d_op k) Unchanged) kids)
    | _, _, _ => false
    end
  end.
Definition lossless (ao an : aforest) (d : list dnode) : bool :=
  let rows := map d_row d in
  nodup_rows rows && covered ao (rw_unchanged ao an) rows && covered an (rw_unchanged ao an) rows &&
  forallb (lossless_n ao an) d.

(* ordered rules: the surviving rows of an %ordered rule appear in new's order *)
(* the diff logic of a diff entry is read from the reference annotation of its row, not
   from the entry itself *)
Definition dl_in (f : aforest) (row : string) : option dlogic :=
  match alookup row f with Some (m, _) => Some (mi_dlogic m) | None => None end.
Definition is_ordered_in (f : aforest) (row : string) : bool :=
  match dl_in f row with Some DOrdered => true | _ => false end.
Definition ordered_rows_d (an : aforest) (d : list dnode) : list string :=
  map d_row (filter (fun k => is_ordered_in an (d_row k) && negb (op_eqb (d_op k) Removed)) d).
Fixpoint order_ok_n (an : aforest) (d : dnode) {struct d} : bool :=
  match d with
  | DN o row _ kids =>
    match alookup row an with
    | Some (_, s) => list_str_eqb (ordered_rows_d (akids s) kids) (ordered_rows_a (akids s)) &&
                     forallb (order_ok_n (akids s)) kids
    | None => true
    end
  end.
Definition order_ok (an : aforest) (d : list dnode) : bool :=
  list_str_eqb (ordered_rows_d an d) (ordered_rows_a an) && forallb (order_ok_n an) d.

(* MOVED characterisation for %ordered rules, one level: a surviving row keeps its
   place iff the prefix of new up to and including it equals the same-length prefix of
   old (within the rows of %ordered rules); otherwise it is MOVED -- and it is MOVED
   anyway when the entry the level hangs under is itself MOVED ([pm]) *)
Fixpoint prefix_ok (old_rows new_rows : list string) (row : string) : bool :=
  match new_rows, old_rows with
  | n :: ns, o :: os => String.eqb n o && (String.eqb n row || prefix_ok os ns row)
  | _, _ => false
  end.
Definition moved_ok_lvl (pm : bool) (ao an : aforest) (d : list dnode) : bool :=
  let oldr := ordered_rows_a ao in
  let newr := ordered_rows_a an in
  forallb (fun k =>
             negb (is_ordered_in an (d_row k)) || negb (amem (d_row k) ao) ||
             negb (amem (d_row k) an) ||
             Bool.eqb (op_eqb (d_op k) Moved) (pm || negb (prefix_ok oldr newr (d_row k)))) d.
Definition moved_ok_top (ao an : aforest) (d : list dnode) : bool := moved_ok_lvl false ao an d.

(* the same at every depth: below an entry that is itself MOVED (its whole block is re-entered)
   every surviving row is MOVED; below any other entry present on both sides a surviving row of an
   %ordered rule is MOVED iff the prefix of new up to and including it deviates from old *)
Fixpoint moved_ok_n (ao an : aforest) (d : dnode) {struct d} : bool :=
  match d with
  | DN o row _ kids =>
    match alookup row ao, alookup row an with
    | Some (_, so), Some (_, sn) =>
      moved_ok_lvl (op_eqb o Moved) (akids so) (akids sn) kids &&
      forallb (moved_ok_n (akids so) (akids sn)) kids
    | _, _ => true
    end
  end.
Definition moved_ok (ao an : aforest) (d : list dnode) : bool :=
  moved_ok_lvl false ao an d && forallb (moved_ok_n ao an) d.

(* a %rewrite block that is shown is shown as re-entered as a whole: no entry at or below a row of a
   %rewrite rule is AFFECTED or UNCHANGED (rewrite_diff turns them into MOVED at every depth) *)
Fixpoint whole_n (d : dnode) : bool :=
  match d with DN o _ _ k => negb (op_eqb o Affected) && negb (op_eqb o Unchanged) && forallb whole_n k end.
Definition dl_row (ao an : aforest) (row : string) : option dlogic :=
  match dl_in ao row with Some L => Some L | None => dl_in an row end.
Definition asub_of (f : aforest) (row : string) : aforest :=
  match alookup row f with Some (_, s) => akids s | None => [] end.
Fixpoint rewrite_whole_n (ao an : aforest) (d : dnode) {struct d} : bool :=
  match d with
  | DN o row _ kids =>
    match dl_row ao an row with
    | Some DRewrite => negb (op_eqb o Affected) && negb (op_eqb o Unchanged) && forallb whole_n kids
    | _ => forallb (rewrite_whole_n (asub_of ao row) (asub_of an row)) kids
    end
  end.
Definition rewrite_whole (ao an : aforest) (d : list dnode) : bool := forallb (rewrite_whole_n ao an) d.

Section P.
  Variable rmatch : string -> string -> option (list string).
  Definition P_C03 (x : rset * forest * forest) (d : list dnode) : bool :=
    let '(rs, old, new) := x in
    let ao := annot_f rmatch rs old in
    let an := annot_f rmatch rs new in
    lossless ao an d && order_ok an d && moved_ok ao an d && rewrite_whole ao an d &&
    (negb (forest_eqb old new) || match strip_unchanged d with [] => true | _ => false end).

  (* the projections, for rulebooks without %rewrite rules at the compared levels *)
  Definition P_C03_proj (x : rset * forest * forest) (d : list dnode) : bool :=
    let '(rs, old, new) := x in
    unordered_eqb (proj_old d) (erase_f (annot_f rmatch rs old)) &&
    unordered_eqb (proj_new d) (erase_f (annot_f rmatch rs new)).
End P.

Fixpoint has_rewrite_r (r : prule) : bool :=
  match r with
  | PRule _ _ a kl kg =>
    dlogic_eqb (a_dlogic a) DRewrite || existsb has_rewrite_r kl || existsb has_rewrite_r kg
  end.
Definition has_rewrite (rs : rset) : bool := existsb has_rewrite_r (fst rs) || existsb has_rewrite_r (snd rs).

(* "equal as unordered trees, nesting intact": a permutation of the rows of every level *)
Inductive fperm : forest -> forest -> Prop :=
| fp_nil : fperm [] []
| fp_skip r k k' l l' : fperm k k' -> fperm l l' -> fperm ((r, T k) :: l) ((r, T k') :: l')
| fp_swap x y l : fperm (y :: x :: l) (x :: y :: l)
| fp_trans a b c : fperm a b -> fperm b c -> fperm a c.

(* no row, at any depth, is governed by a %rewrite rule *)
Fixpoint norw_t (t : atree) : bool :=
  match t with
  | AT kids => (fix go (l : aforest) : bool :=
                  match l with
                  | [] => true
                  | (_, m, s) :: l' => negb (dlogic_eqb (mi_dlogic m) DRewrite) && norw_t s && go l'
                  end) kids
  end.
Definition norw (f : aforest) : bool := norw_t (AT f).
