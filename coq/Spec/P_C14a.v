(* C14 — acl_covered: each generator's own ACL (read from the source: Gen/Src_rpl.v) and the
   coverage predicate of the C06 model (Model/Acl.v), evaluated by Coq on the rows the REAL
   generators stream (next to the outcome of the real runner with use_acl=True, P_acl). *)
From Coq Require Import List String Ascii Bool Arith.
From Annet Require Import Base.Str Base.Tree Model.Offside Model.Acl Model.Rpl Gen.Src_rpl Spec.P_C14.
Import ListNotations.
Open Scope string_scope.
Open Scope list_scope.

(* the text of a row: its tokens joined by one blank (Spec/P_C14.v mrow_to_irow) *)
Definition row_text (r : row) : string := join_with " " r.

(* the row, below the rows of the blocks it sits in, is matched and passed by apply_acl *)
Definition mrow_covered (av : avendor) (a : acl) (r : mrow) : bool :=
  match compile_acl a with
  | Some rs => p_acl_covers_path av rs (map row_text (r_path r) ++ [row_text (r_toks r)])
  | None => false
  end.

(* harness/aclgen.py VENDORS: registry[vendor].reverse *)
Definition av_huawei : avendor := AVendor "undo" false.
Definition av_arista : avendor := AVendor "no" false.

Definition own_acl (v : vendor) (n : gname) : option (avendor * acl) :=
  match v, n with
  | Huawei, GPolicy => Some (av_huawei, acl_policy_huawei)
  | Huawei, GPrefix => Some (av_huawei, acl_prefix_huawei)
  | Huawei, GCommunity => Some (av_huawei, acl_community_huawei)
  | Huawei, GAsPath => Some (av_huawei, acl_aspath_huawei)
  | Huawei, GRd => Some (av_huawei, acl_rd_huawei)
  | Arista, GPolicy => Some (av_arista, acl_policy_arista)
  | Arista, GPrefix => Some (av_arista, acl_prefix_arista)
  | Arista, GCommunity => Some (av_arista, acl_community_arista)
  | Arista, GAsPath => Some (av_arista, acl_aspath_arista)
  | _, _ => None
  end.

(* a streamed row of the implementation, read as the model reads its own rows *)
Definition irow_covered (v : vendor) (n : gname) (r : irow) : bool :=
  match own_acl v n with
  | Some (av, a) => mrow_covered av a (irow_to_mrow r)
  | None => true
  end.
Definition P_acl_model (v : vendor) (obs : list igen) : bool :=
  forallb (fun o => forallb (irow_covered v (ig_name o)) (ig_rows o)) obs.
