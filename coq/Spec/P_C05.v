(* C05: declarative offside reference and the property predicate. *)
From Coq Require Import List String Ascii Bool Arith.
From Annet Require Import Base.Str Base.Tree Model.Offside.
Import ListNotations.
Open Scope string_scope.
Open Scope list_scope.

(* History of the content lines seen so far in the current '#'-section, most recent
   first: (indentation column, full path of the line). *)
Definition hist := list (nat * list string).

(* "every line is placed under the nearest preceding line with strictly smaller
   indentation" (top level when there is none) *)
Definition ref_path (h : hist) (lvl : nat) (row : string) : list string :=
  match find (fun e => Nat.ltb (fst e) lvl) h with
  | Some (_, pp) => pp ++ [row]
  | None => [row]
  end.

(* a line is acceptable iff it is the first of its section, or deeper than the line
   before it, or the nearest preceding line that is not deeper than it sits in exactly
   its column (so the column is one an enclosing, still open block started at) *)
Definition ref_consistent (h : hist) (lvl : nat) : bool :=
  match h with
  | [] => true
  | (lp, _) :: _ =>
    Nat.ltb lp lvl ||
    match find (fun e => Nat.leb (fst e) lvl) h with
    | Some (lj, _) => Nat.eqb lj lvl
    | None => false
    end
  end.

Fixpoint ref_items (its : list item) (n : nat) (h : hist) (acc : forest) : result :=
  match its with
  | [] => Ok acc
  | Skip :: r => ref_items r (S n) h acc
  | Reset :: r => ref_items r (S n) [] acc
  | Content lvl row :: r =>
    if ref_consistent h lvl then
      let p := ref_path h lvl row in
      ref_items r (S n) ((lvl, p) :: h) (ins p acc)      (* repeated lines merge: dict insertion *)
    else Err n row
  end.

Definition ref_parse (comments : list string) (text : string) : result :=
  ref_items (map (classify comments) (split_lines text)) 1 [] [].

(* P_C05 input output: the observed outcome is the reference outcome *)
Definition P_C05 (x : list string * string) (y : result) : bool :=
  result_eqb y (ref_parse (fst x) (snd x)).
