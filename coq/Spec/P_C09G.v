(* C09, second part of the predicate (Spec/P_C09.v stays as it is).
   - the command stream for ANY number of apply logics in one patch: maximal runs of adjacent
     commands asking for the same session wrapper, each run between its own wrapper commands,
     nothing moved across runs (clause c9_groups);
   - deploy-rule rows read with the richest rule language (Model/DeployY.v);
   - the predicate P_C09G = the clauses of P_C09 on that matcher + c9_groups. *)
From Coq Require Import List String Ascii Bool Arith NArith ZArith.
From Annet Require Import Base.Str Model.Pattern Model.Order Model.Patch Model.Blocks Gen.Src_apply Model.Deploy
     Model.DeployY Model.Dialog Spec.P_C09.
Import ListNotations.
Open Scope string_scope.
Open Scope list_scope.

(* ------------------------------------------------------------------------------------ *)
(* maximal runs: the declarative reading of itertools.groupby on the wrapper key          *)

(* the groups written back as a keyed list *)
Definition flat_runs {A} (gs : list (wrapper * list A)) : list (A * wrapper) :=
  flat_map (fun g => map (fun x => (x, fst g)) (snd g)) gs.

Fixpoint adj_differ {A} (gs : list (wrapper * list A)) : Prop :=
  match gs with
  | a :: ((b :: _) as r) => fst a <> fst b /\ adj_differ r
  | _ => True
  end.

(* [gs] cuts [l] into maximal runs of equal keys: nothing dropped, added or moved; no empty
   group; neighbouring groups have different keys *)
Definition is_runs {A} (l : list (A * wrapper)) (gs : list (wrapper * list A)) : Prop :=
  flat_runs gs = l /\ Forall (fun g => snd g <> []) gs /\ adj_differ gs.

(* the executable form *)
Fixpoint runs_by {A} (l : list (A * wrapper)) : list (wrapper * list A) :=
  match l with
  | [] => []
  | (x, w) :: r =>
    match runs_by r with
    | (w', g) :: gs => if wrapper_eqb' w w' then (w', x :: g) :: gs else (w, [x]) :: (w', g) :: gs
    | [] => [(w, [x])]
    end
  end.

(* ------------------------------------------------------------------------------------ *)
(* the expected stream of one run, any number of apply logics                             *)

(* apply_logic(hw, do_commit, do_finalize) as observed: 0 = common.apply, else aruba.ap_env.apply *)
Definition obs_wrapper (r : run09) (id : nat) : wrapper :=
  match id with
  | 0 => match r_common r with Some w => w | None => ([], []) end
  | _ => r_ap_env r
  end.

(* every path has a unique rule chain: the rule (hence the apply logic) is determined *)
Definition all_det (h : hitfn) (o : obs09) : bool :=
  forallb (fun pc => chain_det h (o_rules o) (fst pc) (snd pc)) (o_paths0 o).

Definition exp_items (h : hitfn) (o : obs09) (r : run09) : list ((command * bool) * wrapper) :=
  map (fun pc => (expect h o (fst pc) (snd pc), obs_wrapper r (sel_apply h o pc))) (o_paths0 o).

Definition exp_wrap (h : hitfn) (o : obs09) (l : list string) : list (command * bool) :=
  map (fun s => expect h o [s] []) l.

Definition exp_group (h : hitfn) (o : obs09) (g : wrapper * list (command * bool)) : list (command * bool) :=
  exp_wrap h o (fst (fst g)) ++ snd g ++ exp_wrap h o (snd (fst g)).

Definition exp_stream (h : hitfn) (o : obs09) (r : run09) : list (command * bool) :=
  flat_map (exp_group h o) (runs_by (exp_items h o r)).

Definition run_groups (fit : command * bool -> command -> bool) (h : hitfn) (o : obs09) (r : run09) : bool :=
  match r_cmds r, r_common r with
  | Some cmds, Some _ => all_fit fit (exp_stream h o r) cmds
  | _, _ => false
  end.

(* the clause; a run that raised is reported by c9_raised and left aside here *)
Definition groups_fit_h (fit : command * bool -> command -> bool) (h : hitfn) (o : obs09) : bool :=
  negb (all_det h o) ||
  forallb (fun r => match r_cmds r with None => true | Some _ => run_groups fit h o r end) (o_runs o).

(* command text, level, timeout and dialogs of every command of every session *)
Definition groups_h (h : hitfn) (o : obs09) : bool := groups_fit_h cmd_fits h o.

(* ------------------------------------------------------------------------------------ *)
(* P_C09's stream clauses for an arbitrary matcher                                        *)

Definition streams_lenient_h (h : hitfn) (fit : command * bool -> command -> bool) (o : obs09) : bool :=
  let body := map (fun pc => expect h o (fst pc) (snd pc)) (o_paths0 o) in
  let single := single_wrapper h o in
  forallb (fun r => match r_cmds r with None => true | Some _ => run_stream fit h o single body r end) (o_runs o).

Definition yh (o : obs09) : hitfn := fast_hit_y (o_rules o).

Definition c9g_body (o : obs09) : bool := streams_lenient_h (yh o) cmd_fits_plain o.
Definition c9g_params (o : obs09) : bool := streams_lenient_h (yh o) cmd_fits o.
Definition c9g_groups (o : obs09) : bool := groups_h (yh o) o.
(* the session structure alone (command text and level), for the diagnosis of a failing case *)
Definition c9g_sessions (o : obs09) : bool := groups_fit_h cmd_fits_plain (yh o) o.

Definition P_C09G_lenient (o : obs09) : bool :=
  c9_shown o && c9_exits o && c9_indent o && c9g_params o && c9g_groups o && c9_wrapper o && c9_no_commit o.

Definition P_C09G (o : obs09) : bool := P_C09G_lenient o && c9_raised o.

Definition holds_lenient_C09G (o : obs09) : bool := negb (wf_C09 o) || P_C09G_lenient o.
Definition holds_C09G (o : obs09) : bool := negb (wf_C09 o) || P_C09G o.

(* model vs implementation with the extended matcher *)
Definition agree_deploy09_y (o : obs09) : bool :=
  let h := yh o in
  forallb (fun r => ocmds_eqb (deploy h (std_wrappers (env_of o r)) (o_rules o) (o_paths0 o)) (r_cmds r))
          (o_runs o).

Definition agree_C09G (o : obs09) : bool :=
  agree_lines09 o && agree_paths09 o && agree_wrapper09 o && agree_deploy09_y o.

(* ------------------------------------------------------------------------------------ *)
(* Dialog questions / ignore texts of one deploy rule, observed on the real objects        *)

Record rundlg := RunDlg {
  rd_content : string;                  (* what the device printed (decoded match_content) *)
  rd_answer : option string;            (* RulebookQuestionHandler(dialogs)(dev, cmd, content): the answer text *)
  rd_hits : list bool;                  (* bool(matcher(content.strip())) for every dialog question, in order *)
  rd_ign : list bool                    (* the same for every ignore matcher *)
}.

Record obsdlg := ObsDlg {
  od_dialogs : list dialog;             (* rule["attrs"]["dialogs"] as compiled: question text, answer, send_nl *)
  od_ignore : list string;              (* texts of rule["attrs"]["ignore"] *)
  od_runs : list rundlg
}.

Definition obool_eqb (a : option bool) (b : bool) : bool :=
  match a with Some x => Bool.eqb x b | None => false end.

Definition ostr_eqb (a b : option string) : bool :=
  match a, b with Some x, Some y => String.eqb x y | None, None => true | _, _ => false end.

Fixpoint hits_eqb (texts : list string) (content : string) (bs : list bool) : bool :=
  match texts, bs with
  | [], [] => true
  | t :: texts', b :: bs' => obool_eqb (msg_matches t content) b && hits_eqb texts' content bs'
  | _, _ => false
  end.

(* every question / ignore text is inside the modelled language *)
Definition modelled_dlg (o : obsdlg) : bool :=
  forallb (fun d => msg_modelled (dg_question d)) (od_dialogs o) && forallb msg_modelled (od_ignore o).

(* model vs implementation *)
Definition agree_dlg (o : obsdlg) : bool :=
  forallb (fun r =>
             match answer_for (od_dialogs o) (rd_content r) with
             | Some a => ostr_eqb a (rd_answer r)
             | None => false
             end
             && hits_eqb (map dg_question (od_dialogs o)) (strip (rd_content r)) (rd_hits r)
             && hits_eqb (od_ignore o) (strip (rd_content r)) (rd_ign r)) (od_runs o).

(* on the real outputs alone: the answer is that of the first question that accepted the content *)
Fixpoint first_hit (ds : list dialog) (bs : list bool) : option string :=
  match ds, bs with
  | d :: ds', b :: bs' => if b then Some (dg_answer d) else first_hit ds' bs'
  | _, _ => None
  end.

Definition holds_dlg (o : obsdlg) : bool :=
  forallb (fun r => Nat.eqb (List.length (rd_hits r)) (List.length (od_dialogs o)) &&
                    ostr_eqb (first_hit (od_dialogs o) (rd_hits r)) (rd_answer r)) (od_runs o).
