(* C04: the domain of the round-trip property and the predicate evaluated on (model or real) outcomes. *)
From Coq Require Import List String Ascii Bool Arith.
From Annet Require Import Base.Str Base.Tree Model.Offside Gen.Src_vendors Model.Join.
Import ListNotations.
Open Scope string_scope.
Open Scope list_scope.

(* ---------- rows ---------- *)

Fixpoint str_forallb (p : ascii -> bool) (s : string) : bool :=
  match s with EmptyString => true | String c r => p c && str_forallb p r end.

Definition is_blank (c : ascii) : bool := Ascii.eqb c sp || Ascii.eqb c tab.

(* an indent string: one or more blanks *)
Definition wf_indent (ind : string) : bool := negb (is_empty ind) && str_forallb is_blank ind.

(* what every split followed by strip() can give back: a non-empty single line with no blank at either end that
   does not look like a comment to parse_to_tree *)
Definition first_ok (s : string) : bool := match s with String c _ => negb (is_ws c) | EmptyString => false end.
Fixpoint last_ok (s : string) : bool :=
  match s with
  | EmptyString => false
  | String c EmptyString => negb (is_ws c)
  | String _ r => last_ok r
  end.

Definition wf_row_generic (s : string) : bool :=
  first_ok s && last_ok s && str_forallb (fun c => negb (Ascii.eqb c nl)) s &&
  negb (existsb (fun c => startswith c s) default_comments).

Definition no_double_space (s : string) : bool := negb (contains "  " s).

Definition wf_row_plain (sk : splitk) (s : string) : bool :=
  wf_row_generic s &&
  match sk with
  | SkCommon => true
  | SkSpaces => no_double_space s
  | SkStartswith ws => no_double_space s && negb (existsb (fun w => startswith w s) ws)
  | SkEndswith ws => no_double_space s && negb (existsb (fun w => ends_with w s) ws)
  | SkCisco _ _ => no_double_space s
  end.

Definition brace_chars : list ascii := ["{"%char; "}"%char; ";"%char].
Definition no_brace_char (s : string) : bool :=
  str_forallb (fun c => negb (existsb (Ascii.eqb c) brace_chars)) s.

(* rows without the brace family's delimiters; not a comment row; not the wrapper word NokiaFormatter strips *)
Definition wf_row_brace (b : brace) (w : option string) (s : string) : bool :=
  wf_row_generic s && no_brace_char s && negb (startswith (b_cbegin b) s) &&
  match w with Some w => negb (String.eqb s w) | None => true end.

(* the braces the formatter prints are the ones its regexes strip *)
Definition brace_ok (b : brace) (p : subre) : bool :=
  String.eqb (b_begin b) (r_bb p) && String.eqb (b_end b) (r_be p) &&
  (is_empty (b_stmt b) || String.eqb (b_stmt b) (r_se p)) &&
  String.eqb (b_begin b) " {" && String.eqb (b_end b) "}" && String.eqb (r_se p) ";" &&
  String.eqb (r_eol p) "; ##" && String.eqb (b_cbegin b) "/*" && String.eqb (b_cend b) "*/".

Fixpoint all_rows_t (p : string -> bool) (t : tree) : bool :=
  match t with
  | T k => (fix go (l : forest) : bool :=
              match l with
              | [] => true
              | (r, c) :: l' => p r && all_rows_t p c && go l'
              end) k
  end.
Definition all_rows (p : string -> bool) (f : forest) : bool := all_rows_t p (T f).

(* ---------- RouterOS: section words, then leaf rows ---------- *)

Definition ros_word (s : string) : bool :=
  negb (is_empty s) && str_forallb (fun c => negb (is_ws c) && negb (Ascii.eqb c "/"%char)) s &&
  negb (existsb (fun c => startswith c s) default_comments).

Definition ros_leaf (s : string) : bool := wf_row_generic s && negb (startswith "/" s).

(* line = the section line ("/a b") of the enclosing section *)
Fixpoint ros_body (line : string) (t : tree) : bool :=
  match t with
  | T k => (fix go (l : forest) : bool :=
              match l with
              | [] => true
              | (r, c) :: l' =>
                (if is_leaf c then ros_leaf r
                 else ros_word r && negb (str_in (ros_gpath (line ++ " " ++ r)%string) ros_splitters) &&
                      ros_body (line ++ " " ++ r)%string c) && go l'
              end) k
  end.

Fixpoint ros_wf (f : forest) : bool :=
  match f with
  | [] => true
  | (r, c) :: l' =>
    negb (is_leaf c) && ros_word r && negb (str_in (ros_gpath ("/" ++ r)%string) ros_splitters) &&
    ros_body ("/" ++ r)%string c && ros_wf l'
  end.

(* ---------- the domain of C04 per formatter family ---------- *)

(* a word of a vendor table that starts with a non-blank character *)
Definition solid_head (w : string) : bool := match w with String c _ => negb (is_blank c) | EmptyString => false end.

Definition wf_C04_family (fm : fam) (ind : string) (f : forest) : bool :=
  wf_indent ind && wfb f &&
  match fm with
  | FPlain sk => all_rows (wf_row_plain sk) f &&
                 match sk with SkEndswith ws => forallb solid_head ws | _ => true end
  | FBrace b p w => brace_ok b p && all_rows (wf_row_brace b w) f &&
                    match w with Some w => solid_head w | None => true end
  | FRos bb => String.eqb bb "/" && ros_wf f
  end.

(* ---------- guards: the classes of the domain on which the unchanged code is known not to round-trip ---------- *)

(* Cisco: a row with a non-default block exit (address-family) makes split shift all later lines, until a row equal
   to that exit word.  CiscoFormatter.block_exit: the exit word of a row, None = the default one *)
Definition cisco_exit_of (bexit : string) (tbl : list (list string * string)) (s : string) : option string :=
  match find (fun e => existsb (fun p => startswith p s) (fst e)) tbl with
  | Some (_, w) => if String.eqb w bexit then None else Some w
  | None => None
  end.

Definition cisco_special_row (bexit : string) (tbl : list (list string * string)) (s : string) : bool :=
  match cisco_exit_of bexit tbl s with Some _ => true | None => false end.

(* the shape device configs have: the block of every such row ends with the leaf row that is its exit word, and exit
   words occur nowhere else.  closer = the exit word the last row of this level has to be *)
Fixpoint cisco_closed_t (bexit w : string) (ps : list string) (closer : option string) (t : tree) : bool :=
  match t with
  | T k => (fix go (l : forest) : bool :=
              match l with
              | [] => match closer with None => true | Some _ => false end
              | (r, c) :: l' =>
                match closer, l' with
                | Some x, [] => String.eqb r x && is_leaf c
                | _, _ => negb (String.eqb r bexit) && negb (String.eqb r w) &&
                          cisco_closed_t bexit w ps (cisco_exit_of bexit [(ps, w)] r) c && go l'
                end
              end) k
  end.

Definition cisco_closed (bexit : string) (tbl : list (list string * string)) (f : forest) : bool :=
  match tbl with
  | [(ps, w)] => negb (String.eqb w bexit) && cisco_closed_t bexit w ps None (T f)
  | _ => false
  end.

(* RouterOS with the section path taken from context.parent: a section inside a section *)
Fixpoint ros_flat (f : forest) : bool :=
  match f with
  | [] => true
  | (r, c) :: l' => forallb (fun e => is_leaf (snd e)) (kids c) && ros_flat l'
  end.

Definition guard_C04_family (fm : fam) (f : forest) : bool :=
  match fm with
  | FPlain (SkCisco bexit tbl) => all_rows (fun s => negb (cisco_special_row bexit tbl s)) f || cisco_closed bexit tbl f
  | FRos _ => match ros_section_ctx with RosCtxSelf => true | RosCtxParent => ros_flat f end
  | _ => true
  end.

(* ---------- the predicate ---------- *)

(* the text parses back to the same tree, and re-rendering the parsed tree gives the same text *)
Definition roundtrip (f : forest) (y : outcome) : bool :=
  match y with
  | ORound text (Ok g) (Some text2) => forest_eqb g f && String.eqb text2 text
  | _ => false
  end.

Definition input := (string * string * forest)%type.     (* vendor name, indent keyword, tree *)

(* The property's vendor table: which delimiters each of the 14 vendors' syntax has.  It is part of the statement
   (the domain "rows without the vendor's syntax delimiters"), so it is written down here and not taken from the
   source; Properties/C04.v proves that the table regenerated from the source coincides with it. *)
Definition std_brace_of (stmt : string) : brace :=
  {| b_begin := " {"; b_end := "}"; b_stmt := stmt; b_cbegin := "/*"; b_cend := "*/" |}.

Definition spec_family (name : string) : option fam :=
  let policy_huawei := SkStartswith ["end-list"; "endif"; "end-filter"] in
  let policy_asr := SkEndswith ["end-set"; "endif"; "end-policy"] in
  let tbl : list (string * fam) :=
    [ ("huawei", FPlain policy_huawei); ("h3c", FPlain policy_huawei);
      ("optixtrans", FPlain SkCommon); ("pc", FPlain SkCommon);
      ("cisco", FPlain (SkCisco "exit" [(["address-family"], "exit-address-family")]));
      ("nexus", FPlain SkSpaces); ("arista", FPlain SkSpaces); ("aruba", FPlain SkSpaces); ("b4com", FPlain SkSpaces);
      ("iosxr", FPlain policy_asr);
      ("juniper", FBrace (std_brace_of ";") juniper_subre None);
      ("ribbon", FBrace (std_brace_of ";") juniper_subre None);
      ("nokia", FBrace (std_brace_of "") juniper_subre (Some "configure"));
      ("routeros", FRos "/") ] in
  match find (fun e => String.eqb (fst e) name) tbl with Some (_, fm) => Some fm | None => None end.

Definition spec_vendors : list string :=
  ["huawei"; "h3c"; "optixtrans"; "cisco"; "nexus"; "iosxr"; "arista"; "aruba"; "b4com"; "juniper"; "ribbon"; "nokia";
   "routeros"; "pc"].

Definition with_family {A} (x : input) (k : fam -> string -> forest -> A) (unknown none : A) : A :=
  let '(name, ind, f) := x in
  match find_vendor name with
  | Some v => match spec_family name with
              | Some fm => k fm (eff_indent v ind) f
              | None => unknown
              end
  | None => none
  end.

Definition wf_C04 (x : input) : bool := with_family x wf_C04_family false false.
Definition guard_C04 (x : input) : bool := with_family x (fun fm _ f => guard_C04_family fm f) false true.

(* a vendor of the property that is no longer registered, or a registered vendor the property does not name, fails
   closed *)
Definition P_C04 (x : input) (y : outcome) : bool :=
  with_family x (fun fm ind f => if wf_C04_family fm ind f then roundtrip f y else true) false false.
