(* C01, %rewrite rules: the computable domain of theorems C01_rewrite_flat / C01_rewrite_block.
   A block header h present in old and in new whose BODY is governed by %rewrite rules at every depth
   (rewrite_diff + logic `rewrite`; the shipped form is `xpl ~ / ~ %rewrite %global`, `prefix-set * / ~ %rewrite
   %global`, ...).  Device.v: entering the block drops the children governed by %rewrite rules; the logic
   `rewrite` then re-emits the whole new body.

   old = [(h, T bo)], new = [(h, T bn)].  On the universe [merge bo bn] of rows of the two bodies, at every depth
   ([rw_dom_t]):
   - every row is known, its rule is %rewrite with logic `rewrite`, no %force_commit, the row is no exit word,
   - the rows of one level are governed by one rule text with one set of attributes,
   - THE KEY DETERMINES THE ROW on the level (for `~` the key is the row): a %rewrite key that changes its row
     text is dropped by the logic `rewrite` (C01_rewrite_retext_refuted shows that this is necessary);
   the header is governed by a rule whose diff logic is not rewrite_diff, without %force_commit, and is no exit word;
   [rw_order_ok]: the patch is computed and the ordering rulebook gives the direct commands of the %rewrite rows of one
   level one sort key (it does not tear the body apart), at every depth.
   The comparison of the theorems is EQUALITY OF FORESTS (rows in sequence, at every depth). *)
From Coq Require Import List String Ascii Bool Arith ZArith.
From Annet Require Import Base.Str Base.Tree Model.Pattern Model.Rulebook Model.Diff Model.Order
     Model.Patch Model.Blocks Model.Pipeline Model.Device Spec.P_C01 Spec.P_C01o Spec.P_C01ord.
Import ListNotations.
Open Scope string_scope.
Open Scope list_scope.

Section SpecRw.
  Variable rmatch : string -> string -> option (list string).
  Variable is_exit : string -> bool.

  (* the conditions on one row r of a level ks of the universe *)
  Definition rw_row_ok (rs : rset) (ks : forest) (r : string) (s : minfo) : bool :=
    is_rewrite s && logic_eqb (a_logic (mi_attrs s)) LRewrite && negb (a_force_commit (mi_attrs s)) &&
    negb (is_exit r) &&
    forallb (fun e' : string * tree =>
               match match_row rmatch (fst e') rs with
               | Some (s', _) =>
                 String.eqb (mi_raw s) (mi_raw s') && attrs_eqb (mi_attrs s) (mi_attrs s') &&
                 (negb (list_str_eqb (mi_key s) (mi_key s')) || String.eqb r (fst e'))
               | None => false
               end) ks.

  Fixpoint rw_dom_t (t : tree) (rs : rset) {struct t} : bool :=
    match t with
    | T ks =>
      (fix go (l : forest) : bool :=
         match l with
         | [] => true
         | (r, c) :: l' =>
           match match_row rmatch r rs with
           | Some (s, crs) => rw_row_ok rs ks r s && rw_dom_t c crs && go l'
           | None => false
           end
         end) ks
    end.
  Definition rw_dom (rs : rset) (u : forest) : bool := rw_dom_t (T u) rs.

  (* all direct commands of %rewrite rows of one level of the patch carry the same (order, direct) part of the
     sort key, at every level *)
  Fixpoint rw_keys_ok_b (p : ptree) : rset -> bool :=
    match p with
    | PT items =>
      fun rs =>
        let oks := flat_map (fun i : string * option ptree * skey =>
                               match match_row rmatch (fst (fst i)) rs with
                               | Some (s, _) => if is_rewrite s then [snd i] else []
                               | None => []
                               end) items in
        match oks with [] => true | k :: r => forallb (sk_ord_eqb k) r end &&
        (fix go (l : list (string * option ptree * skey)) : bool :=
           match l with
           | [] => true
           | (row, child, _) :: l' =>
             match match_row rmatch row rs, child with
             | Some (_, crs), Some ct => rw_keys_ok_b ct crs
             | _, _ => true
             end && go l'
           end) items
    end.
End SpecRw.

(* ------------------------------------------------------------------ instantiated *)
Definition p_rw_dom (v : vendor) := rw_dom pm (v_is_exit v).

Definition rw_order_ok (v : vendor) (rs : rset) (ordering : list orule) (old new : forest) : bool :=
  match snd (diff_and_patch v rs ordering old new) with
  | POk pt => rw_keys_ok_b pm pt rs
  | PErr => false
  end.

(* the header row of the block *)
Definition rw_header_ok (v : vendor) (rs : rset) (h : string) : bool :=
  match match_row pm h rs with
  | Some (s, _) => negb (is_rewrite s) && negb (a_force_commit (mi_attrs s)) && negb (v_is_exit v h)
  | None => false
  end.
Definition rw_crs (rs : rset) (h : string) : rset :=
  match match_row pm h rs with Some (_, crs) => crs | None => ([], []) end.

Definition wf_rw_block (v : vendor) (rs : rset) (ordering : list orule) (old new : forest) : bool :=
  match old, new with
  | [(h, T bo)], [(h', T bn)] =>
    String.eqb h h' && block_family (v_family v) && rw_header_ok v rs h && wfb bo && wfb bn &&
    p_rw_dom v (rw_crs rs h) (merge bo bn) && rw_order_ok v rs ordering old new
  | _, _ => false
  end.

(* the flat case: bodies of leaves *)
Definition wf_rw_flat (v : vendor) (rs : rset) (ordering : list orule) (old new : forest) : bool :=
  wf_rw_block v rs ordering old new &&
  match old, new with
  | [(_, T bo)], [(_, T bn)] => leaf_level bo && leaf_level bn
  | _, _ => false
  end.
