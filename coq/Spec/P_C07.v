(* C07: what a plain rule pattern means, declaratively, and the property predicate. *)
From Coq Require Import List String Ascii Bool Arith.
From Annet Require Import Base.Str Model.Pattern.
Import ListNotations.
Open Scope string_scope.
Open Scope list_scope.

(* ------------------------------------------------------------------------------ *)
(* The language of a one-word regex (re.IGNORECASE when ic)                        *)

Definition atom_has (ic : bool) (r : sre) (c : ascii) : bool :=
  match r with
  | SChr a | SEsc a => chr_eq ic a c
  | SAny => negb (Ascii.eqb c nl)
  | SCls k => cls_has k c
  | SSet neg items => set_has ic neg items c
  | _ => false
  end.

Inductive sre_lang (ic : bool) : sre -> list ascii -> Prop :=
| L_eps : sre_lang ic SEps []
| L_chr a c : chr_eq ic a c = true -> sre_lang ic (SChr a) [c]
| L_esc a c : chr_eq ic a c = true -> sre_lang ic (SEsc a) [c]
| L_any c : Ascii.eqb c nl = false -> sre_lang ic SAny [c]
| L_cls k c : cls_has k c = true -> sre_lang ic (SCls k) [c]
| L_set neg items c : set_has ic neg items c = true -> sre_lang ic (SSet neg items) [c]
| L_grp cap a w : sre_lang ic a w -> sre_lang ic (SGrp cap a) w
| L_cat a b u v : sre_lang ic a u -> sre_lang ic b v -> sre_lang ic (SCat a b) (u ++ v)
| L_alt_l a b w : sre_lang ic a w -> sre_lang ic (SAlt a b) w
| L_alt_r a b w : sre_lang ic b w -> sre_lang ic (SAlt a b) w
| L_star_nil a : sre_lang ic (SStar a) []
| L_star_app a u v : sre_lang ic a u -> sre_lang ic (SStar a) v -> sre_lang ic (SStar a) (u ++ v)
| L_plus a u v : sre_lang ic a u -> sre_lang ic (SStar a) v -> sre_lang ic (SPlus a) (u ++ v)
| L_opt_nil a : sre_lang ic (SOpt a) []
| L_opt_one a w : sre_lang ic a w -> sre_lang ic (SOpt a) w.

(* ------------------------------------------------------------------------------ *)
(* Matching: the row's words start with words matching the tokens one to one       *)

(* token t accepts word x and binds the words b to the key *)
Inductive tok_binds (ic : bool) : tok -> string -> list string -> Prop :=
| TB_lit w x : word_eq ic w x = true -> tok_binds ic (Lit w) x []
| TB_star x : tok_binds ic Star x [x]
| TB_re r x : sre_lang ic r (l_of x) -> tok_binds ic (StarRe r) x [x].

Inductive matches_spec (ic : bool) : pat -> list string -> list string -> Prop :=
| MS_end rest :                          (* all tokens used: a word boundary, anything may follow *)
    matches_spec ic [] rest []
| MS_tilde rest :                        (* trailing ~ : one or more remaining words, bound as one *)
    rest <> [] -> matches_spec ic [Tilde] rest [join_with " " rest]
| MS_tok t p x ws b key :                (* one token, one word *)
    tok_binds ic t x b -> matches_spec ic p ws key ->
    matches_spec ic (t :: p) (x :: ws) (b ++ key).

(* The same as a boolean checker in "prefix" form: split the words after as many as
   there are one-word tokens, check them position by position, collect the bound ones. *)
Definition body (p : pat) : pat := if ends_tilde p then removelast p else p.

Definition tok_ok (ic : bool) (t : tok) (x : string) : bool :=
  match t with
  | Lit w => word_eq ic w x
  | Star => true
  | StarRe r => sre_imatch ic r x
  | Tilde => false
  end.

Fixpoint forallb2 {A B} (f : A -> B -> bool) (a : list A) (b : list B) : bool :=
  match a, b with
  | [], [] => true
  | x :: a', y :: b' => f x y && forallb2 f a' b'
  | _, _ => false
  end.

Definition bound_words (fx : pat) (ws : list string) : list string :=
  map snd (filter (fun tx => negb (is_lit (fst tx))) (combine fx ws)).

Definition ref_match_words (p : pat) (ic : bool) (ws : list string) : option (list string) :=
  let fx := body p in
  let n := List.length fx in
  let bound := firstn n ws in
  let rest := skipn n ws in
  if forallb2 (tok_ok ic) fx bound
     && (negb (ends_tilde p) || negb (match rest with [] => true | _ => false end))
  then Some (bound_words fx bound ++ (if ends_tilde p then [join_with " " rest] else []))
  else None.

Definition ref_match (p : pat) (ic : bool) (row : string) : option (list string) :=
  match p with
  | [] => None
  | _ => ref_match_words p ic (words row)
  end.

(* ------------------------------------------------------------------------------ *)
(* Removal command: negation word, then the rule's words with the key substituted  *)

Fixpoint subst_key (p : pat) (key : list string) : option (list string) :=
  match p with
  | [] => Some []
  | Lit w :: p' => option_map (cons w) (subst_key p' key)
  | _ :: p' =>
    match key with
    | k :: ks => option_map (cons k) (subst_key p' ks)
    | [] => None                              (* str.format: IndexError *)
    end
  end.

Definition ref_reverse (p : pat) (prefix : string) (key : list string) : option string :=
  option_map (join_with " ") (subst_key (reverse_pat p prefix) key).

(* ------------------------------------------------------------------------------ *)
(* The predicate evaluated on implementation outputs                               *)

Definition opt_eqb {A} (e : A -> A -> bool) (a b : option A) : bool :=
  match a, b with
  | None, None => true
  | Some x, Some y => e x y
  | _, _ => false
  end.

(* one case: a rule row, the vendor's negation word, the ignore_case parameter, a
   fallback key and a list of configuration rows *)
Record c07_in := C07In {
  ci_rule : string; ci_prefix : string; ci_ic : bool; ci_fkey : list string; ci_rows : list string }.

(* observed: the "{}" template, template.format( *fkey ), and per row: None (no match) or
   (groups(), template.format( *groups())) ; a format result None = Python raised *)
Record c07_out := C07Out {
  co_tmpl : string; co_ffmt : option string;
  co_rows : list (option (list string * option string)) }.

Definition row_out_eqb (a b : option (list string * option string)) : bool :=
  opt_eqb (fun x y => list_str_eqb (fst x) (fst y) && opt_eqb String.eqb (snd x) (snd y)) a b.

(* what the model computes *)
Definition model_C07 (x : c07_in) : c07_out :=
  let tmpl := make_reverse (ci_rule x) (ci_prefix x) in
  let ic := rule_ic (ci_rule x) (ci_ic x) in
  let m := match rule_pat (ci_rule x) with         (* = rule_match (ci_rule x) (ci_ic x) *)
           | Some p => pmatch p ic
           | None => fun _ => None
           end in
  C07Out tmpl (format_template_opt tmpl (ci_fkey x))
    (map (fun row => match m row with
                     | Some key => Some (key, format_template_opt tmpl key)
                     | None => None
                     end) (ci_rows x)).

Definition out_eqb (a b : c07_out) : bool :=
  String.eqb (co_tmpl a) (co_tmpl b) && opt_eqb String.eqb (co_ffmt a) (co_ffmt b)
  && list_eqb row_out_eqb (co_rows a) (co_rows b).

(* what the rule language says *)
Definition spec_row (p : pat) (ic : bool) (prefix : string) (row : string)
  : option (list string * option string) :=
  match ref_match p ic row with
  | Some key => Some (key, ref_reverse p prefix key)
  | None => None
  end.

Definition wf_C07 (x : c07_in) : bool :=
  match rule_pat (ci_rule x) with Some _ => true | None => false end
  && forallb wf_row (ci_rows x) && plain_word (ci_prefix x).

Definition P_C07 (x : c07_in) (y : c07_out) : bool :=
  match rule_pat (ci_rule x) with
  | None => false
  | Some p =>
    let ic := rule_ic (ci_rule x) (ci_ic x) in
    opt_eqb String.eqb (co_ffmt y) (ref_reverse p (ci_prefix x) (ci_fkey x))
    && list_eqb row_out_eqb (co_rows y) (map (spec_row p ic (ci_prefix x)) (ci_rows x))
  end.

(* diagnostics for a failing case: indices of the rows whose observed outcome differs
   from the specification, and whether the fallback-key removal command differs *)
Fixpoint bad_rows (p : pat) (ic : bool) (prefix : string) (n : nat) (rows : list string)
         (outs : list (option (list string * option string))) : list (nat * bool) :=
  match rows, outs with
  | r :: rows', o :: outs' =>
    let e := spec_row p ic prefix r in
    (if row_out_eqb o e then [] else
       [(n, opt_eqb list_str_eqb (option_map fst o) (option_map fst e))])
      ++ bad_rows p ic prefix (S n) rows' outs'
  | _, _ => []
  end.

(* (fallback-key command agrees?, [(row index, match part agrees?)]) *)
Definition diag_C07 (x : c07_in) (y : c07_out) : bool * list (nat * bool) :=
  match rule_pat (ci_rule x) with
  | None => (false, [])
  | Some p =>
    (opt_eqb String.eqb (co_ffmt y) (ref_reverse p (ci_prefix x) (ci_fkey x)),
     bad_rows p (rule_ic (ci_rule x) (ci_ic x)) (ci_prefix x) 0 (ci_rows x) (co_rows y))
  end.
