(* C14 — the property predicate, evaluated by Coq both on the model's runs and on what the
   real generators produced (harness/impl/c14_runner.py).

   One observed generator run [igen]: the run(device) stream consumed row by row (block path,
   text, block-header flag, the condition/action the row belongs to), the exception class that
   ended it with the item it belongs to, and the outcome of the real
   _run_partial_generator(use_acl=True).

     (a) P_acl      no AclError / parser error from the real runner; the runner fails exactly
                    when the stream raised
     (b) P_nesting  the tree the real runner returns (parse of the generated text, after the
                    generator's own ACL) is the tree of the yielded (block path, row) pairs —
                    nothing dropped, nothing re-parented; for Cumulus text: parse_text with "!"
     (c) P_refs     every (name space, name) a policy row refers to is defined by a list row
     (d) P_before   an error attributed to a condition/action/statement comes with no row of
                    that item *)
From Coq Require Import List String Ascii Bool Arith.
From Annet Require Import Base.Str Base.Tree Model.Offside Model.Rpl.
Import ListNotations.
Open Scope string_scope.
Open Scope list_scope.

(* ------------------------------------------------------------------ observed runs *)

Inductive runres := ROk (f : forest) | RAcl | RGen | RParser | ROther | RNone.
Record irow := IR { i_path : list string; i_text : string; i_hdr : bool; i_tag : option tag }.
Record igen := IG { ig_name : gname; ig_rows : list irow; ig_err : gerr; ig_run : runres }.

Definition kind_eqb (a b : kind) : bool :=
  match a, b with KStmt, KStmt | KCond, KCond | KAct, KAct => true | _, _ => false end.
Definition tag_eqb (a b : tag) : bool :=
  Nat.eqb (t_pol a) (t_pol b) && Nat.eqb (t_stmt a) (t_stmt b) && kind_eqb (t_kind a) (t_kind b) &&
  Nat.eqb (t_idx a) (t_idx b).
Definition otag_eqb (a b : option tag) : bool :=
  match a, b with Some x, Some y => tag_eqb x y | None, None => true | _, _ => false end.
Definition err_eqb (a b : err) : bool :=
  match a, b with
  | ENotImpl, ENotImpl | ERuntime, ERuntime | EValue, EValue | EKey, EKey | EInvalid, EInvalid
  | EOther, EOther => true
  | _, _ => false
  end.
Definition gerr_eqb (a b : gerr) : bool :=
  match a, b with
  | None, None => true
  | Some (x, t), Some (y, u) => err_eqb x y && otag_eqb t u
  | _, _ => false
  end.
Definition gname_eqb (a b : gname) : bool :=
  match a, b with
  | GPolicy, GPolicy | GPrefix, GPrefix | GCommunity, GCommunity | GAsPath, GAsPath | GRd, GRd
  | GFrr, GFrr => true
  | _, _ => false
  end.
Definition ns_eqb (a b : ns) : bool :=
  match a, b with
  | NsComm, NsComm | NsLarge, NsLarge | NsExtRt, NsExtRt | NsExtSoo, NsExtSoo | NsExt, NsExt
  | NsPfx4, NsPfx4 | NsPfx6, NsPfx6 | NsAsPath, NsAsPath | NsRd, NsRd | NsPolicy, NsPolicy => true
  | _, _ => false
  end.

(* split_remove_spaces + strip of the vendor formatter: a row is its words *)
Definition norm_text (s : string) : string := join_with " " (words s).

(* the stream as the model represents it *)
Definition irow_to_mrow (r : irow) : mrow :=
  MR (map words (i_path r)) (words (i_text r)) (i_hdr r) (i_tag r).
(* model tokens may contain blanks (user-supplied members) *)
Definition norm_mrow (r : mrow) : mrow :=
  MR (map (flat_map words) (r_path r)) (flat_map words (r_toks r)) (r_hdr r) (r_tag r).

(* ------------------------------------------------------------------ alpha on streams *)

Definition opt_nsb_eqb (a b : option (ns * bool)) : bool :=
  match a, b with
  | None, None => true
  | Some (x, p), Some (y, q) => ns_eqb x y && Bool.eqb p q
  | _, _ => false
  end.
Definition arow_eqb (a b : arow) : bool :=
  list_str_eqb (a_head a) (a_head b) && opt_nsb_eqb (a_ns a) (a_ns b) && list_str_eqb (a_names a) (a_names b).

Fixpoint list_eqb {A B} (eqb : A -> B -> bool) (a : list A) (b : list B) : bool :=
  match a, b with
  | [], [] => true
  | x :: a', y :: b' => eqb x y && list_eqb eqb a' b'
  | _, _ => false
  end.

(* alpha(row) = (block path, command head, referenced/defined names) + which item it belongs to *)
Definition mrow_alpha_eqb (v : vendor) (a b : mrow) : bool :=
  list_eqb list_str_eqb (r_path a) (r_path b) &&
  arow_eqb (alpha v (r_toks a)) (alpha v (r_toks b)) &&
  Bool.eqb (r_hdr a) (r_hdr b) && otag_eqb (r_tag a) (r_tag b).

Definition gout_agree (v : vendor) (m : gout) (g : igen) : bool :=
  list_eqb (mrow_alpha_eqb v) (map norm_mrow (fst m)) (map irow_to_mrow (ig_rows g)) &&
  gerr_eqb (snd m) (ig_err g).

(* model and implementation agree on every generator of the vendor *)
Definition agree (fx : fixes) (v : vendor) (g : prog) (obs : list igen) : bool :=
  list_eqb (fun (m : gname * gout) (o : igen) => gname_eqb (fst m) (ig_name o) && gout_agree v (snd m) o)
           (run_all fx v g) obs.

(* ------------------------------------------------------------------ the predicate *)

(* (d) *)
Definition P_before (o : igen) : bool :=
  match ig_err o with
  | Some (_, Some t) => forallb (fun r => negb (otag_eqb (i_tag r) (Some t))) (ig_rows o)
  | _ => true
  end.

(* (a) *)
Definition P_acl (o : igen) : bool :=
  match ig_run o, ig_err o with
  | ROk _, None => true
  | RGen, Some _ => true
  | RNone, _ => true
  | _, _ => false
  end.

Definition is_comment (s : string) : bool := startswith "!" (strip s).

(* (b) *)
Definition yielded_paths (rows : list irow) : list (list string) :=
  map (fun r => map norm_text (i_path r) ++ [norm_text (i_text r)]) rows.
Definition P_nesting (v : vendor) (o : igen) : bool :=
  match ig_run o with
  | ROk f => forest_eqb f (insall (yielded_paths (ig_rows o)) [])
  | RNone =>
    match v with
    | Cumulus =>
      let rows := filter (fun r => negb (is_comment (i_text r))) (ig_rows o) in
      match parse_text ["!"] (join_with (String nl EmptyString) (map i_text (ig_rows o))) with
      | Ok f => forest_eqb f (insall (map (fun r => map strip (i_path r) ++ [strip (i_text r)]) rows) [])
      | Err _ _ => false
      end
    | _ => Nat.eqb (List.length (ig_rows o)) 0
    end
  | _ => true
  end.

(* (c) *)
Definition nsname_mem (x : ns * string) (l : list (ns * string)) : bool :=
  existsb (fun y => ns_eqb (fst x) (fst y) && String.eqb (snd x) (snd y)) l.
Definition subset_refs (r d : list (ns * string)) : bool := forallb (fun x => nsname_mem x d) r.
Definition P_refs_rows (v : vendor) (rows : list row) : bool :=
  subset_refs (refs v rows) (defs v rows).
Definition P_refs (v : vendor) (obs : list igen) : bool :=
  negb (forallb (fun o => match ig_err o with None => true | Some _ => false end) obs) ||
  P_refs_rows v (flat_map (fun o => map (fun r => words (i_text r)) (ig_rows o)) obs).

(* ------------------------------------------------------------------ the input domain *)

Definition cfield_type (f : cfield) : ctype :=
  match f with FCommunity => BASIC | FLarge => LARGE | FExtRt => RT | FExtSoo => SOO end.
Definition afield_ok (f : afield) (t : ctype) : bool :=
  match f, t with
  | AFCommunity, BASIC | AFLarge, LARGE | AFExtRt, RT | AFExtSoo, SOO | AFExt, RT | AFExt, SOO => true
  | _, _ => false
  end.
Definition cl_ok (e : env) (ok : ctype -> bool) (n : string) : bool :=
  match find_cl e n with Some c => ok (cl_type c) && nonempty (cl_members c) | None => false end.

Definition wf_cond (e : env) (c : cond) : bool :=
  match c with
  | CComm f _ names => nonempty names && forallb (cl_ok e (ctype_eqb (cfield_type f))) names
  | CRd _ names =>
    nonempty names &&
    forallb (fun n => match find_rd e n with Some r => nonempty (rd_members r) | None => false end) names
  | CPrefix v6 names _ _ =>
    nonempty names &&
    forallb (fun n => match find_pl e n with
                      | Some p => Bool.eqb (pl_v6 p) v6 && nonempty (pl_members p)
                      | None => false end) names
  | CAsFilter n => match find_af e n with Some _ => true | None => false end
  | _ => true
  end.

Definition action_names (a : action) : list string :=
  match a with
  | AComm _ replaced added removed => (match replaced with Some r => r | None => [] end) ++ added ++ removed
  | _ => []
  end.
Definition wf_action (e : env) (a : action) : bool :=
  match a with
  | AComm f _ _ _ => forallb (cl_ok e (afield_ok f)) (action_names a)
  | _ => true
  end.

Fixpoint uniq (l : list string) : bool :=
  match l with [] => true | x :: r => negb (mem x r) && uniq r end.

(* a derived prefix-list name is used for one address family only *)
Definition families_ok (ps : list policy) : bool :=
  let uses := flat_map stmt_prefix_uses (all_stmts ps) in
  forallb (fun u : puse => match u with (v6, dn, _, _, _) =>
     forallb (fun w : puse => match w with (v6', dn', _, _, _) =>
        negb (String.eqb dn dn') || Bool.eqb v6 v6' end) uses end) uses.

Definition wf_prog (g : prog) : bool :=
  let e := g_env g in
  uniq (map cl_name (e_cl e)) && uniq (map pl_name (e_pl e)) && uniq (map af_name (e_af e)) &&
  uniq (map rd_name (e_rd e)) &&
  forallb (fun st => forallb (wf_cond e) (s_match st) && forallb (wf_action e) (s_then st))
          (all_stmts (g_policies g)) &&
  families_ok (g_policies g).

(* ------------------------------------------------------------------ P_C14 *)

Definition P_C14_a (v : vendor) (g : prog) (obs : list igen) : bool := negb (wf_prog g) || forallb P_acl obs.
Definition P_C14_b (v : vendor) (g : prog) (obs : list igen) : bool := negb (wf_prog g) || forallb (P_nesting v) obs.
Definition P_C14_c (v : vendor) (g : prog) (obs : list igen) : bool := negb (wf_prog g) || P_refs v obs.
Definition P_C14_d (v : vendor) (g : prog) (obs : list igen) : bool := negb (wf_prog g) || forallb P_before obs.

Definition P_C14 (x : vendor * prog) (obs : list igen) : bool :=
  let '(v, g) := x in
  P_C14_a v g obs && P_C14_b v g obs && P_C14_c v g obs && P_C14_d v g obs.

(* the model's own run, in the shape of an observation (the runner outcome is not modelled
   here: RNone).  Used to state the theorems with the very predicates evaluated on real runs. *)
Definition mrow_to_irow (r : mrow) : irow :=
  IR (map (join_with " ") (r_path r)) (join_with " " (r_toks r)) (r_hdr r) (r_tag r).
Definition model_obs (fx : fixes) (v : vendor) (g : prog) : list igen :=
  map (fun m : gname * gout => IG (fst m) (map mrow_to_irow (fst (snd m))) (snd (snd m)) RNone) (run_all fx v g).
