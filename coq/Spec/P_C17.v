(* C17: completing a configuration with the vendor's implicit defaults.
   A short declarative reference [complete], the clauses of the property as boolean
   predicates evaluated on the implementation's outputs, and the observation record of a
   pipeline run with both sides completed. *)
From Coq Require Import List String Ascii Bool Arith.
From Annet Require Import Base.Str Base.Tree Model.Pattern Model.Rulebook Model.Diff Model.Implicit.
Import ListNotations.
Open Scope string_scope.
Open Scope list_scope.

(* the level below a path of rows *)
Fixpoint sub_at (p : list string) (f : forest) : option forest :=
  match p with
  | [] => Some f
  | x :: p' => match lookup x f with Some c => sub_at p' (kids c) | None => None end
  end.

Section Spec.
  Variable rmatch : string -> string -> bool.

  (* "a line of the same kind is present": some row of the level matches the rule's pattern *)
  Definition has_match (pat : string) (t : forest) : bool :=
    let m := rmatch pat in existsb (fun kv : string * tree => m (fst kv)) t.

  (* the rule whose children apply below a row: the last rule of the level matching it *)
  Definition compiled (rs : list irule) : list ((string -> bool) * irule) :=
    map (fun r => (rmatch (i_row r), r)) rs.
  Fixpoint last_match_c (ms : list ((string -> bool) * irule)) (row : string) : option irule :=
    match ms with
    | [] => None
    | (m, r) :: ms' =>
      match last_match_c ms' row with
      | Some x => Some x
      | None => if m row then Some r else None
      end
    end.
  Definition last_match (rs : list irule) (row : string) : option irule := last_match_c (compiled rs) row.

  (* the default rows a level receives, in rule order *)
  Definition wants_default (t : forest) (r : irule) : bool :=
    negb (i_ign r) && negb (has_match (i_row r) t) && negb (has_key (i_row r) t).
  Definition defaults (rs : list irule) (t : forest) : forest :=
    map (fun r => (i_row r, T [])) (filter (wants_default t) rs).

  (* REFERENCE: every explicit row stays where it is, completed below by the children of its
     rule; the missing defaults follow *)
  Fixpoint complete_t (rs : list irule) (t : tree) {struct t} : tree :=
    match t with
    | T ks =>
      let ms := compiled rs in
      T ((fix go (l : forest) : forest :=
            match l with
            | [] => []
            | (row, c) :: l' =>
              (row, match last_match_c ms row with
                    | Some r => complete_t (i_kids r) c
                    | None => c
                    end) :: go l'
            end) ks ++ defaults rs ks)
    end.
  Definition complete (rs : list irule) (f : forest) : forest := kids (complete_t rs (T f)).

  (* the rules that apply below a path of rows (the children of the rule governing each row) *)
  Fixpoint rules_at (rs : list irule) (p : list string) : option (list irule) :=
    match p with
    | [] => Some rs
    | x :: p' => match last_match rs x with Some r => rules_at (i_kids r) p' | None => None end
    end.

  (* ---- clause 1: t is an order-preserving subtree of m ---- *)
  Fixpoint subtree_t (a b : tree) {struct a} : bool :=
    match a with
    | T ka =>
      (fix go (la : forest) : forest -> bool :=
         match la with
         | [] => fun _ => true
         | (k, va) :: la' =>
           fix find (lb : forest) : bool :=
             match lb with
             | [] => false
             | (k', vb) :: lb' =>
               if String.eqb k k' then subtree_t va vb && go la' lb' else find lb'
             end
         end) ka (kids b)
    end.
  Definition subtree (a b : forest) : bool := subtree_t (T a) (T b).

  (* ---- clause 3: at every parent the rules reach, for every non-`!` rule: the default row is
     in m iff t has no row there matching the rule's pattern (or has the default row itself);
     nothing but such default rows, childless, is added ---- *)
  Definition level_iff (rs : list irule) (t m : forest) : bool :=
    forallb (fun r => i_ign r ||
                      Bool.eqb (has_key (i_row r) m)
                               (negb (has_match (i_row r) t) || has_key (i_row r) t)) rs.
  Definition only_defaults (rs : list irule) (t m : forest) : bool :=
    forallb (fun kv : string * tree =>
               has_key (fst kv) t ||
               (existsb (fun r => negb (i_ign r) && String.eqb (i_row r) (fst kv)) rs &&
                match snd kv with T [] => true | _ => false end)) m.
  Fixpoint iff_t (rs : list irule) (t m : tree) {struct t} : bool :=
    match t with
    | T kt =>
      let ms := compiled rs in
      level_iff rs kt (kids m) && only_defaults rs kt (kids m) &&
      (fix go (l : forest) : bool :=
         match l with
         | [] => true
         | (row, c) :: l' =>
           match lookup row (kids m) with
           | None => false
           | Some cm =>
             match last_match_c ms row with
             | Some r => iff_t (i_kids r) c cm
             | None => tree_eqb c cm
             end
           end && go l'
         end) kt
    end.
  Definition default_iff (rs : list irule) (t m : forest) : bool := iff_t rs (T t) (T m).

  (* ---- the predicates on one observed completion: m = t + implicit(t), m2 = m + implicit(m) ---- *)
  Definition P_spec (x : list irule * forest) (y : forest * forest) : bool :=
    forest_eqb (fst y) (complete (fst x) (snd x)).
  Definition P_kept (x : list irule * forest) (y : forest * forest) : bool := subtree (snd x) (fst y).
  Definition P_iff (x : list irule * forest) (y : forest * forest) : bool := default_iff (fst x) (snd x) (fst y).
  Definition P_idem (x : list irule * forest) (y : forest * forest) : bool := forest_eqb (snd y) (fst y).
  Definition P_C17 (x : list irule * forest) (y : forest * forest) : bool :=
    P_spec x y && P_kept x y && P_iff x y && P_idem x y.

  (* ---- when is completing twice the same as once: every default row, read again as a
     configuration row, is governed by a rule whose children add nothing below it ---- *)
  Fixpoint idem_guard_r (siblings : list irule) (r : irule) : bool :=
    match r with
    | IRule row ign ks =>
      (ign || match last_match siblings row with
              | Some b => match defaults (i_kids b) [] with [] => true | _ => false end
              | None => true
              end)
      && forallb (idem_guard_r ks) ks
    end.
  Definition idem_guard (rs : list irule) : bool := forallb (idem_guard_r rs) rs.

  (* ---- clause 4: defaults absent from both sides at parents present in both ---- *)
  (* (parent path, default row, "one side has a row matching the rule's pattern") *)
  Fixpoint absent_defaults (rs : list irule) (t u : tree) (pre : list string) {struct t}
    : list (list string * string * bool) :=
    match t with
    | T kt =>
      let ku := kids u in
      let ms := compiled rs in
      flat_map (fun r => if negb (i_ign r) && negb (has_key (i_row r) kt) && negb (has_key (i_row r) ku)
                         then [(pre, i_row r, has_match (i_row r) kt || has_match (i_row r) ku)] else []) rs
      ++ (fix go (l : forest) : list (list string * string * bool) :=
            match l with
            | [] => []
            | (row, c) :: l' =>
              match lookup row ku, last_match_c ms row with
              | Some cu, Some r => absent_defaults (i_kids r) c cu (pre ++ [row])
              | _, _ => []
              end ++ go l'
            end) kt
    end.
End Spec.

(* all diff entries at a path of rows *)
Fixpoint entries_at (p : list string) (d : list dnode) : list dnode :=
  match p with
  | [] => []
  | [x] => filter (fun e => String.eqb (d_row e) x) d
  | x :: p' => flat_map (fun e => if String.eqb (d_row e) x then entries_at p' (d_kids e) else []) d
  end.
(* the entries below a parent path *)
Fixpoint level_at (p : list string) (d : list dnode) : list dnode :=
  match p with
  | [] => d
  | x :: p' => flat_map (fun e => if String.eqb (d_row e) x then level_at p' (d_kids e) else []) d
  end.

Definition path_eqb (a b : list string) : bool := list_str_eqb a b.

(* one observed pipeline run: both sides completed with the same implicit rules, then
   api._diff_and_patch *)
Record c17pipe := C17Pipe {
  cp_reverse : string;                   (* the vendor's reverse word *)
  cp_rules : list irule;
  cp_t : forest; cp_u : forest;          (* device text / generator output *)
  cp_mt : forest; cp_mu : forest;        (* what the implementation completed them to *)
  cp_diff : list dnode;                  (* the diff _diff_and_patch returned (UNCHANGED stripped) *)
  cp_paths : list (list string)          (* formatter.cmd_paths(patch).keys() *)
}.

Section Pipe.
  Variable rmatch : string -> string -> bool.
  (* does the patching rulebook treat every row of this path with the default diff logic
     (a block under %ordered / %rewrite is re-created as a whole when it changes, defaults
     included; nothing is claimed there) *)
  Variable dl_ok : list string -> bool.

  (* a command below parent `pre` with last element x is explained by another changed line of
     that parent: the line itself, or the line whose reverse form it is *)
  Definition explained (c : c17pipe) (pre : list string) (d x : string) : bool :=
    existsb (fun e => negb (String.eqb (d_row e) d) &&
                      (String.eqb (d_row e) x || String.eqb (reverse_row (d_row e) (cp_reverse c)) x))
            (level_at pre (cp_diff c)).

  Definition no_trace (c : c17pipe) (pre : list string) (d : string) : bool :=
    match entries_at (pre ++ [d]) (cp_diff c) with [] => true | _ => false end &&
    forallb (fun x => negb (existsb (path_eqb (pre ++ [x])) (cp_paths c)) || explained c pre d x)
            [d; reverse_row d (cp_reverse c)].

  Definition absent (c : c17pipe) := absent_defaults rmatch (cp_rules c) (T (cp_t c)) (T (cp_u c)) [].

  (* as the property states it: a default absent from both sides leaves no trace *)
  Definition P_nospur_strict (c : c17pipe) : bool :=
    forallb (fun x => negb (dl_ok (fst (fst x) ++ [snd (fst x)])) ||
                      no_trace c (fst (fst x)) (snd (fst x))) (absent c).
  (* restricted to defaults whose pattern no row of either side matches *)
  Definition P_nospur (c : c17pipe) : bool :=
    forallb (fun x => snd x || negb (dl_ok (fst (fst x) ++ [snd (fst x)])) ||
                      no_trace c (fst (fst x)) (snd (fst x))) (absent c).
  (* the completions the run started from are the reference ones *)
  Definition P_pipe_completed (c : c17pipe) : bool :=
    forest_eqb (cp_mt c) (complete rmatch (cp_rules c) (cp_t c)) &&
    forest_eqb (cp_mu c) (complete rmatch (cp_rules c) (cp_u c)).
End Pipe.

(* the governing rule of every row of a path has the default diff logic (rows no rule knows
   are not in the diff at all) *)
Section PathLogic.
  Variable rm : string -> string -> option (list string).
  Fixpoint path_ddefault (rs : rset) (p : list string) : bool :=
    match p with
    | [] => true
    | x :: p' =>
      match match_row rm x rs with
      | Some (mi, crs) => dlogic_eqb (mi_dlogic mi) DDefault && path_ddefault crs p'
      | None => true
      end
    end.
End PathLogic.

(* ---------------------------------------------------------------------------------- *)
(* One observed completion by the implementation, and the model-vs-implementation
   agreement predicates (matcher: Implicit.imatch). *)
Record c17case := C17Case {
  cc_text : option string;              (* the implicit rule text, when the rules come from a text *)
  cc_rules : option (list praw);        (* implicit.parse_text / _implicit_tree; None = ParserError *)
  cc_t : forest;
  cc_imp : forest;                      (* implicit.config(t, rules) *)
  cc_m : forest;                        (* merge_dicts(t, imp) *)
  cc_m2 : forest                        (* the same step applied to m *)
}.

Definition cc_compiled (c : c17case) : list irule :=
  match cc_rules c with Some p => compile_tree p | None => [] end.
Definition cc_modelled (c : c17case) : bool := rules_modelled (cc_compiled c).

Definition agree_parse (c : c17case) : bool :=
  match cc_text c with
  | None => true
  | Some s =>
    match Implicit.parse_text s, cc_rules c with
    | Some p, Some q => praws_eqb p q
    | None, None => true
    | _, _ => false
    end
  end.
Definition cc_x (c : c17case) := (cc_compiled c, cc_t c).
Definition cc_y (c : c17case) := (cc_m c, cc_m2 c).
(* nothing is claimed when the rule text was refused (ParserError) *)
Definition refused (c : c17case) : bool := match cc_rules c with None => true | Some _ => false end.

Section CaseM.
  Variable rm : string -> string -> bool.
  Definition agree_imp_m (c : c17case) : bool :=
    forest_eqb (config rm (cc_compiled c) (cc_t c)) (cc_imp c).
  (* merge_dicts on the implementation's own implicit tree *)
  Definition agree_m_m (c : c17case) : bool :=
    forest_eqb (merge (cc_t c) (cc_imp c)) (cc_m c).
  Definition agree_m2_m (c : c17case) : bool :=
    forest_eqb (add_implicit rm (cc_compiled c) (cc_m c)) (cc_m2 c).
  Definition holds_spec_m (c : c17case) : bool := refused c || P_spec rm (cc_x c) (cc_y c).
  Definition holds_iff_m (c : c17case) : bool := refused c || P_iff rm (cc_x c) (cc_y c).
  Definition holds_idem_guarded_m (c : c17case) : bool :=
    negb (idem_guard rm (cc_compiled c)) || refused c || P_idem (cc_x c) (cc_y c).
End CaseM.

Definition agree_imp := agree_imp_m imatch.
Definition agree_m := agree_m_m.
Definition agree_m2 := agree_m2_m imatch.
Definition holds_spec := holds_spec_m imatch.
Definition holds_kept (c : c17case) : bool := refused c || P_kept (cc_x c) (cc_y c).
Definition holds_iff := holds_iff_m imatch.
Definition holds_idem (c : c17case) : bool := refused c || P_idem (cc_x c) (cc_y c).
(* idempotence fails although every default row is governed by a rule adding nothing below it *)
Definition holds_idem_guarded := holds_idem_guarded_m imatch.

(* imatch with every rule row of the case compiled once (extensionally imatch itself:
   Proofs/ImplicitProofs.v tmatch_imatch) *)
Fixpoint all_rows_r (r : irule) : list string :=
  match r with IRule row _ ks => row :: flat_map all_rows_r ks end.
Definition all_rows (rs : list irule) : list string := flat_map all_rows_r rs.
Definition table_of (rs : list irule) : list (string * (string -> bool)) :=
  map (fun p => (p, imatch p)) (all_rows rs).
Fixpoint tmatch (tbl : list (string * (string -> bool))) (pat : string) : string -> bool :=
  match tbl with
  | [] => imatch pat
  | (p, m) :: tbl' => if String.eqb p pat then m else tmatch tbl' pat
  end.

(* everything at once, with the case's rule rows compiled beforehand (the harness evaluates
   the single predicates only where this fails) *)
Definition mtable := list (string * (string -> bool)).
Definition case_all_ok (x : mtable * c17case) : bool :=
  let rm := tmatch (fst x) in
  let c := snd x in
  agree_parse c && agree_imp_m rm c && agree_m c && agree_m2_m rm c &&
  holds_spec_m rm c && holds_kept c && holds_iff_m rm c && holds_idem c.
(* cases named after a device share the device's table *)
Fixpoint table_for (tbls : list (string * mtable)) (name : string) (rs : list irule) : mtable :=
  match tbls with
  | [] => table_of rs
  | (n, t) :: r => if String.eqb n name then t else table_for r name rs
  end.
Definition case_all_ok_n (tbls : list (string * mtable)) (x : string * c17case) : bool :=
  (negb (String.eqb (fst x) "") || cc_modelled (snd x)) &&
  case_all_ok (table_for tbls (fst x) (cc_compiled (snd x)), snd x).
(* a pipeline observation against the shipped rulebook of its device: completed as the
   reference says and no trace of any absent default (the clause as the property states it) *)
Definition pipe_all_ok_n (tbls : list (string * mtable)) (x : string * c17pipe) : bool :=
  let rm := tmatch (table_for tbls (fst x) (cp_rules (snd x))) in
  (negb (String.eqb (fst x) "") || rules_modelled (cp_rules (snd x))) &&
  P_pipe_completed rm (snd x) && P_nospur_strict rm (fun _ => true) (snd x).

(* ---------------------------------------------------------------------------------- *)
(* Clause 4 below parents present on ONE side only (generator side): the defaults the completion
   puts below a block that new has and old has not.  Neither side has them as text; whether the
   patch may carry them is what P_nospur_added asks (it does: Properties/C17.v
   C17_no_spurious_added_parent_refuted, open finding). *)
Section OneSided.
  Variable rmatch : string -> string -> bool.

  (* every default the completion adds inside a subtree, with its parent path *)
  Fixpoint added_defaults (rs : list irule) (u : tree) (pre : list string) {struct u}
    : list (list string * string) :=
    match u with
    | T ku =>
      let ms := compiled rmatch rs in
      flat_map (fun r => if wants_default rmatch ku r then [(pre, i_row r)] else []) rs
      ++ (fix go (l : forest) : list (list string * string) :=
            match l with
            | [] => []
            | (row, c) :: l' =>
              match last_match_c ms row with
              | Some r => added_defaults (i_kids r) c (pre ++ [row])
              | None => []
              end ++ go l'
            end) ku
    end.

  (* walk new and old together; where a row of new is missing in old, collect the defaults of its subtree *)
  Fixpoint onesided_defaults (rs : list irule) (u t : tree) (pre : list string) {struct u}
    : list (list string * string) :=
    match u with
    | T ku =>
      let ms := compiled rmatch rs in
      (fix go (l : forest) : list (list string * string) :=
         match l with
         | [] => []
         | (row, c) :: l' =>
           match last_match_c ms row with
           | Some r =>
             match lookup row (kids t) with
             | Some ct => onesided_defaults (i_kids r) c ct (pre ++ [row])
             | None => added_defaults (i_kids r) c (pre ++ [row])
             end
           | None => []
           end ++ go l'
         end) ku
    end.

  Definition P_nospur_added (dl_ok : list string -> bool) (c : c17pipe) : bool :=
    forallb (fun x : list string * string =>
               negb (dl_ok (fst x ++ [snd x])) ||
               negb (existsb (path_eqb (fst x ++ [snd x])) (cp_paths c)))
            (onesided_defaults (cp_rules c) (T (cp_u c)) (T (cp_t c)) []).
End OneSided.
