(* C11: VLAN-list commands change exactly the VLANs that differ.
   Declarative reference and the boolean property predicate. *)
From Coq Require Import List String Ascii Bool Arith NArith.
From Annet Require Import Base.Str Model.Vlan Model.VlanDb Model.VlanCisco.
Import ListNotations.
Open Scope string_scope.
Open Scope list_scope.

(* input: the rule kind, the old and the new VLAN list, each written as ranges split over
   config lines *)
Definition input := (rulek * list line * list line)%type.
Definition in_rule (x : input) : rulek := fst (fst x).
Definition in_old (x : input) : list line := snd (fst x).
Definition in_new (x : input) : list line := snd x.

(* the sets the two configurations denote *)
Definition S_old (x : input) : NS.t := set_of_lines (in_old x).
Definition S_new (x : input) : NS.t := set_of_lines (in_new x).

(* ---- domain ---- *)

Definition range_ok (r : range) : bool := N.leb (fst r) (snd r).

Definition line_set (l : line) : NS.t := set_of_ranges (snd l).

Definition disjointb (a b : NS.t) : bool := NS.is_empty (NS.inter a b).

(* the lines of one configuration split the set: no VLAN is written on two lines *)
Fixpoint pairwise_disjoint (ls : list line) : bool :=
  match ls with
  | [] => true
  | l :: r => forallb (fun m => disjointb (line_set l) (line_set m)) r && pairwise_disjoint r
  end.

(* a configuration of the list: every range lo <= hi, lines split the set, no empty line
   except Cisco's lone "... allowed vlan none"; the "add" continuation form only exists for
   switchport trunk allowed vlan *)
Definition config_ok (k : rulek) (ls : list line) : bool :=
  forallb (fun l => forallb range_ok (snd l)) ls &&
  pairwise_disjoint ls &&
  forallb (fun l => logic_eqb (rk_logic k) CiscoSwtrunk || negb (fst l)) ls &&
  match ls with
  | [(false, [])] => logic_eqb (rk_logic k) CiscoSwtrunk
  | _ => forallb (fun l => negb (is_nil (snd l))) ls
  end.

(* huawei `single` asserts at most one changed row on each side *)
Definition single_ok (k : rulek) (old new : list line) : bool :=
  negb (logic_eqb (rk_logic k) HwSingle) ||
  (Nat.leb (List.length (lines_added old new)) 1 && Nat.leb (List.length (lines_removed old new)) 1).

Definition wf_C11 (x : input) : bool :=
  config_ok (in_rule x) (in_old x) && config_ok (in_rule x) (in_new x) &&
  single_ok (in_rule x) (in_old x) (in_new x).

(* ---- the property on a command list ---- *)

(* every intermediate set (after each prefix of the commands) still holds S_old ∩ S_new *)
Definition keeps_common (so sn : NS.t) (cs : list cmd) : bool :=
  forallb (NS.subset (NS.inter so sn)) (states cs so).

Definition reaches (so sn : NS.t) (cs : list cmd) : bool := NS.equal (simulate cs so) sn.

Definition cmds_ok (x : input) (cs : list cmd) : bool :=
  reaches (S_old x) (S_new x) cs && keeps_common (S_old x) (S_new x) cs.

(* P_C11 x y: y = the command rows the implementation emitted for x (None = it raised).
   Inside the domain the rows must be readable as VLAN-list commands of this rule, reach
   exactly S_new from S_old, and never drop a VLAN of S_old ∩ S_new on the way. *)
Definition P_C11 (x : input) (y : option (list string)) : bool :=
  if wf_C11 x then
    match y with
    | None => false
    | Some rows => match parse_cmds (in_rule x) rows with
                   | None => false
                   | Some cs => cmds_ok x cs
                   end
    end
  else true.

(* ---- correspondence helpers (used by the generated case files) ---- *)

Definition opt_rows_perm_eqb (a b : option (list string)) : bool :=
  match a, b with
  | Some p, Some q => perm_str_eqb p q
  | None, None => true
  | _, _ => false
  end.

(* case = ((input, (old rows, new rows) as given to the implementation), implementation rows);
   rows = None: the harness gave the implementation exactly the text Coq prints (small
   exhaustive scope, where the text is not repeated in the case file) *)
Definition case := ((input * option (list string * list string)) * option (list string))%type.

(* the text printed by the harness is the text of the structured lines, and the text-level
   model of the (repaired) code emits the implementation's rows up to order *)
Definition agree (c : case) : bool :=
  let x := fst (fst c) in
  let po := map (print_line (in_rule x)) (in_old x) in
  let pn := map (print_line (in_rule x)) (in_new x) in
  let t := match snd (fst c) with Some t => t | None => (po, pn) end in
  list_str_eqb po (fst t) && list_str_eqb pn (snd t) &&
  opt_rows_perm_eqb (model_rows (in_rule x) (fst t) (snd t)) (snd c).

Definition holds (c : case) : bool := P_C11 (fst (fst c)) (snd c).

(* the structured model (the one the theorems are about), printed, is the text-level model *)
Definition struct_is_text (c : case) : bool :=
  let x := fst (fst c) in
  let k := in_rule x in
  negb (wf_C11 x) ||
  match model_struct k (in_old x) (in_new x),
        model_rows k (map (print_line k) (in_old x)) (map (print_line k) (in_new x)) with
  | Some cs, Some rows => list_str_eqb (map (print_cmd k (rk_prefix k) (rk_prefix k)) cs) rows
  | None, None => true
  | _, _ => false
  end.

(* ---- classification of a failing case (signature of a violation) ---- *)

Definition is_whole_removal (c : cmd) : bool :=
  match c with RemoveAll | SetNone | SetTo _ => true | _ => false end.

Definition diagnose (x : input) (y : option (list string)) : string :=
  if negb (wf_C11 x) then "outside-domain" else
  match y with
  | None => "raised"
  | Some rows =>
    match parse_cmds (in_rule x) rows with
    | None => "unreadable-command"
    | Some cs =>
      if existsb is_whole_removal cs && negb (is_nil (lines_unchanged (in_old x) (in_new x)))
      then "whole-list-removal-with-unchanged-lines"
      else if negb (keeps_common (S_old x) (S_new x) cs) then "common-vlan-removed"
      else if negb (reaches (S_old x) (S_new x) cs) then "final-set-differs"
      else "ok"
    end
  end.

(* ---- compact case files -------------------------------------------------------------
   A case file holds all its cases in ONE string (a list notation with thousands of
   structured terms costs ~10 ms per case to elaborate, one string literal ~0.01 ms):
       idx|kind|old|new|given|out
   old/new : lines joined by ";" ; a line is [+]a-b,c,... ("+" = add form), "n" = none line
   given   : "=" (the implementation was given the text Coq prints) or  r/r/r~r/r
   out     : "!" (raised) or the emitted rows joined by "/"
   A line that cannot be decoded is reported as failing (fail closed). *)

Definition c_bar : ascii := "|"%char.
Definition c_semi : ascii := ";"%char.
Definition c_slash : ascii := "/"%char.
Definition c_tilde : ascii := "~"%char.
Definition c_plus : ascii := "+"%char.

Definition split_ne (c : ascii) (s : string) : list string :=
  if is_empty s then [] else split_char c s.

Fixpoint all_some {A} (l : list (option A)) : option (list A) :=
  match l with
  | [] => Some []
  | None :: _ => None
  | Some x :: r => match all_some r with Some xs => Some (x :: xs) | None => None end
  end.

Definition decode_line (s : string) : option line :=
  if String.eqb s "n" then Some (false, [])
  else match s with
       | String c r => if Ascii.eqb c c_plus then option_map (pair true) (cisco_parse_ranges r)
                       else option_map (pair false) (cisco_parse_ranges s)
       | EmptyString => None
       end.

Definition decode_lines (s : string) : option (list line) :=
  all_some (map decode_line (split_ne c_semi s)).

Definition decode_given (g : string) : option (option (list string * list string)) :=
  if String.eqb g "=" then Some None
  else match split_char c_tilde g with
       | [a; b] => Some (Some (split_ne c_slash a, split_ne c_slash b))
       | _ => None
       end.

Definition decode_case (kinds : list (string * rulek)) (fields : list string) : option case :=
  match fields with
  | [kd; o; n; g; out] =>
    match find (fun p => String.eqb (fst p) kd) kinds, decode_lines o, decode_lines n, decode_given g with
    | Some (_, k), Some ol, Some nl, Some gv =>
      Some (((k, ol, nl), gv), if String.eqb out "!" then None else Some (split_ne c_slash out))
    | _, _, _, _ => None
    end
  | _ => None
  end.

(* indices of the lines on which f is false (or that cannot be decoded) *)
Definition bad_line (kinds : list (string * rulek)) (f : case -> bool) (l : string) : list N :=
  match split_char c_bar l with
  | i :: fields =>
    if isdigit i then
      match decode_case kinds fields with
      | Some c => if f c then [] else [N_of_str i]
      | None => [N_of_str i]
      end
    else [4294967295%N]
  | [] => [4294967295%N]
  end.

Definition bad_cases (kinds : list (string * rulek)) (f : case -> bool) (data : string) : list N :=
  flat_map (bad_line kinds f) (split_lines data).

Definition all3 (c : case) : bool := agree c && holds c && struct_is_text c.

(* the same conjunction with the domain test evaluated once *)
Definition all3_fast (c : case) : bool :=
  let x := fst (fst c) in
  let k := in_rule x in
  agree c &&
  (if wf_C11 x then
     match snd c with
     | None => false
     | Some rows => match parse_cmds k rows with None => false | Some cs => cmds_ok x cs end
     end &&
     match model_struct k (in_old x) (in_new x),
           model_rows k (map (print_line k) (in_old x)) (map (print_line k) (in_new x)) with
     | Some cs, Some rows => list_str_eqb (map (print_cmd k (rk_prefix k) (rk_prefix k)) cs) rows
     | None, None => true
     | _, _ => false
     end
   else true).

(* (cases failing anything; then, among those only, which predicate failed) *)
Definition check_data (kinds : list (string * rulek)) (data : string) : list N :=
  bad_cases kinds all3_fast data.

(* ====================================================================================== *)
(* The Huawei global VLAN database: `vlan batch` lines (any number) + `vlan N` blocks.     *)

(* input: the old and the new VLAN database *)
Definition input_db := (dbcfg * dbcfg)%type.
Definition Sdb_old (x : input_db) : NS.t := set_of_db (fst x).
Definition Sdb_new (x : input_db) : NS.t := set_of_db (snd x).

(* ---- domain ---- *)

Fixpoint nodup_ids (bs : list blk) : bool :=
  match bs with [] => true | b :: r => negb (has_blk (fst b) r) && nodup_ids r end.

(* option rows: no `undo ...` rows; at most one row per option rule (a VLAN has one name) *)
Definition child_ok (row : string) : bool :=
  match words row with w :: _ => negb (String.eqb w "undo") | [] => false end.

Definition blk_ok (b : blk) : bool :=
  forallb child_ok (snd b) &&
  Nat.leb (List.length (filter (is_rule CName) (snd b))) 1 &&
  Nat.leb (List.length (filter (is_rule CDescr) (snd b))) 1.

(* batch lines: ranges lo <= hi, no VLAN written on two lines, no empty line; blocks: one
   block per VLAN id *)
Definition dbcfg_ok (c : dbcfg) : bool :=
  config_ok k_batch (fst c) && nodup_ids (snd c) && forallb blk_ok (snd c).

Definition wf_db (x : input_db) : bool := dbcfg_ok (fst x) && dbcfg_ok (snd x).

(* every `vlan N` block of the new configuration whose VLAN was in the old batch is also in
   the new batch (what a device prints: a block is always listed in `vlan batch` too).
   Outside this guard the shipped code removes a VLAN of S_old & S_new (known finding). *)
Definition blocks_follow_batch (x : input_db) : bool :=
  forallb (fun b => negb (NS.mem (fst b) (set_of_lines (fst (fst x)))) ||
                    NS.mem (fst b) (set_of_lines (fst (snd x))))
          (snd (snd x)).

(* ---- the property on a command list ---- *)

Definition gcmds_ok (x : input_db) (cs : list gcmd) : bool :=
  reaches (Sdb_old x) (Sdb_new x) (map effect cs) &&
  keeps_common (Sdb_old x) (Sdb_new x) (map effect cs).

(* P_C11_db x y: y = the top-level patch rows (with the rows inside `vlan N` blocks) the
   implementation emitted for x (None = it raised) *)
Definition P_C11_db (x : input_db) (y : option (list trow)) : bool :=
  if wf_db x then
    match y with
    | None => false
    | Some rows => match parse_gcmds rows with
                   | None => false
                   | Some cs => gcmds_ok x cs
                   end
    end
  else true.

(* ---- correspondence helpers ---- *)

Definition opt_trows_perm_eqb (a b : option (list trow)) : bool :=
  match a, b with
  | Some p, Some q => perm_trow_eqb p q
  | None, None => true
  | _, _ => false
  end.

(* case = ((input, (old rows, new rows) as given to the implementation, in the order given),
           implementation rows) *)
Definition case_db := ((input_db * option (list trow * list trow)) * option (list trow))%type.

(* the rows given to the implementation are the rows of the structured database (in any
   top-level order), and the text-level model emits the implementation's rows up to order *)
Definition agree_db (c : case_db) : bool :=
  let x := fst (fst c) in
  let po := print_db (fst x) in
  let pn := print_db (snd x) in
  let t := match snd (fst c) with Some t => t | None => (po, pn) end in
  perm_trow_eqb po (fst t) && perm_trow_eqb pn (snd t) &&
  opt_trows_perm_eqb (db_rows (fst t) (snd t)) (snd c).

Definition holds_db (c : case_db) : bool := P_C11_db (fst (fst c)) (snd c).

Definition struct_is_text_db (c : case_db) : bool :=
  let x := fst (fst c) in
  negb (wf_db x) ||
  match db_struct (fst x) (snd x), db_rows (print_db (fst x)) (print_db (snd x)) with
  | Some cs, Some rows => trows_eqb (map print_gcmd cs) rows
  | None, None => true
  | _, _ => false
  end.

(* ---- classification of a failing case ---- *)

Definition removes_id (n : N) (g : gcmd) : bool :=
  match effect g with
  | Remove rs => NS.mem n (set_of_ranges rs)
  | _ => false
  end.

(* the VLANs of the known-finding class: a block in the new configuration, in the old batch,
   not in the new batch *)
Definition dropped_blocks (x : input_db) : NS.t :=
  fold_right (fun b s => if NS.mem (fst b) (set_of_lines (fst (fst x))) &&
                            negb (NS.mem (fst b) (set_of_lines (fst (snd x))))
                         then NS.add (fst b) s else s) NS.empty (snd (snd x)).

(* the property with the VLANs w left out of both claims *)
Definition gcmds_ok_modulo (x : input_db) (w : NS.t) (cs : list gcmd) : bool :=
  NS.equal (NS.diff (simulate (map effect cs) (Sdb_old x)) w) (NS.diff (Sdb_new x) w) &&
  forallb (NS.subset (NS.diff (NS.inter (Sdb_old x) (Sdb_new x)) w)) (states (map effect cs) (Sdb_old x)).

Definition diagnose_db (x : input_db) (y : option (list trow)) : string :=
  if negb (wf_db x) then "outside-domain" else
  match y with
  | None => "raised"
  | Some rows =>
    match parse_gcmds rows with
    | None => "unreadable-command"
    | Some cs =>
      if gcmds_ok x cs then "ok"
      else if negb (blocks_follow_batch x) && gcmds_ok_modulo x (dropped_blocks x) cs
           then "block-kept-but-vlan-dropped-from-batch"
      else if negb (keeps_common (Sdb_old x) (Sdb_new x) (map effect cs)) then "common-vlan-removed"
      else "final-set-differs"
    end
  end.

(* ---- compact case files for the database cases -------------------------------------
       idx|given|out
   given  : r/r/r~r/r   the top-level rows given to the implementation, old ~ new, where
            r = row[>child row>child row...]
   out    : "!" or the emitted top-level rows joined by "/", r as above
   The structured input is READ from the given rows by Coq (device meaning of the range
   syntax); agree_db then checks that printing it gives the given rows back. *)

Definition c_gt : ascii := ">"%char.

Definition decode_trow (s : string) : trow :=
  match split_char c_gt s with h :: t => (h, t) | [] => (s, []) end.

Definition decode_trows (s : string) : list trow := map decode_trow (split_ne c_slash s).

Definition parse_db_row (r : trow) : option (line + blk) :=
  match classify r with
  | Some (inl row) =>
    match strip_prefix ["vlan"; "batch"] (words row) with
    | Some tl => option_map (fun rs => inl (false, rs)) (nonempty_ranges (hw_parse_ranges tl))
    | None => None
    end
  | Some (inr b) => Some (inr b)
  | None => None
  end.

Fixpoint parse_db (rs : list trow) : option dbcfg :=
  match rs with
  | [] => Some ([], [])
  | r :: rest =>
    match parse_db_row r, parse_db rest with
    | Some (inl l), Some (ls, bs) => Some (l :: ls, bs)
    | Some (inr b), Some (ls, bs) => Some (ls, b :: bs)
    | _, _ => None
    end
  end.

Definition decode_case_db (fields : list string) : option case_db :=
  match fields with
  | [g; out] =>
    match split_char c_tilde g with
    | [a; b] =>
      let go := decode_trows a in
      let gn := decode_trows b in
      match parse_db go, parse_db gn with
      | Some o, Some n =>
        Some (((o, n), Some (go, gn)), if String.eqb out "!" then None else Some (decode_trows out))
      | _, _ => None
      end
    | _ => None
    end
  | _ => None
  end.

Definition all3_db (c : case_db) : bool := agree_db c && holds_db c && struct_is_text_db c.

(* what failed on a case, as a number: 1 = agree_db, 2 = holds_db, 4 = struct_is_text_db, plus
   8 * class of the failure of the property (diagnose_db) *)
Definition diag_class_db (x : input_db) (y : option (list trow)) : N :=
  let d := diagnose_db x y in
  if String.eqb d "ok" then 0
  else if String.eqb d "block-kept-but-vlan-dropped-from-batch" then 1
  else if String.eqb d "common-vlan-removed" then 2
  else if String.eqb d "final-set-differs" then 3
  else if String.eqb d "raised" then 4
  else if String.eqb d "unreadable-command" then 5
  else 6.

Definition fail_code_db (c : case_db) : N :=
  ((if agree_db c then 0 else 1) + (if holds_db c then 0 else 2) + (if struct_is_text_db c then 0 else 4) +
   8 * (if holds_db c then 0 else diag_class_db (fst (fst c)) (snd c)))%N.

(* (index, fail code) of the lines that fail anything; 255 = the line cannot be decoded *)
Definition bad_line_db (l : string) : list (N * N) :=
  match split_char c_bar l with
  | i :: fields =>
    if isdigit i then
      match decode_case_db fields with
      | Some c => if all3_db c then [] else [(N_of_str i, fail_code_db c)]
      | None => [(N_of_str i, 255%N)]
      end
    else [(4294967295%N, 255%N)]
  | [] => [(4294967295%N, 255%N)]
  end.

Definition check_data_db (data : string) : list (N * N) :=
  flat_map bad_line_db (split_lines data).

(* ====================================================================================== *)
(* The Cisco / Nexus global `vlan` rule: list rows + `vlan N` blocks in one slot.          *)

(* input: hw.Catalyst, the old and the new rows of the `vlan` rule *)
Definition input_cdb := (bool * ccfg * ccfg)%type.
Definition cdb_cat (x : input_cdb) : bool := fst (fst x).
Definition cdb_old (x : input_cdb) : ccfg := snd (fst x).
Definition cdb_new (x : input_cdb) : ccfg := snd x.
Definition Scdb_old (x : input_cdb) : NS.t := set_of_ccfg (cdb_old x).
Definition Scdb_new (x : input_cdb) : NS.t := set_of_ccfg (cdb_new x).

(* ---- domain ---- *)

Fixpoint nodup_crows (c : ccfg) : bool :=
  match c with [] => true | r :: t => negb (has_crow (fst r) t) && nodup_crows t end.

Definition cchild_ok (row : string) : bool :=
  match words row with w :: _ => negb (String.eqb w "no") | [] => false end.

(* a row: ranges lo <= hi, not empty; child rows only under a row naming one VLAN; no `no ...`
   child rows, at most one row per option rule *)
Definition crow_ok (r : crow) : bool :=
  forallb range_ok (fst r) && negb (is_nil (fst r)) &&
  (is_nil (snd r) || match single_id (fst r) with Some _ => true | None => false end) &&
  forallb cchild_ok (snd r) &&
  Nat.leb (List.length (filter (is_rule CName) (snd r))) 1 &&
  Nat.leb (List.length (filter (is_rule CDescr) (snd r))) 1.

Definition ccfg_ok (c : ccfg) : bool := forallb crow_ok c && nodup_crows c.

Definition wf_cdb (x : input_cdb) : bool := ccfg_ok (cdb_old x) && ccfg_ok (cdb_new x).

(* guard of the theorems: in the old configuration a VLAN is written on one row (Catalyst
   shape: VLANs that have a block are not repeated in the lists).  A Nexus prints the VLAN of a
   block in the list row too; there the shipped code removes VLANs of S_old & S_new (known
   finding). *)
Definition rows_disjoint (x : input_cdb) : bool := pairwise_disjoint (c_lines (cdb_old x)).

(* ---- the property ---- *)

Definition cgcmds_ok (x : input_cdb) (cs : list gcmd) : bool :=
  reaches (Scdb_old x) (Scdb_new x) (map effect cs) &&
  keeps_common (Scdb_old x) (Scdb_new x) (map effect cs).

Definition P_C11_cdb (x : input_cdb) (y : option (list trow)) : bool :=
  if wf_cdb x then
    match y with
    | None => false
    | Some rows => match parse_cgcmds rows with
                   | None => false
                   | Some cs => cgcmds_ok x cs
                   end
    end
  else true.

(* ---- correspondence helpers ---- *)

Definition case_cdb := ((input_cdb * option (list trow * list trow)) * option (list trow))%type.

Definition agree_cdb (c : case_cdb) : bool :=
  let x := fst (fst c) in
  let po := print_ccfg (cdb_old x) in
  let pn := print_ccfg (cdb_new x) in
  let t := match snd (fst c) with Some t => t | None => (po, pn) end in
  perm_trow_eqb po (fst t) && perm_trow_eqb pn (snd t) &&
  opt_trows_perm_eqb (cisco_rows (cdb_cat x) (fst t) (snd t)) (snd c).

Definition holds_cdb (c : case_cdb) : bool := P_C11_cdb (fst (fst c)) (snd c).

Definition struct_is_text_cdb (c : case_cdb) : bool :=
  let x := fst (fst c) in
  negb (wf_cdb x) ||
  match cisco_struct (cdb_cat x) (cdb_old x) (cdb_new x),
        cisco_rows (cdb_cat x) (print_ccfg (cdb_old x)) (print_ccfg (cdb_new x)) with
  | Some cs, Some rows => trows_eqb (map (print_cgcmd (cdb_cat x)) cs) rows
  | None, None => true
  | _, _ => false
  end.

(* ---- classification of a failing case ---- *)

(* the VLANs of the known-finding class: on a row that disappears and on a row that stays *)
Definition doubly_written (x : input_cdb) : NS.t :=
  NS.inter (set_of_ccfg (c_removed (cdb_old x) (cdb_new x)))
           (set_of_ccfg (filter (fun r => has_crow (fst r) (cdb_new x)) (cdb_old x))).

Definition cgcmds_ok_modulo (x : input_cdb) (w : NS.t) (cs : list gcmd) : bool :=
  NS.equal (NS.diff (simulate (map effect cs) (Scdb_old x)) w) (NS.diff (Scdb_new x) w) &&
  forallb (NS.subset (NS.diff (NS.inter (Scdb_old x) (Scdb_new x)) w)) (states (map effect cs) (Scdb_old x)).

Definition diagnose_cdb (x : input_cdb) (y : option (list trow)) : string :=
  if negb (wf_cdb x) then "outside-domain" else
  match y with
  | None => "raised"
  | Some rows =>
    match parse_cgcmds rows with
    | None => "unreadable-command"
    | Some cs =>
      if cgcmds_ok x cs then "ok"
      else if negb (rows_disjoint x) && cgcmds_ok_modulo x (doubly_written x) cs
           then "vlan-of-kept-row-removed-with-its-block"
      else if negb (keeps_common (Scdb_old x) (Scdb_new x) (map effect cs)) then "common-vlan-removed"
      else "final-set-differs"
    end
  end.

(* ---- compact case files:  idx|C or N|given|out   (C = hw.Catalyst) ---- *)

Definition parse_crow (r : trow) : option crow :=
  match strip_prefix ["vlan"] (words (fst r)) with
  | Some [w] => option_map (fun rs => (rs, snd r)) (nonempty_ranges (cisco_parse_ranges w))
  | _ => None
  end.

Definition parse_ccfg (rs : list trow) : option ccfg := all_some (map parse_crow rs).

Definition decode_case_cdb (fields : list string) : option case_cdb :=
  match fields with
  | [k; g; out] =>
    match split_char c_tilde g with
    | [a; b] =>
      let go := decode_trows a in
      let gn := decode_trows b in
      match parse_ccfg go, parse_ccfg gn with
      | Some o, Some n =>
        if String.eqb k "C" || String.eqb k "N" then
          Some ((((String.eqb k "C", o), n), Some (go, gn)),
                if String.eqb out "!" then None else Some (decode_trows out))
        else None
      | _, _ => None
      end
    | _ => None
    end
  | _ => None
  end.

Definition all3_cdb (c : case_cdb) : bool := agree_cdb c && holds_cdb c && struct_is_text_cdb c.

Definition diag_class_cdb (x : input_cdb) (y : option (list trow)) : N :=
  let d := diagnose_cdb x y in
  if String.eqb d "ok" then 0
  else if String.eqb d "vlan-of-kept-row-removed-with-its-block" then 1
  else if String.eqb d "common-vlan-removed" then 2
  else if String.eqb d "final-set-differs" then 3
  else if String.eqb d "raised" then 4
  else if String.eqb d "unreadable-command" then 5
  else 6.

Definition fail_code_cdb (c : case_cdb) : N :=
  ((if agree_cdb c then 0 else 1) + (if holds_cdb c then 0 else 2) + (if struct_is_text_cdb c then 0 else 4) +
   8 * (if holds_cdb c then 0 else diag_class_cdb (fst (fst c)) (snd c)))%N.

Definition bad_line_cdb (l : string) : list (N * N) :=
  match split_char c_bar l with
  | i :: fields =>
    if isdigit i then
      match decode_case_cdb fields with
      | Some c => if all3_cdb c then [] else [(N_of_str i, fail_code_cdb c)]
      | None => [(N_of_str i, 255%N)]
      end
    else [(4294967295%N, 255%N)]
  | [] => [(4294967295%N, 255%N)]
  end.

Definition check_data_cdb (data : string) : list (N * N) :=
  flat_map bad_line_cdb (split_lines data).
