(* C11: VLAN-list commands change exactly the VLANs that differ.
   Declarative reference and the boolean property predicate. *)
From Coq Require Import List String Ascii Bool Arith NArith.
From Annet Require Import Base.Str Model.Vlan.
Import ListNotations.
Open Scope string_scope.
Open Scope list_scope.

(* input: the rule kind, the old and the new VLAN list, each written as ranges split over
   config lines *)
Definition input := (rulek * list line * list line)%type.
Definition in_rule (x : input) : rulek := fst (fst x).
Definition in_old (x : input) : list line := snd (fst x).
Definition in_new (x : input) : list line := snd x.

(* the sets the two configurations denote *)
Definition S_old (x : input) : NS.t := set_of_lines (in_old x).
Definition S_new (x : input) : NS.t := set_of_lines (in_new x).

(* ---- domain ---- *)

Definition range_ok (r : range) : bool := N.leb (fst r) (snd r).

Definition line_set (l : line) : NS.t := set_of_ranges (snd l).

Definition disjointb (a b : NS.t) : bool := NS.is_empty (NS.inter a b).

(* the lines of one configuration split the set: no VLAN is written on two lines *)
Fixpoint pairwise_disjoint (ls : list line) : bool :=
  match ls with
  | [] => true
  | l :: r => forallb (fun m => disjointb (line_set l) (line_set m)) r && pairwise_disjoint r
  end.

(* a configuration of the list: every range lo <= hi, lines split the set, no empty line
   except Cisco's lone "... allowed vlan none"; the "add" continuation form only exists for
   switchport trunk allowed vlan *)
Definition config_ok (k : rulek) (ls : list line) : bool :=
  forallb (fun l => forallb range_ok (snd l)) ls &&
  pairwise_disjoint ls &&
  forallb (fun l => logic_eqb (rk_logic k) CiscoSwtrunk || negb (fst l)) ls &&
  match ls with
  | [(false, [])] => logic_eqb (rk_logic k) CiscoSwtrunk
  | _ => forallb (fun l => negb (is_nil (snd l))) ls
  end.

(* huawei `single` asserts at most one changed row on each side *)
Definition single_ok (k : rulek) (old new : list line) : bool :=
  negb (logic_eqb (rk_logic k) HwSingle) ||
  (Nat.leb (List.length (lines_added old new)) 1 && Nat.leb (List.length (lines_removed old new)) 1).

Definition wf_C11 (x : input) : bool :=
  config_ok (in_rule x) (in_old x) && config_ok (in_rule x) (in_new x) &&
  single_ok (in_rule x) (in_old x) (in_new x).

(* ---- the property on a command list ---- *)

(* every intermediate set (after each prefix of the commands) still holds S_old ∩ S_new *)
Definition keeps_common (so sn : NS.t) (cs : list cmd) : bool :=
  forallb (NS.subset (NS.inter so sn)) (states cs so).

Definition reaches (so sn : NS.t) (cs : list cmd) : bool := NS.equal (simulate cs so) sn.

Definition cmds_ok (x : input) (cs : list cmd) : bool :=
  reaches (S_old x) (S_new x) cs && keeps_common (S_old x) (S_new x) cs.

(* P_C11 x y: y = the command rows the implementation emitted for x (None = it raised).
   Inside the domain the rows must be readable as VLAN-list commands of this rule, reach
   exactly S_new from S_old, and never drop a VLAN of S_old ∩ S_new on the way. *)
Definition P_C11 (x : input) (y : option (list string)) : bool :=
  if wf_C11 x then
    match y with
    | None => false
    | Some rows => match parse_cmds (in_rule x) rows with
                   | None => false
                   | Some cs => cmds_ok x cs
                   end
    end
  else true.

(* ---- correspondence helpers (used by the generated case files) ---- *)

Definition opt_rows_perm_eqb (a b : option (list string)) : bool :=
  match a, b with
  | Some p, Some q => perm_str_eqb p q
  | None, None => true
  | _, _ => false
  end.

(* case = ((input, (old rows, new rows) as given to the implementation), implementation rows);
   rows = None: the harness gave the implementation exactly the text Coq prints (small
   exhaustive scope, where the text is not repeated in the case file) *)
Definition case := ((input * option (list string * list string)) * option (list string))%type.

(* the text printed by the harness is the text of the structured lines, and the text-level
   model of the (repaired) code emits the implementation's rows up to order *)
Definition agree (c : case) : bool :=
  let x := fst (fst c) in
  let po := map (print_line (in_rule x)) (in_old x) in
  let pn := map (print_line (in_rule x)) (in_new x) in
  let t := match snd (fst c) with Some t => t | None => (po, pn) end in
  list_str_eqb po (fst t) && list_str_eqb pn (snd t) &&
  opt_rows_perm_eqb (model_rows (in_rule x) (fst t) (snd t)) (snd c).

Definition holds (c : case) : bool := P_C11 (fst (fst c)) (snd c).

(* the structured model (the one the theorems are about), printed, is the text-level model *)
Definition struct_is_text (c : case) : bool :=
  let x := fst (fst c) in
  let k := in_rule x in
  negb (wf_C11 x) ||
  match model_struct k (in_old x) (in_new x),
        model_rows k (map (print_line k) (in_old x)) (map (print_line k) (in_new x)) with
  | Some cs, Some rows => list_str_eqb (map (print_cmd k (rk_prefix k) (rk_prefix k)) cs) rows
  | None, None => true
  | _, _ => false
  end.

(* ---- classification of a failing case (signature of a violation) ---- *)

Definition is_whole_removal (c : cmd) : bool :=
  match c with RemoveAll | SetNone | SetTo _ => true | _ => false end.

Definition diagnose (x : input) (y : option (list string)) : string :=
  if negb (wf_C11 x) then "outside-domain" else
  match y with
  | None => "raised"
  | Some rows =>
    match parse_cmds (in_rule x) rows with
    | None => "unreadable-command"
    | Some cs =>
      if existsb is_whole_removal cs && negb (is_nil (lines_unchanged (in_old x) (in_new x)))
      then "whole-list-removal-with-unchanged-lines"
      else if negb (keeps_common (S_old x) (S_new x) cs) then "common-vlan-removed"
      else if negb (reaches (S_old x) (S_new x) cs) then "final-set-differs"
      else "ok"
    end
  end.

(* ---- compact case files -------------------------------------------------------------
   A case file holds all its cases in ONE string (a list notation with thousands of
   structured terms costs ~10 ms per case to elaborate, one string literal ~0.01 ms):
       idx|kind|old|new|given|out
   old/new : lines joined by ";" ; a line is [+]a-b,c,... ("+" = add form), "n" = none line
   given   : "=" (the implementation was given the text Coq prints) or  r/r/r~r/r
   out     : "!" (raised) or the emitted rows joined by "/"
   A line that cannot be decoded is reported as failing (fail closed). *)

Definition c_bar : ascii := "|"%char.
Definition c_semi : ascii := ";"%char.
Definition c_slash : ascii := "/"%char.
Definition c_tilde : ascii := "~"%char.
Definition c_plus : ascii := "+"%char.

Definition split_ne (c : ascii) (s : string) : list string :=
  if is_empty s then [] else split_char c s.

Fixpoint all_some {A} (l : list (option A)) : option (list A) :=
  match l with
  | [] => Some []
  | None :: _ => None
  | Some x :: r => match all_some r with Some xs => Some (x :: xs) | None => None end
  end.

Definition decode_line (s : string) : option line :=
  if String.eqb s "n" then Some (false, [])
  else match s with
       | String c r => if Ascii.eqb c c_plus then option_map (pair true) (cisco_parse_ranges r)
                       else option_map (pair false) (cisco_parse_ranges s)
       | EmptyString => None
       end.

Definition decode_lines (s : string) : option (list line) :=
  all_some (map decode_line (split_ne c_semi s)).

Definition decode_given (g : string) : option (option (list string * list string)) :=
  if String.eqb g "=" then Some None
  else match split_char c_tilde g with
       | [a; b] => Some (Some (split_ne c_slash a, split_ne c_slash b))
       | _ => None
       end.

Definition decode_case (kinds : list (string * rulek)) (fields : list string) : option case :=
  match fields with
  | [kd; o; n; g; out] =>
    match find (fun p => String.eqb (fst p) kd) kinds, decode_lines o, decode_lines n, decode_given g with
    | Some (_, k), Some ol, Some nl, Some gv =>
      Some (((k, ol, nl), gv), if String.eqb out "!" then None else Some (split_ne c_slash out))
    | _, _, _, _ => None
    end
  | _ => None
  end.

(* indices of the lines on which f is false (or that cannot be decoded) *)
Definition bad_line (kinds : list (string * rulek)) (f : case -> bool) (l : string) : list N :=
  match split_char c_bar l with
  | i :: fields =>
    if isdigit i then
      match decode_case kinds fields with
      | Some c => if f c then [] else [N_of_str i]
      | None => [N_of_str i]
      end
    else [4294967295%N]
  | [] => [4294967295%N]
  end.

Definition bad_cases (kinds : list (string * rulek)) (f : case -> bool) (data : string) : list N :=
  flat_map (bad_line kinds f) (split_lines data).

Definition all3 (c : case) : bool := agree c && holds c && struct_is_text c.

(* the same conjunction with the domain test evaluated once *)
Definition all3_fast (c : case) : bool :=
  let x := fst (fst c) in
  let k := in_rule x in
  agree c &&
  (if wf_C11 x then
     match snd c with
     | None => false
     | Some rows => match parse_cmds k rows with None => false | Some cs => cmds_ok x cs end
     end &&
     match model_struct k (in_old x) (in_new x),
           model_rows k (map (print_line k) (in_old x)) (map (print_line k) (in_new x)) with
     | Some cs, Some rows => list_str_eqb (map (print_cmd k (rk_prefix k) (rk_prefix k)) cs) rows
     | None, None => true
     | _, _ => false
     end
   else true).

(* (cases failing anything; then, among those only, which predicate failed) *)
Definition check_data (kinds : list (string * rulek)) (data : string) : list N :=
  bad_cases kinds all3_fast data.
