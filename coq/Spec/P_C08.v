(* C08: ordering follows the ordering rulebook and only permutes lines. *)
From Coq Require Import List String Ascii Bool Arith ZArith.
From Annet Require Import Base.Str Base.Tree Model.Pattern Model.Rulebook Model.Diff Model.Order
     Model.Patch Model.Blocks Model.Pipeline Spec.PipelineCase Spec.P_C03.
Import ListNotations.
Open Scope string_scope.
Open Scope list_scope.

Record obs08 := Obs08 {
  o8_vendor : vendor;
  o8_ordering : list orule;
  o8_sorted : option ptree;               (* make_patch(...) as returned, with sort keys *)
  o8_unsorted : option ptree;             (* the same with PatchTree.sort disabled *)
  o8_cfg : forest;                        (* a config tree *)
  o8_ordered : forest;                    (* Orderer.order_config(cfg) *)
  o8_twice : forest;                      (* order_config applied to its own output *)
  o8_paths : list (list string);          (* cmd_paths of the patch *)
  o8_meta : option ptree;                 (* the patch after removing one unrelated top-level row from old and new *)
  o8_resorted : option ptree              (* the real PatchTree.sort() applied to the unsorted patch *)
}.

Definition item := (string * option ptree * skey)%type.
Definition ikey (i : item) : skey := snd i.

(* every level sorted by its sort keys *)
Fixpoint sorted_keys (l : list skey) : bool :=
  match l with
  | a :: ((b :: _) as r) => skey_leb a b && sorted_keys r
  | _ => true
  end.
Fixpoint sorted_ok (p : ptree) : bool :=
  match p with
  | PT items =>
    sorted_keys (map (fun i : item => snd i) items) &&
    forallb (fun i : item => match snd (fst i) with Some c => sorted_ok c | None => true end) items
  end.

(* the reference: stable sort by the reported keys, at every level *)
Fixpoint sort_rec (p : ptree) : ptree :=
  match p with
  | PT items =>
    PT (stable_sort (fun a b : item => skey_leb (snd a) (snd b))
                    (map (fun i : item => (fst (fst i), option_map sort_rec (snd (fst i)), snd i)) items))
  end.

Definition is_stable_sort_of (sorted unsorted : ptree) : bool := ptree_eqb (sort_rec unsorted) sorted.

(* multiset of root-to-node paths *)
Fixpoint all_paths (pre : list string) (p : ptree) : list (list string) :=
  match p with
  | PT items =>
    flat_map (fun i : item =>
                (pre ++ [fst (fst i)]) ::
                match snd (fst i) with Some c => all_paths (pre ++ [fst (fst i)]) c | None => [] end) items
  end.
Definition count_path (x : list string) (l : list (list string)) : nat :=
  List.length (filter (list_str_eqb x) l).
Definition same_multiset (a b : list (list string)) : bool :=
  Nat.eqb (List.length a) (List.length b) &&
  forallb (fun x => Nat.eqb (count_path x a) (count_path x b)) a.

Fixpoint subseq (a b : list (list string)) : bool :=   (* a is a subsequence of b *)
  match a, b with
  | [], _ => true
  | _ :: _, [] => false
  | x :: a', y :: b' => if list_str_eqb x y then subseq a' b' else subseq a b'
  end.

(* order_config: rows no ordering rule of the level mentions (neither directly nor in
   reverse form, and not the exit word) keep their relative order *)
Definition mentioned (v : vendor) (ordering : list orule) (row : string) : bool :=
  existsb (fun r => in_scope r None &&
                    (matches pm (o_pat r) row || matches pm (prev v (o_pat r)) row)) ordering ||
  (negb (is_empty (v_exit v)) && String.eqb (v_exit v) row && negb (match ordering with [] => true | _ => false end)).

Definition unmentioned_stable (v : vendor) (ordering : list orule) (cfg ordered : forest) : bool :=
  let un := fun kv : string * tree => negb (mentioned v ordering (fst kv)) in
  list_str_eqb (map fst (filter un cfg)) (map fst (filter un ordered)).

(* the part of [unmentioned_stable] that holds unconditionally: unmentioned rows of the
   same kind (commands / rows starting with the negation word) keep their relative order *)
Definition unmentioned_stable_kind (v : vendor) (ordering : list orule) (cfg ordered : forest) : bool :=
  forallb (fun b : bool =>
             let sel := fun kv : string * tree =>
                          negb (mentioned v ordering (fst kv)) &&
                          Bool.eqb (negb (startswith (v_reverse v) (fst kv))) b in
             list_str_eqb (map fst (filter sel cfg)) (map fst (filter sel ordered)))
          [true; false].
(* input class of the open finding: some row no rule mentions starts with the negation word *)
Definition has_negated_unmentioned (v : vendor) (ordering : list orule) (cfg : forest) : bool :=
  existsb (fun kv : string * tree =>
             negb (mentioned v ordering (fst kv)) && startswith (v_reverse v) (fst kv)) cfg.

(* rank (reference): what the first sentence of the property says about one command of a
   level, given the ordering rules of that level.  [hit_rule]: the rule is in scope and the
   row belongs to its language (direct or negated form).
   - no rule mentions the row: order 0 (the exit word: +inf, i.e. last, as soon as a rule is in scope);
   - exactly one rule, index k, mentions it: an ordinary rule gives +k to a command and -k
     to a removal (so removals come first, mirrored); an %order_reverse rule pins a removal
     at +k and leaves everything else at 0;
   - several rules mention it: the best-match choice is outside the property's quantifier.
   The "commit" pseudo-command of %force_commit inherits its rule's key and is skipped. *)
Fixpoint index_where {A} (f : A -> bool) (l : list A) (i : nat) : list nat :=
  match l with [] => [] | x :: t => (if f x then [i] else []) ++ index_where f t (S i) end.

Definition znum_eqb (a b : znum) : bool :=
  match a, b with
  | ZFin x, ZFin y => Z.eqb x y
  | ZInf, ZInf => true
  | _, _ => false
  end.

Section RankSpec.
  Variable rmatch : string -> string -> option (list string).
  Variable rrev : string -> string.
  Variable block_exit : string.

  Definition hit_rule (sc : option string) (row : string) (r : orule) : bool :=
    in_scope r sc && (matches rmatch (o_pat r) row || matches rmatch (rrev (o_pat r)) row).
  Definition is_exit_row (row : string) : bool :=
    negb (is_empty block_exit) && String.eqb block_exit row.

  (* the (order, order_direct) pair the reference allows for [row] *)
  Definition rank_pair_ok (sc : option string) (ordering : list orule) (row : string) (n : znum) (d : bool) : bool :=
    match index_where (hit_rule sc row) ordering 0 with
    | [] =>
      if is_exit_row row
      then (if existsb (fun r => in_scope r sc) ordering then znum_eqb n ZInf && d else znum_eqb n (ZFin 0))
      else znum_eqb n (ZFin 0)
    | [k] =>
      if is_exit_row row then true else
      match nth_error ordering k with
      | Some r =>
        if o_rev r then (znum_eqb n (ZFin (Z.of_nat k)) && d) || znum_eqb n (ZFin 0)
        else znum_eqb n (ZFin (Z.of_nat k))
      | None => false
      end
    | _ => true
    end.

  (* the signed sort key: +order for order_direct, -order otherwise *)
  Definition unsigned (n : znum) (d : bool) : znum :=
    match n with ZFin z => ZFin (if d then z else Z.opp z) | ZInf => ZInf end.

  Definition rank_item_ok (ordering : list orule) (i : item) : bool :=
    let row := fst (fst i) in
    String.eqb row "commit" ||
    rank_pair_ok (Some "patch") ordering row (unsigned (fst (fst (snd i))) (snd (snd i))) (snd (snd i)).

  Definition rank_ok_g (ordering : list orule) (p : ptree) : bool :=
    forallb (rank_item_ok ordering) (pitems p).

  (* the same reference as a function: the (order, order_direct) pair of a row of direction
     [cd], where the rules determine it (None: several rules mention the row) *)
  Definition ref_rank (sc : option string) (ordering : list orule) (row : string) (cd : bool)
    : option (znum * bool) :=
    match index_where (hit_rule sc row) ordering 0 with
    | [] =>
      if is_exit_row row && existsb (fun r => in_scope r sc) ordering then Some (ZInf, true)
      else Some (ZFin 0, cd)
    | [k] =>
      if is_exit_row row then None else
      match nth_error ordering k with
      | Some r =>
        if o_rev r
        then (if negb cd && matches rmatch (o_pat r) row then Some (ZFin (Z.of_nat k), true) else Some (ZFin 0, cd))
        else Some (ZFin (Z.of_nat k), cd)
      | None => None
      end
    | _ => None
    end.

  (* the ordering rules a block hands to its children: the %global rules of the level and
     the children of the one ordinary rule that mentions the block's row, in rulebook order
     (None where the reference does not determine them) *)
  Definition globals_of (sc : option string) (l : list orule) : list orule :=
    filter (fun r => in_scope r sc && o_glob r) l.
  Definition ref_children (sc : option string) (ordering : list orule) (row : string) : option (list orule) :=
    if is_exit_row row then None else
    match index_where (hit_rule sc row) ordering 0 with
    | [] => Some (odict_of (globals_of sc ordering) [])
    | [k] =>
      match nth_error ordering k with
      | Some r =>
        if o_rev r then None
        else Some (odict_of (globals_of sc (firstn k ordering) ++ (if o_glob r then [r] else []) ++
                             o_kids r ++ globals_of sc (skipn (S k) ordering)) [])
      | None => None
      end
    | _ => None
    end.

  (* rank at every depth of a patch: each block's children are ranked by the rules handed down *)
  Fixpoint rank_ok_rec (ordering : list orule) (p : ptree) {struct p} : bool :=
    match p with
    | PT items =>
      forallb (fun i : item =>
                 rank_item_ok ordering i &&
                 match snd (fst i) with
                 | Some c =>
                   String.eqb (fst (fst i)) "commit" ||
                   match ref_children (Some "patch") ordering (fst (fst i)) with
                   | Some rb => rank_ok_rec rb c
                   | None => true
                   end
                 | None => true
                 end) items
    end.

  (* order_config: at every depth, the rows whose key the reference determines stand in
     the order of their reference keys ((+order | -order), direct) *)
  Variable reverse_prefix : string.
  Fixpoint sorted_cfg_keys (l : list (znum * bool)) : bool :=
    match l with
    | a :: ((b :: _) as r) => cfg_key_leb a b && sorted_cfg_keys r
    | _ => true
    end.
  Definition cfg_ref_key (ordering : list orule) (row : string) : option (znum * bool) :=
    match ref_rank None ordering row (negb (startswith reverse_prefix row)) with
    | Some x => Some (cfg_key (fst x) (snd x))
    | None => None
    end.
  Definition cfg_ref_keys (ordering : list orule) (f : forest) : list (znum * bool) :=
    flat_map (fun kv : string * tree =>
                match cfg_ref_key ordering (fst kv) with Some k => [k] | None => [] end) f.
  Fixpoint cfg_rank_sorted_t (ordering : list orule) (t : tree) {struct t} : bool :=
    match t with
    | T kids =>
      sorted_cfg_keys (cfg_ref_keys ordering kids) &&
      forallb (fun kv : string * tree =>
                 match ref_children None ordering (fst kv) with
                 | Some rb => cfg_rank_sorted_t rb (snd kv)
                 | None => true
                 end) kids
    end.
End RankSpec.

Definition rank_ok (v : vendor) (ordering : list orule) (p : ptree) : bool :=
  rank_ok_rec pm (prev v) (v_exit v) ordering p.
Definition cfg_rank_sorted (v : vendor) (ordering : list orule) (f : forest) : bool :=
  cfg_rank_sorted_t pm (prev v) (v_exit v) (v_reverse v) ordering (T f).

Definition with_patches (o : obs08) (f : ptree -> ptree -> bool) : bool :=
  match o8_sorted o, o8_unsorted o with
  | Some s, Some u => f s u
  | None, None => true
  | _, _ => false
  end.
Definition c8_sorted (o : obs08) := with_patches o (fun s _ => sorted_ok s).
Definition c8_stable_sort_of (o : obs08) := with_patches o is_stable_sort_of.
Definition c8_multiset (o : obs08) := with_patches o (fun s u => same_multiset (all_paths [] s) (all_paths [] u)).
Definition c8_rank (o : obs08) := with_patches o (fun s _ => rank_ok (o8_vendor o) (o8_ordering o) s).
Definition c8_cfg_perm (o : obs08) := unordered_eqb (o8_ordered o) (o8_cfg o).
Definition c8_cfg_idem (o : obs08) := forest_eqb (o8_twice o) (o8_ordered o).
Definition c8_cfg_unmentioned (o : obs08) :=
  unmentioned_stable (o8_vendor o) (o8_ordering o) (o8_cfg o) (o8_ordered o).
Definition c8_cfg_unmentioned_kind (o : obs08) :=
  unmentioned_stable_kind (o8_vendor o) (o8_ordering o) (o8_cfg o) (o8_ordered o).
Definition c8_neg_unmentioned (o : obs08) :=
  has_negated_unmentioned (o8_vendor o) (o8_ordering o) (o8_cfg o).
Definition c8_cfg_rank (o : obs08) := cfg_rank_sorted (o8_vendor o) (o8_ordering o) (o8_ordered o).
(* PatchTree.sort itself (stable, recursive), applied to the fully unsorted patch *)
Definition c8_resort (o : obs08) :=
  match o8_resorted o, o8_unsorted o with
  | Some r, Some u => sorted_ok r && is_stable_sort_of r u
  | None, None => true
  | _, _ => false
  end.
Definition c8_meta (o : obs08) :=
  match o8_meta o, o8_sorted o with
  | Some m, Some s => subseq (all_paths [] m) (all_paths [] s)
  | _, _ => true
  end.

(* the part of [c8_meta] that holds unconditionally: the smaller patch is sorted at every
   level and its paths are among those of the full patch -- so any difference in relative
   order is between commands whose sort keys tie (their order is the diff's, see the open
   finding about base_diff's positional indices) *)
Definition sub_multiset (a b : list (list string)) : bool :=
  forallb (fun x => Nat.leb (count_path x a) (count_path x b)) a.
Definition c8_meta_weak (o : obs08) :=
  match o8_meta o, o8_sorted o with
  | Some m, Some s => sorted_ok m && sub_multiset (all_paths [] m) (all_paths [] s)
  | _, _ => true
  end.

Definition P_C08 (o : obs08) : bool :=
  c8_sorted o && c8_stable_sort_of o && c8_multiset o && c8_rank o &&
  c8_cfg_perm o && c8_cfg_idem o && c8_cfg_unmentioned o && c8_cfg_unmentioned_kind o && c8_cfg_rank o && c8_resort o && c8_meta o && c8_meta_weak o.

Definition agree_order_config (o : obs08) : bool :=
  forest_eqb (p_order_config (o8_vendor o) (o8_ordering o) (o8_cfg o)) (o8_ordered o).

(* ---------- the unsorted patch: make_patch with PatchTree.sort() taken out ----------
   [patch_items] is the list make_patch builds before tree.sort(); Model.Patch.patch_level
   is, by conversion, "sort_items of patch_items" (OrderProofs.patch_level_items). *)
Section Unsorted.
  Variable rmatch : string -> string -> option (list string).
  Variable rsrc : string -> string.
  Variable rrev : string -> string.
  Variable block_exit : string.
  Variable rreverse : string -> list string -> string.

  Definition yield_step (ordering : list orule) (raw : string) (a : attrs)
             (acc2 : option (list item)) (y : bool * string * option (ckpre * bool)) : option (list item) :=
    let '(direct, row, sub) := y in
    match acc2 with
    | None => None
    | Some out2 =>
      let '(order, odirect, ord') := get_order rmatch rsrc rrev block_exit ordering row direct (Some "patch") in
      let children :=
          match sub with
          | Some (ch, true) => ch ord'
          | _ => POk (PT [])
          end in
      match children with
      | PErr => None
      | POk ct =>
        let sk : skey := (match order with ZFin z => ZFin (if odirect then z else Z.opp z) | ZInf => ZInf end,
                          raw, odirect) in
        let leaf := (match pitems ct with [] => negb (a_parent a) | _ => false end) || negb direct in
        let it := if leaf then (row, None, sk) else (row, Some ct, sk) in
        Some (out2 ++ it :: (if a_force_commit a then [("commit", None, sk)] else []))
      end
    end.

  Definition group_step (ordering : list orule) (acc : option (list item))
             (e : string * attrs * list string * list citem) : option (list item) :=
    let '(raw, a, key, its) := e in
    match acc with
    | None => None
    | Some out =>
      match run_logic rreverse (a_pat a) key (a_logic a) its with
      | None => None
      | Some ys => fold_left (yield_step ordering raw a) ys (Some out)
      end
    end.

  Definition flat_groups (groups : list (string * attrs * list (list string * list citem)))
    : list (string * attrs * list string * list citem) :=
    flat_map (fun g => let '(raw, a, ks) := g in map (fun k => (raw, a, fst k, snd k)) ks) groups.

  Definition patch_items (groups : list (string * attrs * list (list string * list citem)))
             (ordering : list orule) : option (list item) :=
    fold_left (group_step ordering) (flat_groups groups) (Some []).

  Definition patch_level_u (groups : list (string * attrs * list (list string * list citem)))
             (ordering : list orule) : presult :=
    match patch_items groups ordering with
    | None => PErr
    | Some out => POk (PT out)
    end.

  Definition close_groups (mk : pre -> ckpre) (groups : list pgroup)
    : list (string * attrs * list (list string * list citem)) :=
    map (fun g : pgroup =>
           let '(raw, a, ks) := g in
           (raw, a, map (fun k : list string * list pitem =>
                           (fst k, map (fun it : pitem =>
                                          let '(o, row, ch) := it in
                                          (o, row, mk ch,
                                           match pgroups ch with [] => false | _ => true end)) (snd k))) ks))
        groups.

  Fixpoint make_patch_u (p : pre) : list orule -> presult :=
    match p with
    | Pre groups =>
      patch_level_u
        (map (fun g : pgroup =>
                let '(raw, a, ks) := g in
                (raw, a, map (fun k : list string * list pitem =>
                                (fst k, map (fun it : pitem =>
                                               let '(o, row, ch) := it in
                                               (o, row, make_patch_u ch,
                                                match pgroups ch with [] => false | _ => true end)) (snd k))) ks))
             groups)
    end.
End Unsorted.

Definition p_make_patch_u (v : vendor) (ordering : list orule) (p : pre) : presult :=
  make_patch_u pm psrc (prev v) (v_exit v) (prreverse v) p ordering.

(* the unsorted patch of the model for one pipeline case *)
Definition model_patch_unsorted (c : pcase) : presult :=
  p_make_patch_u (pc_vendor c) (pc_ordering c) (make_pre (p_make_diff (pc_rules c) (pc_old c) (pc_new c))).

Definition remove_row (r : string) (f : forest) : forest :=
  filter (fun kv : string * tree => negb (String.eqb (fst kv) r)) f.

Definition agree_unsorted (c : pcase) (o : obs08) : bool :=
  match model_patch_unsorted c, o8_unsorted o with
  | POk a, Some b => ptree_eqb a b
  | PErr, None => true
  | _, _ => false
  end.

(* all three agreements at once (the diff and pre are computed once): stage 1 of the check *)
Definition agree_all (c : pcase) (o : obs08) : bool :=
  let pre := make_pre (p_make_diff (pc_rules c) (pc_old c) (pc_new c)) in
  match p_make_patch (pc_vendor c) (pc_ordering c) pre, pc_patch c with
  | POk a, Some b => ptree_eqb a b
  | PErr, None => true
  | _, _ => false
  end &&
  match p_make_patch_u (pc_vendor c) (pc_ordering c) pre, o8_unsorted o with
  | POk a, Some b => ptree_eqb a b
  | PErr, None => true
  | _, _ => false
  end &&
  agree_order_config o.
