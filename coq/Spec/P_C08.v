(* C08: ordering follows the ordering rulebook and only permutes lines. *)
From Coq Require Import List String Ascii Bool Arith ZArith.
From Annet Require Import Base.Str Base.Tree Model.Pattern Model.Rulebook Model.Diff Model.Order
     Model.Patch Model.Blocks Model.Pipeline Spec.PipelineCase Spec.P_C03.
Import ListNotations.
Open Scope string_scope.
Open Scope list_scope.

Record obs08 := Obs08 {
  o8_vendor : vendor;
  o8_ordering : list orule;
  o8_sorted : option ptree;               (* make_patch(...) as returned, with sort keys *)
  o8_unsorted : option ptree;             (* the same with PatchTree.sort disabled *)
  o8_cfg : forest;                        (* a config tree *)
  o8_ordered : forest;                    (* Orderer.order_config(cfg) *)
  o8_twice : forest;                      (* order_config applied to its own output *)
  o8_paths : list (list string);          (* cmd_paths of the patch *)
  o8_meta : option ptree                  (* the patch after removing one unrelated top-level row from old and new *)
}.

Definition item := (string * option ptree * skey)%type.
Definition ikey (i : item) : skey := snd i.

(* every level sorted by its sort keys *)
Fixpoint sorted_keys (l : list skey) : bool :=
  match l with
  | a :: ((b :: _) as r) => skey_leb a b && sorted_keys r
  | _ => true
  end.
Fixpoint sorted_ok (p : ptree) : bool :=
  match p with
  | PT items =>
    sorted_keys (map (fun i : item => snd i) items) &&
    forallb (fun i : item => match snd (fst i) with Some c => sorted_ok c | None => true end) items
  end.

(* the reference: stable sort by the reported keys, at every level *)
Fixpoint sort_rec (p : ptree) : ptree :=
  match p with
  | PT items =>
    PT (stable_sort (fun a b : item => skey_leb (snd a) (snd b))
                    (map (fun i : item => (fst (fst i), option_map sort_rec (snd (fst i)), snd i)) items))
  end.

Definition is_stable_sort_of (sorted unsorted : ptree) : bool := ptree_eqb (sort_rec unsorted) sorted.

(* multiset of root-to-node paths *)
Fixpoint all_paths (pre : list string) (p : ptree) : list (list string) :=
  match p with
  | PT items =>
    flat_map (fun i : item =>
                (pre ++ [fst (fst i)]) ::
                match snd (fst i) with Some c => all_paths (pre ++ [fst (fst i)]) c | None => [] end) items
  end.
Definition count_path (x : list string) (l : list (list string)) : nat :=
  List.length (filter (list_str_eqb x) l).
Definition same_multiset (a b : list (list string)) : bool :=
  Nat.eqb (List.length a) (List.length b) &&
  forallb (fun x => Nat.eqb (count_path x a) (count_path x b)) a.

Fixpoint subseq (a b : list (list string)) : bool :=   (* a is a subsequence of b *)
  match a, b with
  | [], _ => true
  | _ :: _, [] => false
  | x :: a', y :: b' => if list_str_eqb x y then subseq a' b' else subseq a b'
  end.

(* order_config: rows no ordering rule of the level mentions (neither directly nor in
   reverse form, and not the exit word) keep their relative order *)
Definition mentioned (v : vendor) (ordering : list orule) (row : string) : bool :=
  existsb (fun r => in_scope r None &&
                    (matches pm (o_pat r) row || matches pm (prev v (o_pat r)) row)) ordering ||
  (negb (is_empty (v_exit v)) && String.eqb (v_exit v) row && negb (match ordering with [] => true | _ => false end)).

Definition unmentioned_stable (v : vendor) (ordering : list orule) (cfg ordered : forest) : bool :=
  let un := fun kv : string * tree => negb (mentioned v ordering (fst kv)) in
  list_str_eqb (map fst (filter un cfg)) (map fst (filter un ordered)).

(* rank: a top-level command matched directly by exactly one in-scope, non-%order_reverse
   ordering rule (and by none in reverse form) carries that rule's index *)
Fixpoint index_where {A} (f : A -> bool) (l : list A) (i : nat) : list nat :=
  match l with [] => [] | x :: t => (if f x then [i] else []) ++ index_where f t (S i) end.
Definition rank_ok (v : vendor) (ordering : list orule) (p : ptree) : bool :=
  forallb (fun i : item =>
             let row := fst (fst i) in
             let direct_hits := index_where (fun r => in_scope r (Some "patch") && matches pm (o_pat r) row) ordering 0 in
             let rev_hits := index_where (fun r => in_scope r (Some "patch") && matches pm (prev v (o_pat r)) row) ordering 0 in
             let any_rev_flag := existsb (fun r => o_rev r && in_scope r (Some "patch") && matches pm (o_pat r) row) ordering in
             match direct_hits, rev_hits, any_rev_flag, snd i with
             | [k], [], false, (n, _, d) =>
               (* the "commit" pseudo-command of %force_commit inherits its rule's key *)
               String.eqb row "commit" || negb d || match n with ZFin z => Z.eqb z (Z.of_nat k) | ZInf => String.eqb row (v_exit v) end
             | _, _, _, _ => true
             end) (pitems p).

Definition with_patches (o : obs08) (f : ptree -> ptree -> bool) : bool :=
  match o8_sorted o, o8_unsorted o with
  | Some s, Some u => f s u
  | None, None => true
  | _, _ => false
  end.
Definition c8_sorted (o : obs08) := with_patches o (fun s _ => sorted_ok s).
Definition c8_stable_sort_of (o : obs08) := with_patches o is_stable_sort_of.
Definition c8_multiset (o : obs08) := with_patches o (fun s u => same_multiset (all_paths [] s) (all_paths [] u)).
Definition c8_rank (o : obs08) := with_patches o (fun s _ => rank_ok (o8_vendor o) (o8_ordering o) s).
Definition c8_cfg_perm (o : obs08) := unordered_eqb (o8_ordered o) (o8_cfg o).
Definition c8_cfg_idem (o : obs08) := forest_eqb (o8_twice o) (o8_ordered o).
Definition c8_cfg_unmentioned (o : obs08) :=
  unmentioned_stable (o8_vendor o) (o8_ordering o) (o8_cfg o) (o8_ordered o).
Definition c8_meta (o : obs08) :=
  match o8_meta o, o8_sorted o with
  | Some m, Some s => subseq (all_paths [] m) (all_paths [] s)
  | _, _ => true
  end.

Definition P_C08 (o : obs08) : bool :=
  c8_sorted o && c8_stable_sort_of o && c8_multiset o && c8_rank o &&
  c8_cfg_perm o && c8_cfg_idem o && c8_cfg_unmentioned o && c8_meta o.

Definition agree_order_config (o : obs08) : bool :=
  forest_eqb (p_order_config (o8_vendor o) (o8_ordering o) (o8_cfg o)) (o8_ordered o).
