(* C10: the tree clause with the device vendor's own formatter.split in the parse step
   (Model/GenProgV.v): which programs the split leaves alone, and the predicate evaluated on the real
   outputs of every plain-family vendor. *)
From Coq Require Import List String Ascii Bool Arith.
From Annet Require Import Base.Str Base.Tree Model.Offside Model.GenProg Gen.Src_vendors Model.Join Model.GenProgV.
From Annet Require Import Spec.P_C05 Spec.P_C10 Spec.P_C10b.
Import ListNotations.
Open Scope string_scope.
Open Scope list_scope.

(* no emitted line is touched by the vendor's split (empty lines are dropped by every split) *)
Definition split_neutral (sk : splitk) (p : prog) : bool :=
  forallb (fun cr : crow => line_empty cr || line_neutral sk (spaces (fst cr) ++ snd cr)%string) (prog_rows p).

(* on the output of _run_partial_generator(use_acl=False) for a device of vendor `name`: when the split is
   neutral on the program the outcome is the layer-1 outcome, and inside wfx_prog it is tree_of' *)
Definition P_C10_vendor (name : string) (p : prog) (out : gres) : bool :=
  match vendor_splitk name with
  | Some sk => if split_neutral sk p then P_C10_items p out && P_C10_tree' p out else true
  | None => false
  end.
