(* C08 on the SHIPPED ordering rulebooks: what is evaluated on a real patch computed with get_rulebook(hw).

   The ordering rulebook the patch is judged against is the one Coq parses from the RAW lines of the shipped
   *.order text (Gen/Src_rules.v, Model/ShippedText.v) - not the rulebook the code under test compiled - with the
   rule matcher of the second language extension (P_Shipped.ym).

   Clauses, at every depth (children under the rules handed down, P_C08.ref_children):
   - rank: P_C08.rank_ok_rec (the row is mentioned by no rule / by exactly one rule);
   - pin:  "except where the rulebook pins a negated command to an explicit position".  A row is PINNED at k when
           exactly one %order_reverse rule (index k, in scope) matches it directly and no ordinary rule mentions it
           through a regexp of greater weight (the usual pair  `X *` ... `undo X * %order_reverse`: the negated form
           of the first IS the second, the weights tie; a catch-all `~` weighs less): Orderer.get_order then gives a
           removal the key (+k, direct) (Proofs/OrderPin.v, C08_rank_pinned).  The clause asks exactly that of every
           removal command so pinned.  Weights are computed from the regexp sources of the pattern model (ysrc).
   A patch item is read as a removal command when its row starts with the negation word and neither old nor new
   holds such a row anywhere (neg_free, evaluated by Coq): direct commands are rows of new.
   Levels whose rules are not all inside the modelled rule language are skipped (counted by the harness). *)
From Coq Require Import List String Ascii Bool Arith ZArith.
From Annet Require Import Base.Str Base.Tree Model.Pattern Model.Rulebook Model.Order Model.Patch Model.ShippedText
     Spec.P_C08 Spec.P_Shipped Gen.Src_rules.
Import ListNotations.
Open Scope string_scope.
Open Scope list_scope.

Section PinSpec.
  Variable rmatch : string -> string -> option (list string).
  Variable rsrc : string -> string.
  Variable rrev : string -> string.
  Variable block_exit : string.

  Definition pin_hit (sc : option string) (row : string) (r : orule) : bool :=
    in_scope r sc && o_rev r && matches rmatch (o_pat r) row.

  (* an ordinary rule in scope either does not mention the row, or the regexp through which it does (direct form
     first, as in get_order) has a known source whose weight - the number of distinct characters of the row that
     occur in it, Order.shared_chars - does not exceed w *)
  Definition pin_compatible (sc : option string) (row : string) (w : nat) (r : orule) : bool :=
    negb (in_scope r sc) || o_rev r ||
    let dm := matches rmatch (o_pat r) row in
    if dm || matches rmatch (rrev (o_pat r)) row
    then let src := rsrc (if dm then o_pat r else rrev (o_pat r)) in
         negb (is_empty src) && Nat.leb (shared_chars row src) w
    else true.

  (* (redundant with the uniqueness of k; kept as a computed check: it makes the statement of C08_rank_pinned
     independent of list positions) a %order_reverse rule matching the row directly has weight w *)
  Definition pin_weight_is (sc : option string) (row : string) (w : nat) (r : orule) : bool :=
    negb (pin_hit sc row r) || Nat.eqb (shared_chars row (rsrc (o_pat r))) w.

  Definition pin_of (sc : option string) (ordering : list orule) (row : string) : option nat :=
    match index_where (pin_hit sc row) ordering 0 with
    | [k] =>
      match nth_error ordering k with
      | Some rk =>
        if negb (is_empty (rsrc (o_pat rk))) &&
           forallb (pin_compatible sc row (shared_chars row (rsrc (o_pat rk)))) ordering &&
           forallb (pin_weight_is sc row (shared_chars row (rsrc (o_pat rk)))) ordering &&
           negb (is_exit_row block_exit row)
        then Some k else None
      | None => None
      end
    | _ => None
    end.

  Variable is_removal : string -> bool.

  Definition pin_item_ok (ordering : list orule) (i : item) : bool :=
    let row := fst (fst i) in
    match pin_of (Some "patch") ordering row with
    | Some k => negb (is_removal row) ||
                (znum_eqb (fst (fst (snd i))) (ZFin (Z.of_nat k)) && snd (snd i))
    | None => true
    end.

  Variable modelled : list orule -> string -> bool.

  Fixpoint pin_ok_rec (ordering : list orule) (p : ptree) {struct p} : bool :=
    match p with
    | PT items =>
      forallb (fun i : item =>
                 (negb (modelled ordering (fst (fst i))) || pin_item_ok ordering i) &&
                 match snd (fst i) with
                 | Some c =>
                   String.eqb (fst (fst i)) "commit" ||
                   match ref_children rmatch rrev block_exit (Some "patch") ordering (fst (fst i)) with
                   | Some rb => pin_ok_rec rb c
                   | None => true
                   end
                 | None => true
                 end) items
    end.

  (* P_C08.rank_ok_rec restricted to the levels whose rules are all modelled *)
  Fixpoint rank_ok_rec_m (ordering : list orule) (p : ptree) {struct p} : bool :=
    match p with
    | PT items =>
      forallb (fun i : item =>
                 (negb (modelled ordering (fst (fst i))) || rank_item_ok rmatch rrev block_exit ordering i) &&
                 match snd (fst i) with
                 | Some c =>
                   String.eqb (fst (fst i)) "commit" ||
                   match ref_children rmatch rrev block_exit (Some "patch") ordering (fst (fst i)) with
                   | Some rb => rank_ok_rec_m rb c
                   | None => true
                   end
                 | None => true
                 end) items
    end.

  (* how many items the pin clause really constrains (evidence) *)
  Fixpoint pinned_count (ordering : list orule) (p : ptree) {struct p} : nat :=
    match p with
    | PT items =>
      fold_right (fun (i : item) acc =>
                    (if modelled ordering (fst (fst i)) && is_removal (fst (fst i)) &&
                        match pin_of (Some "patch") ordering (fst (fst i)) with Some _ => true | None => false end
                     then 1 else 0) +
                    match snd (fst i) with
                    | Some c =>
                      match ref_children rmatch rrev block_exit (Some "patch") ordering (fst (fst i)) with
                      | Some rb => pinned_count rb c
                      | None => 0
                      end
                    | None => 0
                    end + acc) 0 items
    end.
End PinSpec.

(* no row, at any depth, starts with the negation word *)
Fixpoint neg_free_t (w : string) (t : tree) : bool :=
  match t with
  | T k => (fix go (l : forest) : bool :=
              match l with
              | [] => true
              | (r, c) :: l' => negb (startswith w r) && neg_free_t w c && go l'
              end) k
  end.
Definition neg_free (prefix : string) (f : forest) : bool := neg_free_t (prefix ++ " ") (T f).

Definition h_rrev (h : shw) (pat : string) : string := reverse_row pat (sh_reverse h).
(* A rule outside the modelled rule language cannot be asked whether it mentions a row.  It certainly does not
   when its first word w is a plain literal word (every compiled rule regexp starts `^w\s+...`, the reverse form
   `^<negation>\s+w...`) and the row starts neither with w nor with the negation word followed by w (w: the first word after the
   rule's own negation word, if it has one). *)
Definition plain_char (c : ascii) : bool :=
  let n := nat_of_ascii c in
  (Nat.leb 48 n && Nat.leb n 57) || (Nat.leb 65 n && Nat.leb n 90) || (Nat.leb 97 n && Nat.leb n 122) ||
  Ascii.eqb c "-"%char || Ascii.eqb c "_"%char.
Fixpoint plain_word (s : string) : bool :=
  match s with EmptyString => true | String c r => plain_char c && plain_word r end.
Definition unrelated_lit (prefix pat row : string) : bool :=
  match (match words pat with w :: r => if String.eqb w prefix then hd_error r else Some w | [] => None end),
        words row with
  | Some x, a :: rest =>
    (* the two forms of the rule read `x ...` and `<negation> x ...` *)
    negb (is_empty x) && plain_word x && negb (String.eqb a x) &&
    (negb (String.eqb a prefix) || match rest with b :: _ => negb (String.eqb b x) | [] => true end)
  | _, _ => false
  end.
Definition level_modelled (h : shw) (ordering : list orule) (row : string) : bool :=
  forallb (fun r => (pat_ok (o_pat r) && pat_ok (h_rrev h (o_pat r))) || unrelated_lit (sh_reverse h) (o_pat r) row) ordering.

(* one observed shipped run: hardware string, old, new, the real patch (None: a logic raised) *)
Record obs08s := Obs08s { s8_hw : string; s8_old : forest; s8_new : forest; s8_patch : option ptree }.

(* flags: hardware known and its ordering text parsed; inputs free of negated rows; the patch was computed;
   every level sorted by its keys; rank clause; pin clause *)
Definition c8s_flags (o : obs08s) : list bool :=
  match find_hw (s8_hw o) with
  | Some h =>
    match shipped_ordering h with
    | Some ord =>
      let nf := neg_free (sh_reverse h) (s8_old o) && neg_free (sh_reverse h) (s8_new o) in
      match s8_patch o with
      | Some p =>
        [true; nf; true; sorted_ok p;
         rank_ok_rec_m ym (h_rrev h) (sh_exit h) (level_modelled h) ord p;
         pin_ok_rec ym ysrc (h_rrev h) (sh_exit h) (startswith (sh_reverse h ++ " ")) (level_modelled h) ord p]
      | None => [true; nf; false; true; true; true]
      end
    | None => [false; false; false; false; false; false]
    end
  | None => [false; false; false; false; false; false]
  end.

Definition c8s_pinned (o : obs08s) : nat :=
  match find_hw (s8_hw o), s8_patch o with
  | Some h, Some p =>
    match shipped_ordering h with
    | Some ord => pinned_count ym ysrc (h_rrev h) (sh_exit h) (startswith (sh_reverse h ++ " ")) (level_modelled h) ord p
    | None => 0
    end
  | _, _ => 0
  end.

(* the predicate: on inputs without negated rows, a computed patch is sorted and satisfies rank and pin *)
Definition holds_of_flags (fl : list bool) : bool :=
  match fl with
  | [parsed; nf; computed; srt; rk; pin] => parsed && (negb nf || negb computed || (srt && rk && pin))
  | _ => false
  end.
Definition P_C08s (o : obs08s) : bool := holds_of_flags (c8s_flags o).

(* evaluated once per observed run: the verdict, the flags it is made of, and how many items the pin clause
   constrains *)
Definition c8s_report (o : obs08s) : bool * list bool * nat :=
  let fl := c8s_flags o in (holds_of_flags fl, fl, c8s_pinned o).
