(* C18: declarative references and the property predicate. *)
From Coq Require Import List String Bool Arith.
From Annet Require Import Base.Str Model.HwDb.
Import ListNotations.
Open Scope string_scope.
Open Scope list_scope.

(* ---- hierarchy ------------------------------------------------------------------- *)

(* reference meaning of "the family s is true for model m": every step of its chain
   s[:1], s[:2], ..., s is a database entry whose regex is found in the model string *)
Definition chain_hits (M : Type) (hit : rid -> M -> bool) (d : db) (m : M) (s : seq) : bool :=
  forallb (fun p => match lookup p d with Some r => hit r m | None => false end) (seq_subs s).

(* "a specific family being true implies each of its ancestors is true": every true
   sequence that is a database entry (a full family path) has all its prefixes true *)
Definition hier_ok (ks : list seq) (tr : list seq) : bool :=
  forallb (fun s => negb (mem s ks) || forallb (fun p => mem p tr) (seq_subs s)) tr.

(* the same for the short forms (hw.CE6870, hw.Cisco.N9316 ...): no ancestor attribute of
   a true attribute path evaluates to False (it is true, or not an attribute at all) *)
Definition hier_short_ok (all tr : list seq) : bool :=
  forallb (fun s => forallb (fun p => mem p tr || negb (mem p all)) (seq_subs s)) tr.

(* computable condition on a database under which the hierarchy theorem is proved *)
Definition rpath (d : db) (s : seq) : option (list rid) :=
  sequence (map (fun p => lookup p d) (seq_subs s)).

Definition rids_eqb (a b : list rid) : bool :=
  Nat.eqb (List.length a) (List.length b) && forallb (fun p => Nat.eqb (fst p) (snd p)) (combine a b).

Definition db_ok (d : db) : bool :=
  let ks := keys d in
  let allv := all_variants d in
  (* keys are non-empty and every prefix of a key is a key (no KeyError in _build_tree) *)
  forallb (fun s => negb (seq_eqb s []) && forallb (fun p => mem p ks) (seq_subs s)) ks
  (* the full name of every entry is usable: it is a variant of no other entry *)
  && forallb (fun s => mem s (allowed_of allv s)) ks
  (* two different entries never share a tree node: their chains of regexes differ
     (no two children of one parent carry the same regex source) *)
  && (let rps := map (fun s => (s, rpath d s)) ks in
      forallb (fun a => forallb (fun b =>
        seq_eqb (fst a) (fst b) || match snd a, snd b with
                                   | Some x, Some y => negb (rids_eqb x y)
                                   | _, _ => false
                                   end) rps) rps).

(* ---- vendor choice ---------------------------------------------------------------- *)

Definition maxdots (l : list (string * nat)) : nat := fold_right (fun x a => Nat.max (snd x) a) 0 l.

(* all matches with the maximal number of dots belong to one vendor *)
Definition no_tie (l : list (string * nat)) : bool :=
  let mx := maxdots l in
  forallb (fun x => forallb (fun y =>
     negb (Nat.eqb (snd x) mx && Nat.eqb (snd y) mx) || String.eqb (fst x) (fst y)) l) l.

(* reference: a vendor holding a match with the maximal number of dots *)
Definition spec_vendor (l : list (string * nat)) : option string :=
  option_map fst (find (fun x => Nat.eqb (snd x) (maxdots l)) l).

Definition vendor_ok (tr all : list seq) (vs : vendors) (v : vres) : bool :=
  negb (match_err tr all vs) &&
  let l := matched tr all vs in
  no_tie l &&
  match spec_vendor l with
  | Some n => vres_eqb v (VName n)
  | None => false                       (* a covered model resolves to a vendor *)
  end.

(* ---- what is observed on one run of the real code --------------------------------- *)

Record obs := Obs {
  o_true : option (list seq); (* parse_hw_model(model)[0]; None = HardwareView(model) raised *)
  o_vendor : vres;            (* HardwareView(model).vendor *)
  o_perm : list vres;         (* the same under permuted vendor registration *)
  o_loaded : bool;            (* get_rulebook(hw) returned (rendered, parsed, compiled) *)
  o_logic : bool;             (* every logic / diff_logic / apply_logic is a resolved callable *)
  o_regex : bool;             (* every row regexp is a compiled pattern *)
  o_digest : list string      (* canonical digests of the rulebook: two fresh providers (caches cleared), the public
                                 get_rulebook, and - after real patch operations with a non-empty RefTracker for that
                                 hardware in the same process - the public get_rulebook and a brand new provider again *)
}.

Definition all_same (l : list string) : bool :=
  match l with
  | [] => false
  | x :: r => forallb (String.eqb x) r
  end.

Definition runtime_ok (y : obs) : bool :=
  o_loaded y && o_logic y && o_regex y && all_same (o_digest y).

(* P_C18 ks all vs y: the observation y satisfies the property, for the database whose keys
   are ks and usable sequences are all, and the registry vs.  A model not covered by the
   database (no true sequence) is outside the property; a model for which the hardware view
   cannot even be built violates it. *)
Definition P_C18 (ks all : list seq) (vs : vendors) (y : obs) : bool :=
  match o_true y with
  | None => false
  | Some [] => true
  | Some tr =>
    hier_ok ks tr && hier_short_ok all tr
    && vendor_ok tr all vs (o_vendor y)
    && forallb (vres_eqb (o_vendor y)) (o_perm y)
    && runtime_ok y
  end.

(* the part of P_C18 a model can be proved to satisfy (no Python runtime involved) *)
Definition P_C18_static (ks all : list seq) (vs : vendors) (tr : list seq) (v : vres) : bool :=
  hier_ok ks tr && vendor_ok tr all vs v.

(* set equality of sequence lists (true_sequences is a set) *)
Definition set_eqb (a b : list seq) : bool :=
  forallb (fun x => mem x b) a && forallb (fun x => mem x a) b.

(* ---- the families reported true are exactly those the regexes say (added for seeded C18-5) ---- *)

(* "the hardware attributes of a model": a database entry (family path) s is reported true
   EXACTLY when each step of its chain of regexes is found in the model string - neither more
   (a leaf true without its parents) nor less (a sibling family skipped because another
   sibling matched first).  ks = keys of the database, tr = the true sequences reported. *)
Definition chain_ok (M : Type) (hit : rid -> M -> bool) (d : db) (m : M) (ks tr : list seq) : bool :=
  forallb (fun s => Bool.eqb (mem s tr) (chain_hits M hit d m s)) ks.

(* P_C18 with the clause above; hits = the regex ids found in the model string *)
Definition P_C18_full (M : Type) (hit : rid -> M -> bool) (d : db) (ks all : list seq) (vs : vendors)
           (m : M) (y : obs) : bool :=
  P_C18 ks all vs y &&
  match o_true y with
  | Some tr => chain_ok M hit d m ks tr
  | None => false
  end.
