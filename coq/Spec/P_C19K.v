(* C19 for generators that may not produce a result (Model/FilesKinds.v).
   Declarative reference: the generators that PRODUCED a result are picked by a filter, the
   property is P_C19 (Spec/P_C19.v, unchanged) over exactly those; the run fails iff some
   generator supporting the device returns nothing from run().  Nothing here follows the loop. *)
From Coq Require Import List String Ascii Bool Arith ZArith.
From Annet Require Import Base.Str Model.Files Model.FilesKinds Spec.P_C19.
Import ListNotations.
Open Scope string_scope.
Open Scope list_scope.

(* the generator yields a result for the device *)
Definition produces (k : kgen) : bool :=
  match k_kind k with KOk => negb (is_empty (g_path (k_gen k))) | _ => false end.

(* the generator is broken for the device: it supports it and run() returns None *)
Definition fails (k : kgen) : bool :=
  match k_kind k with KNone => negb (is_empty (g_path (k_gen k))) | _ => false end.

Definition produced (ks : list kgen) : list gen := map k_gen (filter produces ks).

(* the input of P_C19 that stands for x: only the producing generators are listed *)
Definition eff (x : kinput) : input :=
  In_ (produced (ki_gens x)) (ki_etck x) (ki_safe x) (ki_old x) (ki_mode x).

(* distinct priorities are required among the generators that produced a result only *)
Definition wf_C19K (x : kinput) : bool := distinct_prios (produced (ki_gens x)).

Definition P_C19K (x : kinput) (y : option output) : bool :=
  match y with
  | None => existsb fails (ki_gens x)
  | Some o => negb (existsb fails (ki_gens x)) && P_C19 (eff x) o
  end.

(* labels of the violated clauses (names the class of a failing case; the verdict is P_C19K) *)
Definition sigs_C19K (x : kinput) (y : option output) : list string :=
  match y with
  | None => if existsb fails (ki_gens x) then [] else ["run-failed/no-broken-generator"]
  | Some o => if existsb fails (ki_gens x) then ["run-none/not-reported"] else sigs_C19 (eff x) o
  end.

Definition ksig_codes (names : list string) (x : kinput) (y : option output) : list nat :=
  map (fun s => index_of s names O) (sigs_C19K x y).

(* embedding of the inputs of Model/Files.v: every generator renders *)
Definition all_ok (gens : list gen) : list kgen := map (fun g => KGen g KOk) gens.
Definition k_of (x : input) : kinput :=
  KIn (all_ok (i_gens x)) (i_etck x) (i_safe x) (i_old x) (i_mode x).
