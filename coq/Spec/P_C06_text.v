(* C06, text front end: the case type of the correspondence run on ACL TEXTS and its predicates. *)
From Coq Require Import List String Ascii Bool Arith.
From Annet Require Import Base.Str Base.Tree Model.Offside Model.Pattern Model.Acl Model.AclText.
Import ListNotations.
Open Scope string_scope.
Open Scope list_scope.

(* text : the ACL text handed to the real compile_acl_text
   src  : the structured ACL the text was printed from, when the printing keeps the lines' keys
          (harness/aclgen.py acl_text, or the same lines with other indentation units, blank lines,
          comments, trailing blanks)
   out  : what the real compile_acl_text returned (structure of the compiled rules, or the exception) *)
Inductive ctcase := CT (text : string) (src : option acl) (out : terr + aset).

Definition ct_text (c : ctcase) := match c with CT t _ _ => t end.
Definition ct_src (c : ctcase) := match c with CT _ s _ => s end.
Definition ct_out (c : ctcase) := match c with CT _ _ o => o end.

Definition no_vendor : avendor := AVendor "" false.

(* compile_acl (Model/Acl.v) as an outcome of compile_acl_text *)
Definition structured_outcome (a : acl) : terr + aset :=
  match compile_acl a with Some rs => inr rs | None => inl ENotImpl end.

(* model == implementation *)
Definition agree_text (c : ctcase) : bool := tres_eqb (compile_acl_text (ct_text c) no_vendor) (ct_out c).

(* the real compile_acl_text of a printed structured ACL is the structured compile_acl of it
   (what every C06 theorem about structured ACLs is read through) *)
Definition holds_text (c : ctcase) : bool :=
  match ct_src c with
  | Some a => tres_eqb (structured_outcome a) (ct_out c)
  | None => true
  end.
