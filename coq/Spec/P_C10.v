(* C10: declarative reference for "every yielded line appears once under the block path it was
   yielded in, and nothing else appears", the union over generators, and the property
   predicates evaluated on the implementation's outputs. *)
From Coq Require Import List String Ascii Bool Arith.
From Annet Require Import Base.Str Base.Tree Model.Offside Model.GenProg.
Import ListNotations.
Open Scope string_scope.
Open Scope list_scope.

(* ---------- the yielded paths of a program ---------- *)

(* the configuration line a raw row stands for *)
Definition key_of (row : string) : string := strip row.

(* a yield hands over one text; its lines are what _split_and_strip makes of it (the text itself,
   or the dedented lines of a multi-line text); each line is yielded at the current block path *)
Definition ypaths_text (bp : list string) (t : string) : list (list string) :=
  map (fun r => bp ++ [key_of r]) (split_and_strip t).

Definition ypaths_yield (bp : list string) (v : yval) : list (list string) :=
  match ytext v with inr t => ypaths_text bp t | inl _ => [] end.

(* `with block(tokens): body`: the block line at the current path, the body below it *)
Definition sp_block (bp : list string) (toks : list tok) (body : list string -> list (list string))
  : list (list string) :=
  match join_toks toks with
  | inr b => let p := bp ++ [key_of (last (split_and_strip b) EmptyString)] in
             ypaths_text bp b ++ body p
  | inl _ => []
  end.

Fixpoint sp_multiblock (bp : list string) (blocks : list mblk) (body : list string -> list (list string))
  : list (list string) :=
  match blocks with
  | [] => body bp
  | b :: r => sp_block bp (mblk_toks b) (fun bp' => sp_multiblock bp' r body)
  end.

Fixpoint ypaths (bp : list string) (s : stmt) {struct s} : list (list string) :=
  match s with
  | Yield v => ypaths_yield bp v
  | Block toks _ body => sp_block bp toks (fun bp' => flat_map (ypaths bp') body)
  | BlockIf toks cond body =>
    if block_if_cond toks cond then sp_block bp toks (fun bp' => flat_map (ypaths bp') body)
    else flat_map (ypaths bp) body
  | MultiBlock blocks body => sp_multiblock bp blocks (fun bp' => flat_map (ypaths bp') body)
  | MultiBlockIf blocks cond body =>
    if multiblock_if_cond blocks cond then sp_multiblock bp blocks (fun bp' => flat_map (ypaths bp') body)
    else flat_map (ypaths bp) body
  end.

Definition prog_paths (p : prog) : list (list string) := flat_map (ypaths []) p.

(* the configuration a program stands for: its yielded paths as a set of paths, kept as an
   ordered dict of ordered dicts in first-seen order (a repeated line is one line) *)
Definition tree_of (p : prog) : forest := insall (prog_paths p) [].

(* ---------- programs whose rows are plain configuration lines ---------- *)

(* a raw row is a plain line: not indented by itself, not blank, not a comment for the parser
   ("!" / "#"), and free of the word None (which PartialGenerator refuses) *)
Definition wf_row (r : string) : bool :=
  Nat.eqb (parse_indent r) 0 && negb (is_empty (strip r)) &&
  negb (startswith "!" (strip r)) && negb (startswith "#" (strip r)) &&
  negb (has_none_word r).

Definition wf_text (t : string) : bool := forallb wf_row (split_and_strip t).

(* a block header is one plain line *)
Definition wf_block_text (t : string) : bool :=
  match split_and_strip t with [r] => wf_row r | _ => false end.

Definition wf_toks (toks : list tok) : bool :=
  match join_toks toks with inr b => wf_block_text b | inl _ => false end.

Definition wf_indent (i : option nat) : bool :=
  match i with Some O => false | _ => true end.

Fixpoint wf_stmt (s : stmt) {struct s} : bool :=
  match s with
  | Yield v => match ytext v with inr t => wf_text t | inl _ => false end
  | Block toks ind body => wf_toks toks && wf_indent ind && forallb wf_stmt body
  | BlockIf toks cond body =>
    (if block_if_cond toks cond then wf_toks toks else true) && forallb wf_stmt body
  | MultiBlock blocks body => forallb (fun b => wf_toks (mblk_toks b)) blocks && forallb wf_stmt body
  | MultiBlockIf blocks cond body =>
    (if multiblock_if_cond blocks cond then forallb (fun b => wf_toks (mblk_toks b)) blocks else true)
    && forallb wf_stmt body
  end.

Definition wf_prog (p : prog) : bool := forallb wf_stmt p.

(* ---------- membership of a path in a tree ---------- *)

Fixpoint mem_path (p : list string) (f : forest) {struct p} : bool :=
  match p with
  | [] => true
  | k :: p' => match lookup k f with Some (T c) => mem_path p' c | None => false end
  end.

(* ---------- predicates on observed outputs ---------- *)

(* without ACL: a program of plain rows gives exactly its tree *)
Definition P_C10_tree (p : prog) (out : gres) : bool :=
  if wf_prog p then gres_eqb out (GOk (tree_of p)) else true.

(* config_tree() over the generators' (ACL-filtered) configs is their union in first-seen order:
   the ordered dict obtained by inserting every path of every config, generator by generator *)
Definition union_ref (fs : list forest) : forest := insall (flat_map (paths []) fs) [].

Definition P_C10_union (fs : list forest) (out : forest) : bool :=
  forest_eqb out (union_ref fs).
