(* C10: declarative reference for "every yielded line appears once under the block path it was
   yielded in, and nothing else appears", the union over generators, and the property
   predicates evaluated on the implementation's outputs. *)
From Coq Require Import List String Ascii Bool Arith.
From Annet Require Import Base.Str Base.Tree Model.Pattern Model.Acl Model.Offside Model.GenProg Model.GenAcl.
Import ListNotations.
Open Scope string_scope.
Open Scope list_scope.

(* ---------- the yielded paths of a program ---------- *)

(* the configuration line a raw row stands for *)
Definition key_of (row : string) : string := strip row.

(* a yield hands over one text; its lines are what _split_and_strip makes of it (the text itself,
   or the dedented lines of a multi-line text); each line is yielded at the current block path *)
Definition ypaths_text (bp : list string) (t : string) : list (list string) :=
  map (fun r => bp ++ [key_of r]) (split_and_strip t).

Definition ypaths_yield (bp : list string) (v : yval) : list (list string) :=
  match ytext v with inr t => ypaths_text bp t | inl _ => [] end.

(* `with block(tokens): body`: the block line at the current path, the body below it *)
Definition sp_block (bp : list string) (toks : list tok) (body : list string -> list (list string))
  : list (list string) :=
  match join_toks toks with
  | inr b => let p := bp ++ [key_of (last (split_and_strip b) EmptyString)] in
             ypaths_text bp b ++ body p
  | inl _ => []
  end.

Fixpoint sp_multiblock (bp : list string) (blocks : list mblk) (body : list string -> list (list string))
  : list (list string) :=
  match blocks with
  | [] => body bp
  | b :: r => sp_block bp (mblk_toks b) (fun bp' => sp_multiblock bp' r body)
  end.

Fixpoint ypaths (bp : list string) (s : stmt) {struct s} : list (list string) :=
  match s with
  | Yield v => ypaths_yield bp v
  | Block toks _ body => sp_block bp toks (fun bp' => flat_map (ypaths bp') body)
  | BlockIf toks cond body =>
    if block_if_cond toks cond then sp_block bp toks (fun bp' => flat_map (ypaths bp') body)
    else flat_map (ypaths bp) body
  | MultiBlock blocks body => sp_multiblock bp blocks (fun bp' => flat_map (ypaths bp') body)
  | MultiBlockIf blocks cond body =>
    if multiblock_if_cond blocks cond then sp_multiblock bp blocks (fun bp' => flat_map (ypaths bp') body)
    else flat_map (ypaths bp) body
  end.

Definition prog_paths (p : prog) : list (list string) := flat_map (ypaths []) p.

(* the configuration a program stands for: its yielded paths as a set of paths, kept as an
   ordered dict of ordered dicts in first-seen order (a repeated line is one line) *)
Definition tree_of (p : prog) : forest := insall (prog_paths p) [].

(* ---------- programs whose rows are plain configuration lines ---------- *)

(* a raw row is a plain line: not indented by itself, not blank, not a comment for the parser
   ("!" / "#"), and free of the word None (which PartialGenerator refuses) *)
Definition wf_row (r : string) : bool :=
  Nat.eqb (parse_indent r) 0 && negb (is_empty (strip r)) &&
  negb (startswith "!" (strip r)) && negb (startswith "#" (strip r)) &&
  negb (has_none_word r).

Definition wf_text (t : string) : bool := forallb wf_row (split_and_strip t).

(* a block header is one plain line *)
Definition wf_block_text (t : string) : bool :=
  match split_and_strip t with [r] => wf_row r | _ => false end.

Definition wf_toks (toks : list tok) : bool :=
  match join_toks toks with inr b => wf_block_text b | inl _ => false end.

Definition wf_indent (i : option nat) : bool :=
  match i with Some O => false | _ => true end.

Fixpoint wf_stmt (s : stmt) {struct s} : bool :=
  match s with
  | Yield v => match ytext v with inr t => wf_text t | inl _ => false end
  | Block toks ind body => wf_toks toks && wf_indent ind && forallb wf_stmt body
  | BlockIf toks cond body =>
    (if block_if_cond toks cond then wf_toks toks else true) && forallb wf_stmt body
  | MultiBlock blocks body => forallb (fun b => wf_toks (mblk_toks b)) blocks && forallb wf_stmt body
  | MultiBlockIf blocks cond body =>
    (if multiblock_if_cond blocks cond then forallb (fun b => wf_toks (mblk_toks b)) blocks else true)
    && forallb wf_stmt body
  end.

Definition wf_prog (p : prog) : bool := forallb wf_stmt p.

(* ---------- membership of a path in a tree ---------- *)

Fixpoint mem_path (p : list string) (f : forest) {struct p} : bool :=
  match p with
  | [] => true
  | k :: p' => match lookup k f with Some (T c) => mem_path p' c | None => false end
  end.

(* ---------- predicates on observed outputs ---------- *)

(* without ACL: a program of plain rows gives exactly its tree *)
Definition P_C10_tree (p : prog) (out : gres) : bool :=
  if wf_prog p then gres_eqb out (GOk (tree_of p)) else true.

(* config_tree() over the generators' (ACL-filtered) configs is their union in first-seen order:
   the ordered dict obtained by inserting every path of every config, generator by generator *)
Definition union_ref (fs : list forest) : forest := insall (flat_map (paths []) fs) [].

Definition P_C10_union (fs : list forest) (out : forest) : bool :=
  forest_eqb out (union_ref fs).

(* ---------- what an ACL says about a yielded path ---------- *)

Inductive pstat :=
| Passed            (* every line of the path is matched by the rules in force and kept *)
| Refused           (* some line of the path is matched by no rule in force *)
| Dropped.          (* some line is matched only to be discarded: the reverse form of a rule all of
                       whose cant_delete flags are set *)

Definition pstat_eqb (a b : pstat) : bool :=
  match a, b with Passed, Passed | Refused, Refused | Dropped, Dropped => true | _, _ => false end.

Section Cover.
  Variable rmatch : string -> string -> option (list string).
  Variable rsrc : string -> string.
  Variable rrev : string -> string.
  Variable norm : string -> string.

  Let mrow := match_row_to_acl rmatch rsrc rrev norm.

  (* walk the path from the top; the rules in force below a line are those the ACL model selects *)
  Fixpoint path_status (rs : aset) (p : list string) : pstat :=
    match p with
    | [] => Passed
    | row :: p' =>
      match mrow row rs false with
      | MSome m crs => if drops m then Dropped else path_status crs p'
      | _ => Refused
      end
    end.

  (* the generators with a deletable rule matching the last line of the path, when its parents are
     passed: AclNotExclusiveError names them when there is more than one *)
  Fixpoint conflict_at (rs : aset) (p : list string) : option (list string) :=
    match p with
    | [] => None
    | [row] => match mrow row rs true with MErr g => Some g | _ => None end
    | row :: p' =>
      match mrow row rs false with
      | MSome m crs => if drops m then None else conflict_at crs p'
      | _ => None
      end
    end.
End Cover.

Definition p_path_status (v : avendor) := path_status acl_pm acl_psrc (acl_prev v) (acl_norm v).
Definition p_conflict_at (v : avendor) := conflict_at acl_pm acl_psrc (acl_prev v) (acl_norm v).

(* ---------- property predicates for the ACL steps ---------- *)

(* Confinement.  For a program of plain rows and a compilable ACL: if the generator's own ACL passes
   every yielded path the result is exactly the program's tree; otherwise the run fails with a
   generator error naming one of the yielded paths the ACL does not pass (never emitted, never
   silently dropped). *)
Definition P_C10_confined (v : avendor) (g : gen) (out : gres) : bool :=
  if wf_prog (g_prog g) then
    match compile_acl (g_acl g) with
    | None => true
    | Some rs =>
      let ps := paths [] (tree_of (g_prog g)) in
      match filter (fun q => negb (pstat_eqb (p_path_status v rs q) Passed)) ps with
      | [] => gres_eqb out (GOk (tree_of (g_prog g)))
      | bad => existsb (fun q => gres_eqb out (GAcl (acl_err_text q))) bad
      end
    end
  else true.

(* the stricter reading of "does not cover": a line discarded through the reverse/cant_delete
   rule counts as passed-over silently; used to classify a failure of P_C10_confined *)
Definition only_dropped (v : avendor) (g : gen) : bool :=
  match compile_acl (g_acl g) with
  | None => false
  | Some rs =>
    forallb (fun q => negb (pstat_eqb (p_path_status v rs q) Refused)) (paths [] (tree_of (g_prog g)))
  end.

Definition all_ok (outs : list gres) : option (list forest) :=
  fold_right (fun o acc => match o, acc with GOk f, Some fs => Some (f :: fs) | _, _ => None end) (Some []) outs.

(* Exclusivity and union.  Given the generators' own results (all succeeded) and the merged,
   generator-tagged ACL: a conflict is reported iff some line of the union is deletable by two
   generators; otherwise the desired configuration is the union of the generators' outputs. *)
Definition P_C10_exclusive (v : avendor) (gs : list gen) (fs : list forest) (out : ores) : bool :=
  match compile_acl (combined_acl gs) with
  | None => true
  | Some rs =>
    let u := union_ref fs in
    let confl := flat_map (fun q => match p_conflict_at v rs q with Some g => [(q, g)] | None => [] end)
                          (paths [] u) in
    match confl with
    | [] => ores_eqb out (OOk u)
    | _ => existsb (fun qg => ores_eqb out (OExclusive (excl_err_text (fst qg)) (snd qg))) confl
    end
  end.

(* no conflict, but the merged ACL does not pass a line every generator's own ACL passed *)
Definition merged_acl_loses (v : avendor) (gs : list gen) (fs : list forest) : bool :=
  match compile_acl (combined_acl gs) with
  | None => false
  | Some rs => existsb (fun q => negb (pstat_eqb (p_path_status v rs q) Passed)) (paths [] (union_ref fs))
  end.

(* ... because the merged ACL discards it through the reverse form of a cant_delete rule *)
Definition merged_acl_discards (v : avendor) (gs : list gen) (fs : list forest) : bool :=
  match compile_acl (combined_acl gs) with
  | None => false
  | Some rs => existsb (fun q => pstat_eqb (p_path_status v rs q) Dropped) (paths [] (union_ref fs))
  end.

(* _old_new_per_device as a whole, given the generators' own results: the first generator error
   escapes; otherwise the exclusivity/union clause *)
Definition first_err (outs : list gres) : option gres :=
  find (fun o => match o with GOk _ => false | _ => true end) outs.

Definition P_C10_old_new (v : avendor) (gs : list gen) (outs : list gres) (out : ores) : bool :=
  match first_err outs with
  | Some e => ores_eqb out (OGenErr e)
  | None => match all_ok outs with
            | Some fs => P_C10_exclusive v gs fs out
            | None => true
            end
  end.

(* ---------- the property as one predicate ---------- *)

(* input: vendor and generators; output: for every generator its result without and with its own
   ACL, and the outcome of _old_new_per_device.  The correspondence run evaluates the four clauses
   separately (so that a failure names its clause); this is their conjunction. *)
Fixpoint forallb2 {A B} (f : A -> B -> bool) (l : list A) (m : list B) : bool :=
  match l, m with
  | [], [] => true
  | x :: l', y :: m' => f x y && forallb2 f l' m'
  | _, _ => false
  end.

Definition P_C10 (x : avendor * list gen) (y : (list gres * list gres) * ores) : bool :=
  let '(v, gs) := x in
  let '(noacl, withacl, out) := y in
  forallb2 (fun g o => P_C10_tree (g_prog g) o) gs noacl &&
  forallb2 (P_C10_confined v) gs withacl &&
  P_C10_old_new v gs withacl out.
