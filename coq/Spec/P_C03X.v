(* C03, extended domain: %ignore_case and %multiline rules (Model/DiffX.v).
   The domain guard [xdom], and the predicates evaluated on the real make_diff output.

   "Lossless modulo case", exactly: the diff is a lossless description (Spec/P_C03.v: lossless, order_ok,
   moved_ok, rewrite_whole, projections) of the NORMALISED pair (normO ao an, normN ao an): every row
   governed by an %ignore_case rule is replaced by its lower-case spelling (at every depth, outside
   multiline bodies), and a row spelled differently on the two sides carries the match recorded last
   ([DiffX.win]).  Forgetting the matches, normO ao an is just ao with those rows lowered
   ([lower_f], Proofs/DiffXProofs.v: erase_normO). *)
From Coq Require Import List String Ascii Bool Arith.
From Annet Require Import Base.Str Base.Tree Model.Pattern Model.Rulebook Model.Diff Model.DiffX Spec.P_C03.
Import ListNotations.
Open Scope string_scope.
Open Scope list_scope.

(* rows distinct at every level *)
Fixpoint awfb_t (t : atree) : bool :=
  match t with
  | AT k => nodup_rows (map arow k) &&
            (fix go (l : aforest) : bool :=
               match l with [] => true | (_, _, s) :: l' => awfb_t s && go l' end) k
  end.
Definition awfb (f : aforest) : bool := awfb_t (AT f).

Definition mi_eqb_full (a b : minfo) : bool :=
  String.eqb (mi_raw a) (mi_raw b) && list_str_eqb (mi_key a) (mi_key b) && attrs_eqb (mi_attrs a) (mi_attrs b).

(* a row present on both sides carries the same match, recursively *)
Fixpoint compatb_t (ao : aforest) (nt : atree) {struct nt} : bool :=
  match nt with
  | AT k => (fix go (l : aforest) : bool :=
               match l with
               | [] => true
               | (r, m, c) :: l' =>
                 match alookup r ao with
                 | Some (mo, so) => mi_eqb_full mo m && compatb_t (akids so) c
                 | None => true
                 end && go l'
               end) k
  end.
Definition compatb (ao an : aforest) : bool := compatb_t ao (AT an).

Definition is_nil {A} (l : list A) : bool := match l with [] => true | _ => false end.

Section X.
  Variable fl : minfo -> xflags.

  (* a row spelled differently on the two sides is governed by the same rule on both and has no known
     children (otherwise the code raises KeyError: the children annotation of one spelling is used for
     both sides); %ignore_case together with %multiline is outside the domain *)
  Fixpoint respell_ok (ao : aforest) (nt : atree) {struct nt} : bool :=
    match nt with
    | AT k => (fix go (l : aforest) : bool :=
                 match l with
                 | [] => true
                 | (r2, m2, s2) :: l' =>
                   match find_low fl (low fl m2 r2) ao with
                   | Some (r1, m1, s1) =>
                     if String.eqb r1 r2 then (ml fl m2 || respell_ok (akids s1) s2)
                     else is_nil (akids s1) && is_nil (akids s2) && String.eqb (mi_raw m1) (mi_raw m2) &&
                          attrs_eqb (mi_attrs m1) (mi_attrs m2)
                   | None => true
                   end && go l'
                 end) k
    end.

  Fixpoint no_ic_ml_t (t : atree) : bool :=
    match t with
    | AT k => (fix go (l : aforest) : bool :=
                 match l with
                 | [] => true
                 | (_, m, s) :: l' => negb (ic fl m && xf_ml (fl m)) && no_ic_ml_t s && go l'
                 end) k
    end.

  (* no %multiline row at or below a row of a %rewrite rule (rewrite_diff walks the children of its entries as
     DiffItems; the body of a multiline entry is made of plain tuples: AttributeError) *)
  Fixpoint ml_rw_ok_t (inrw : bool) (t : atree) : bool :=
    match t with
    | AT k => (fix go (l : aforest) : bool :=
                 match l with
                 | [] => true
                 | (_, m, s) :: l' =>
                   negb ((inrw || dlogic_eqb (mi_dlogic m) DRewrite) && xf_ml (fl m)) &&
                   ml_rw_ok_t (inrw || dlogic_eqb (mi_dlogic m) DRewrite) s && go l'
                 end) k
    end.

  (* no row governed by a %multiline rule (whose diff logic is multiline_diff), at any depth *)
  Fixpoint noml_t (t : atree) : bool :=
    match t with
    | AT k => (fix go (l : aforest) : bool :=
                 match l with
                 | [] => true
                 | (_, m, s) :: l' => negb (ml fl m) && noml_t s && go l'
                 end) k
    end.
  Definition noml (f : aforest) : bool := noml_t (AT f).

  (* no row governed by an %ignore_case rule, at any depth *)
  Fixpoint noic_t (t : atree) : bool :=
    match t with
    | AT k => (fix go (l : aforest) : bool :=
                 match l with
                 | [] => true
                 | (_, m, s) :: l' => negb (ic fl m) && noic_t s && go l'
                 end) k
    end.
  Definition noic (f : aforest) : bool := noic_t (AT f).

  (* the domain of the extended model *)
  Definition xdom (ao an : aforest) : bool :=
    awfb (normO fl ao an) && awfb (normN fl ao an) && compatb (normO fl ao an) (normN fl ao an) &&
    respell_ok ao (AT an) && no_ic_ml_t (AT ao) && no_ic_ml_t (AT an) &&
    ml_rw_ok_t false (AT ao) && ml_rw_ok_t false (AT an).

  (* ---- multiline, one level: every row of a %multiline rule whose bodies differ (as ordered trees,
     absent = empty) is shown exactly once, with an exact op and the whole body of the side it is
     read from; a row whose bodies are equal is not shown *)
  Definition body_of (row : string) (f : aforest) : tree :=
    match alookup row f with Some (_, s) => erase s | None => T [] end.
  Definition ml_row (ao an : aforest) (row : string) : bool :=
    match alookup row ao, alookup row an with
    | Some (m, _), _ => ml fl m
    | None, Some (m, _) => ml fl m
    | None, None => false
    end.
  Fixpoint dshape (d : dnode) : tree :=
    match d with DN _ r _ k => T ((fix go (l : list dnode) : forest :=
                                    match l with [] => [] | x :: l' => (d_row x, dshape x) :: go l' end) k) end.
  Fixpoint all_op (o : op) (d : dnode) : bool :=
    match d with DN o' _ _ k => op_eqb o o' && forallb (all_op o) k end.
  Definition ml_entry_ok (ao an : aforest) (d : dnode) : bool :=
    match d with
    | DN o row _ kids =>
      negb (ml_row ao an row) ||
      (negb (tree_eqb (body_of row ao) (body_of row an)) &&
       match o, amem row ao, amem row an with
       | Removed, true, false => tree_eqb (dshape d) (body_of row ao) && forallb (all_op Removed) kids
       | Added, false, true => tree_eqb (dshape d) (body_of row an) && forallb (all_op Added) kids
       | (Affected | Moved | Unchanged), true, true =>
         tree_eqb (dshape d) (body_of row an) && forallb (all_op Added) kids
       | _, _, _ => false
       end)
    end.
  Definition ml_level_ok (ao an : aforest) (d : list dnode) : bool :=
    forallb (ml_entry_ok ao an) d &&
    forallb (fun k => negb (ml fl (ami k)) || tree_eqb (body_of (arow k) ao) (body_of (arow k) an) ||
                      Nat.eqb (List.length (filter (fun x => String.eqb (d_row x) (arow k)) d)) 1) (ao ++ an) &&
    forallb (fun k => negb (ml fl (ami k)) || negb (tree_eqb (body_of (arow k) ao) (body_of (arow k) an)) ||
                      negb (existsb (fun x => String.eqb (d_row x) (arow k)) d)) (ao ++ an).

  Section P.
    Variable rmatch : string -> string -> option (list string).
    (* evaluated on the real make_diff output of a case with %ignore_case / %multiline rules *)
    Definition P_C03X (x : rset * forest * forest) (d : list dnode) : bool :=
      let '(rs, old, new) := x in
      let ao := annot_f rmatch rs old in
      let an := annot_f rmatch rs new in
      let ao' := normO fl ao an in
      let an' := normN fl ao an in
      negb (xdom ao an) ||
      ((negb (noml ao' && noml an') ||
        (lossless ao' an' d && order_ok an' d && moved_ok ao' an' d && rewrite_whole ao' an' d)) &&
       ml_level_ok ao' an' d).
  End P.
End X.
