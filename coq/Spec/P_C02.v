(* C02: a patch never touches configuration outside the generators' ACL.  DESIGN.md §3.C02.

   The declarative side.  A is the compiled ACL (Model/Acl.v), R the patching rulebook,
   (d, paths) what _diff_and_patch(old, new, A) returned: the diff shown to the operator and
   formatter.cmd_paths of the patch.  The device is Model/Device.v (one line per rulebook
   rule and key), holding the FULL old configuration.

   (a)  [paths_covered]  every command path is A-covered level by level: every element but
        the last is PASSED by the rule set obtained by walking A along the path (matched, and
        not as the reverse form of a cant_delete rule) and is a block the rulebook knows; the
        last element is
          - passed by that rule set (matched by a direct or by a reverse regexp, but not as the
            reverse form of a rule all of whose cant_delete flags are set), or
          - the negation of an A-matched entry of the diff at that place that is REMOVED and
            not governed by a cant_delete rule, or MOVED under an %ordered rule (the rule's
            reverse template filled with the entry's key - it may drop words of the row the
            ACL pattern mentions, so the ACL need not match the command text itself), or
          - a block-exit word of the vendor, or the pseudo-command "commit" next to an entry
            of a %force_commit rule.
        [diff_covered]: every entry of the diff is passed by A level by level.
   (b)  [untouched]  every row of old that A does not pass, and whose ancestors are all still
        there after the patch, is still there with exactly the same subtree.
   (c)  [cd_kept]  for every row of old governed by an ACL rule all of whose cant_delete
        flags are set (and whose ancestors are all still there): the (rule, key) slot of the
        row is still occupied after the patch.  The text may differ - a rewrite of the same
        key is not a removal (C02_rewrite_is_not_removal).
        The full statement [cd_kept true] has no ancestor exception: such a row must not
        disappear together with an ancestor block either.  The unchanged code violates it
        (C02_cant_delete_ancestor_refuted, known finding): cant_delete is not inherited by the
        blocks above.  [cd_kept false] is the statement with the exception.
        [cd_not_removed]: in the diff an entry governed by a cant_delete rule is never REMOVED.

   (b) and (c) speak about Device.exec and are evaluated inside the domain of that device
   ([P_C01.wf_step] on old and the ACL-filtered new: distinct sibling rows, one row per slot,
   unambiguous removal commands, default diff logic); (b) additionally needs [slot_closed]:
   the ACL does not split a (rule, key) slot - otherwise a covered row of new replaces the
   uncovered row of old that occupies the same slot on any one-line-per-slot device
   (C02_slot_split_refuted). *)
From Coq Require Import List String Ascii Bool Arith ZArith.
From Annet Require Import Base.Str Base.Tree Model.Pattern Model.Rulebook Model.Diff Model.Order
     Model.Patch Model.Blocks Model.Pipeline Model.Device Model.Acl Model.AclPipeline
     Spec.PipelineCase Spec.P_C01.
Import ListNotations.
Open Scope string_scope.
Open Scope list_scope.

Definition is_some {A} (o : option A) : bool := match o with Some _ => true | None => false end.
Definition is_rm (o : op) : bool := match o with Removed | Moved => true | _ => false end.

(* the entries below the entries with row c *)
Definition dsub (c : string) (D : list dnode) : list dnode :=
  flat_map d_kids (filter (fun n => String.eqb (d_row n) c) D).

(* a diff is regular: no entry is governed by a %force_commit rule, and entries of one level
   with the same rule text carry the same rule attributes (what a rulebook parsed from text
   guarantees: the raw rule is the dictionary key) - at every depth *)
Fixpoint diff_regular_n (n : dnode) {struct n} : bool :=
  match n with DN _ _ _ ks => forallb diff_regular_n ks &&
    forallb (fun a => negb (a_force_commit (mi_attrs (d_mi a))) &&
                      forallb (fun b => negb (String.eqb (mi_raw (d_mi a)) (mi_raw (d_mi b))) ||
                                        attrs_eqb (mi_attrs (d_mi a)) (mi_attrs (d_mi b))) ks) ks
  end.
Definition diff_regular (D : list dnode) : bool := diff_regular_n (DN Affected "" (MI "" [] (Attrs "" LDefault DDefault false false)) D).

Section Spec.
  (* ACL matcher *)
  Variable amatch_ : string -> string -> option (list string).
  Variable asrc : string -> string.
  Variable arev : string -> string.
  Variable anorm : string -> string.
  (* patching rulebook matcher, removal command, block-exit words *)
  Variable rmatch : string -> string -> option (list string).
  Variable rreverse : string -> list string -> string.
  Variable is_exit : string -> bool.

  Definition amatch (row : string) (ars : aset) : mres := acl_match amatch_ asrc arev anorm row ars.

  (* some rule of the set matches the row (direct or reverse regexp): the rules below it *)
  Definition acl_matched (ars : aset) (row : string) : option aset :=
    match amatch row ars with MSome _ crs => Some crs | _ => None end.
  (* apply_acl passes the row *)
  Definition acl_passes (ars : aset) (row : string) : option aset :=
    match amatch row ars with MSome m crs => if drops m then None else Some crs | _ => None end.
  (* the row is governed by a rule all of whose cant_delete flags are set *)
  Definition acl_cant_delete (ars : aset) (row : string) : bool :=
    match amatch row ars with MSome m _ => negb (drops m) && all_cd m | _ => false end.

  (* ---------------------------------------------------------------- (a) *)
  Definition node_slot (rs : rset) (n : dnode) : option minfo := slot_of rmatch rs (d_row n).

  (* a removal command is legitimate when it negates an entry of the diff that is REMOVED and
     not governed by a cant_delete rule, or MOVED under an %ordered rule (undo, then redo);
     the rule (pattern, logic) is the one of the entry's group: an entry n0 with the same rule *)
  Definition negation_of_entry (ars : aset) (rs : rset) (D : list dnode) (c : string) : bool :=
    existsb (fun n =>
               match amatch (d_row n) ars, node_slot rs n with
               | MSome m _, Some s =>
                 existsb (fun n0 => match node_slot rs n0 with
                                    | Some s0 =>
                                      String.eqb (mi_raw s0) (mi_raw s) &&
                                      String.eqb (rreverse (a_pat (mi_attrs s0)) (mi_key s)) c &&
                                      ((op_eqb (d_op n) Removed && negb (all_cd m)) ||
                                       (op_eqb (d_op n) Moved && logic_eqb (a_logic (mi_attrs s0)) LOrdered))
                                    | None => false
                                    end) D
               | _, _ => false
               end) D.

  Definition commit_ok (rs : rset) (D : list dnode) (c : string) : bool :=
    String.eqb c "commit" &&
    existsb (fun n => match node_slot rs n with Some s => a_force_commit (mi_attrs s) | None => false end) D.

  Definition cmd_covered (ars : aset) (rs : rset) (D : list dnode) (c : string) : bool :=
    is_exit c || is_some (acl_passes ars c) || negation_of_entry ars rs D c || commit_ok rs D c.

  Fixpoint path_covered (ars : aset) (rs : rset) (D : list dnode) (p : list string) {struct p} : bool :=
    match p with
    | [] => true
    | c :: rest =>
      match rest with
      | [] => cmd_covered ars rs D c
      | _ :: _ =>
        match acl_passes ars c, match_row rmatch c rs with
        | Some acrs, Some (_, prs) => path_covered acrs prs (dsub c D) rest
        | _, _ => false
        end
      end
    end.

  Definition paths_covered (ars : aset) (rs : rset) (D : list dnode) (ps : list (list string)) : bool :=
    forallb (path_covered ars rs D) ps.

  Fixpoint diff_covered_n (ars : aset) (n : dnode) {struct n} : bool :=
    match n with
    | DN _ row _ ks =>
      match acl_passes ars row with
      | Some crs => forallb (diff_covered_n crs) ks
      | None => false
      end
    end.
  Definition diff_covered (ars : aset) (D : list dnode) : bool := forallb (diff_covered_n ars) D.

  (* every entry is matched by the ACL and an entry governed by a cant_delete rule is not REMOVED *)
  Fixpoint cd_not_removed_n (ars : aset) (n : dnode) {struct n} : bool :=
    match n with
    | DN o row _ ks =>
      match amatch row ars with
      | MSome m crs => negb (op_eqb o Removed && all_cd m) && forallb (cd_not_removed_n crs) ks
      | _ => false
      end
    end.
  Definition cd_not_removed (ars : aset) (D : list dnode) : bool := forallb (cd_not_removed_n ars) D.

  (* ---------------------------------------------------------------- (b) *)
  Fixpoint untouched_t (ars : aset) (a : tree) (b : forest) {struct a} : bool :=
    match a with
    | T ka =>
      (fix go (l : forest) : bool :=
         match l with
         | [] => true
         | (r, t) :: l' =>
           match acl_passes ars r with
           | Some crs => match tfind r b with
                         | Some t' => untouched_t crs t (kids t')
                         | None => true                      (* the block went away *)
                         end
           | None => match tfind r b with
                     | Some t' => forest_eqb (kids t) (kids t')
                     | None => false
                     end
           end && go l'
         end) ka
    end.
  Definition untouched (ars : aset) (old dev : forest) : bool := untouched_t ars (T old) dev.

  (* the ACL does not split a slot: all rows of the slot of a passed row are passed.
     Per level: (passed?, slot) of every row is computed once. *)
  Fixpoint slot_closed_t (ars : aset) (rs : rset) (u : tree) {struct u} : bool :=
    match u with
    | T ks =>
      let lv := map (fun e : string * tree => (is_some (acl_passes ars (fst e)), slot_of rmatch rs (fst e))) ks in
      forallb (fun a : bool * option minfo =>
                 negb (fst a) ||
                 match snd a with
                 | Some s => forallb (fun b : bool * option minfo =>
                                        fst b || match snd b with Some s' => negb (same_slot s' s) | None => true end) lv
                 | None => true
                 end) lv &&
      (fix go (l : forest) : bool :=
         match l with
         | [] => true
         | (r, c) :: l' =>
           match acl_passes ars r, match_row rmatch r rs with
           | Some acrs, Some (_, prs) => slot_closed_t acrs prs c
           | _, _ => true
           end && go l'
         end) ks
    end.
  Definition slot_closed (ars : aset) (rs : rset) (u : forest) : bool := slot_closed_t ars rs (T u).

  (* ---------------------------------------------------------------- (c) *)
  Definition slot_occupied (rs : rset) (r : string) (dev : forest) : bool :=
    match slot_of rmatch rs r with
    | Some s => existsb (in_slot rmatch rs s) dev
    | None => is_some (tfind r dev)
    end.

  (* no passed row below is governed by a cant_delete rule *)
  Fixpoint cd_free_t (ars : aset) (a : tree) {struct a} : bool :=
    match a with
    | T ka =>
      (fix go (l : forest) : bool :=
         match l with
         | [] => true
         | (r, t) :: l' =>
           match acl_passes ars r with
           | Some crs => negb (acl_cant_delete ars r) && cd_free_t crs t
           | None => true
           end && go l'
         end) ka
    end.

  Fixpoint cd_kept_t (deep : bool) (ars : aset) (rs : rset) (a : tree) (b : forest) {struct a} : bool :=
    match a with
    | T ka =>
      (fix go (l : forest) : bool :=
         match l with
         | [] => true
         | (r, t) :: l' =>
           match acl_passes ars r with
           | Some crs =>
             (negb (acl_cant_delete ars r) || slot_occupied rs r b) &&
             match tfind r b, match_row rmatch r rs with
             | Some t', Some (_, prs) => cd_kept_t deep crs prs t (kids t')
             | Some _, None => true                 (* the device never enters a row no rule knows *)
             | None, _ => negb deep || cd_free_t crs t
             end
           | None => true
           end && go l'
         end) ka
    end.
  Definition cd_kept (deep : bool) (ars : aset) (rs : rset) (old dev : forest) : bool :=
    cd_kept_t deep ars rs (T old) dev.
End Spec.

(* ------------------------------------------------------------------ instantiated *)

Definition p_paths_covered (v : vendor) (av : avendor) :=
  paths_covered acl_pm acl_psrc (acl_prev av) (acl_norm av) pm (prreverse v) (v_is_exit v).
Definition p_diff_covered (av : avendor) := diff_covered acl_pm acl_psrc (acl_prev av) (acl_norm av).
Definition p_cd_not_removed (av : avendor) := cd_not_removed acl_pm acl_psrc (acl_prev av) (acl_norm av).
Definition p_untouched (av : avendor) := untouched acl_pm acl_psrc (acl_prev av) (acl_norm av).
Definition p_slot_closed (av : avendor) := slot_closed acl_pm acl_psrc (acl_prev av) (acl_norm av) pm.
Definition p_cd_kept (av : avendor) := cd_kept acl_pm acl_psrc (acl_prev av) (acl_norm av) pm.

Definition is_block_family (f : family) : bool := match f with FJuniper _ _ | FRos => false | _ => true end.

(* the input of the property and what the pipeline returned for it *)
Record c02in := C02In {
  i_vendor : vendor;
  i_av : avendor;
  i_ars : aset;                    (* the compiled ACL *)
  i_rules : rset;
  i_old : forest;
  i_new : forest
}.
Record c02out := C02Out {
  o_diff : list dnode;                            (* the stripped diff *)
  o_cmds : option (list (list string))            (* cmd_paths; None: a logic raised AssertionError *)
}.

(* the domain of the device clauses *)
Definition c02_filtered_new (x : c02in) : forest := p_acl_filter (i_av x) (i_ars x) (i_new x).
Definition dom_of (x : c02in) (nf : forest) : bool := wf_step (i_vendor x) (i_rules x) (i_old x) nf.
Definition closed_of (x : c02in) (nf : forest) : bool :=
  p_slot_closed (i_av x) (i_ars x) (i_rules x) (merge (i_old x) nf).
Definition c02_dev_domain (x : c02in) : bool := dom_of x (c02_filtered_new x).
Definition c02_closed (x : c02in) : bool := closed_of x (c02_filtered_new x).

Definition a_core (x : c02in) (D : list dnode) (ps : list (list string)) : bool :=
  negb (is_block_family (v_family (i_vendor x))) ||
  p_paths_covered (i_vendor x) (i_av x) (i_ars x) (i_rules x) D ps.
Definition C02_a (x : c02in) (y : c02out) : bool :=
  match o_cmds y with Some ps => a_core x (o_diff y) ps | None => true end.
Definition C02_a_diff (x : c02in) (y : c02out) : bool :=
  p_diff_covered (i_av x) (i_ars x) (o_diff y) && p_cd_not_removed (i_av x) (i_ars x) (o_diff y).

(* the device after the patch: it held the full old configuration *)
Definition after (x : c02in) (ps : list (list string)) : forest := p_exec (i_vendor x) (i_rules x) ps (i_old x).
Definition b_core (x : c02in) (dev : forest) : bool := p_untouched (i_av x) (i_ars x) (i_old x) dev.
Definition c_core (deep : bool) (x : c02in) (dev : forest) : bool :=
  p_cd_kept (i_av x) deep (i_ars x) (i_rules x) (i_old x) dev.

Definition C02_b (x : c02in) (y : c02out) : bool :=
  match o_cmds y with
  | Some ps => negb (c02_dev_domain x && c02_closed x) || b_core x (after x ps)
  | None => true
  end.
Definition C02_c_with (deep : bool) (x : c02in) (y : c02out) : bool :=
  match o_cmds y with
  | Some ps => negb (c02_dev_domain x) || c_core deep x (after x ps)
  | None => true
  end.
Definition C02_c := C02_c_with false.
Definition C02_c_deep := C02_c_with true.

(* the property: (c) in its full form, without the ancestor exception *)
Definition P_C02 (x : c02in) (y : c02out) : bool :=
  C02_a x y && C02_a_diff x y && C02_b x y && C02_c_deep x y.
(* with the ancestor exception in (c): what the unchanged code satisfies *)
Definition P_C02_weak (x : c02in) (y : c02out) : bool :=
  C02_a x y && C02_a_diff x y && C02_b x y && C02_c x y.

(* (b) without the slot_closed hypothesis - refuted by C02_slot_split_refuted *)
Definition C02_b_unguarded (x : c02in) (y : c02out) : bool :=
  match o_cmds y with
  | Some ps => negb (c02_dev_domain x) || b_core x (after x ps)
  | None => true
  end.
(* the literal-text reading of (c): the ROW (not its slot) is still there *)
Fixpoint cd_text_kept_t (av : avendor) (ars : aset) (a : tree) (b : forest) {struct a} : bool :=
  match a with
  | T ka =>
    (fix go (l : forest) : bool :=
       match l with
       | [] => true
       | (r, t) :: l' =>
         match acl_passes acl_pm acl_psrc (acl_prev av) (acl_norm av) ars r with
         | Some crs =>
           match tfind r b with
           | Some t' => cd_text_kept_t av crs t (kids t')
           | None => negb (acl_cant_delete acl_pm acl_psrc (acl_prev av) (acl_norm av) ars r)
           end
         | None => true
         end && go l'
       end) ka
  end.
Definition c_text_core (x : c02in) (dev : forest) : bool := cd_text_kept_t (i_av x) (i_ars x) (T (i_old x)) dev.
Definition C02_c_text (x : c02in) (y : c02out) : bool :=
  match o_cmds y with
  | Some ps => negb (c02_dev_domain x) || c_text_core x (after x ps)
  | None => true
  end.

(* what the model returns *)
Definition model_out (x : c02in) (ordering : list orule) : c02out :=
  let r := p_acl_diff_and_patch (i_vendor x) (i_av x) (i_ars x) (i_rules x) ordering (i_old x) (i_new x) in
  C02Out (fst r) (match snd r with POk p => Some (cmd_paths (v_family (i_vendor x)) p) | PErr => None end).

(* ------------------------------------------------------------------ observed runs *)

(* one run of the real pipeline with an ACL (harness/impl/c02_runner.py).  c2_pc carries the
   vendor, rulebook, ordering, old, new and the outputs of _diff_and_patch / cmd_paths;
   pc_diff_full is make_diff(old, new, rb, [acl]) on the UNFILTERED inputs. *)
Record c02case := C02Case {
  c2_pc : pcase;
  c2_av : avendor;
  c2_acl : acl;                                   (* the ACL text, structured *)
  c2_compile_err : bool;                          (* compile_acl_text raised NotImplementedError *)
  c2_old_f : forest;                              (* apply_acl(old, acl) *)
  c2_new_f : forest;
  c2_gen_paths : option (list (list string))      (* cmd_paths when the inputs are filtered first (annet.gen) *)
}.

Definition c2_ars (c : c02case) : aset := match compile_acl (c2_acl c) with Some r => r | None => ([], []) end.
Definition c2_in (c : c02case) : c02in :=
  C02In (pc_vendor (c2_pc c)) (c2_av c) (c2_ars c) (pc_rules (c2_pc c)) (pc_old (c2_pc c)) (pc_new (c2_pc c)).
Definition c2_out (c : c02case) : c02out :=
  C02Out (pc_diff (c2_pc c)) (match pc_patch (c2_pc c) with Some _ => Some (pc_paths (c2_pc c)) | None => None end).
Definition c2_model (c : c02case) : list dnode * presult :=
  p_acl_diff_and_patch (pc_vendor (c2_pc c)) (c2_av c) (c2_ars c) (pc_rules (c2_pc c)) (pc_ordering (c2_pc c))
                       (pc_old (c2_pc c)) (pc_new (c2_pc c)).

Definition ok_or_err (c : c02case) (b : bool) : bool := c2_compile_err c || b.

Definition c2_agree_compile (c : c02case) : bool :=
  Bool.eqb (c2_compile_err c) (negb (is_some (compile_acl (c2_acl c)))).
Definition c2_agree_filter (c : c02case) : bool :=
  ok_or_err c (forest_eqb (p_acl_filter (c2_av c) (c2_ars c) (pc_old (c2_pc c))) (c2_old_f c) &&
               forest_eqb (p_acl_filter (c2_av c) (c2_ars c) (pc_new (c2_pc c))) (c2_new_f c)).
Definition c2_agree_diff_full (c : c02case) : bool :=
  ok_or_err c (diff_eqb (p_acl_make_diff (c2_av c) (c2_ars c) (pc_rules (c2_pc c)) (pc_old (c2_pc c)) (pc_new (c2_pc c)))
                        (pc_diff_full (c2_pc c))).
Definition c2_agree_diff (c : c02case) : bool :=
  ok_or_err c (match pc_patch (c2_pc c) with
               | Some _ => diff_eqb (fst (c2_model c)) (pc_diff (c2_pc c))
               | None => true
               end).
Definition c2_agree_patch (c : c02case) : bool :=
  ok_or_err c (match snd (c2_model c), pc_patch (c2_pc c) with
               | POk a, Some b => ptree_eqb a b
               | PErr, None => true
               | _, _ => false
               end).
Definition c2_agree_paths (c : c02case) : bool := ok_or_err c (agree_paths (c2_pc c)).
Definition c2_agree_lines (c : c02case) : bool := ok_or_err c (agree_lines (c2_pc c)).
(* filtering first (as annet.gen does) changes nothing *)
Definition c2_gen_same (c : c02case) : bool :=
  ok_or_err c (match pc_patch (c2_pc c), c2_gen_paths c with
               | Some _, Some g => paths_eqb (pc_paths (c2_pc c)) g
               | None, None => true
               | _, _ => false
               end).

Definition c2_holds (c : c02case) : bool := ok_or_err c (P_C02 (c2_in c) (c2_out c)).
Definition c2_cl_a (c : c02case) : bool := ok_or_err c (C02_a (c2_in c) (c2_out c)).
Definition c2_cl_a_diff (c : c02case) : bool := ok_or_err c (C02_a_diff (c2_in c) (c2_out c)).
Definition c2_cl_b (c : c02case) : bool := ok_or_err c (C02_b (c2_in c) (c2_out c)).
Definition c2_cl_c (c : c02case) : bool := ok_or_err c (C02_c (c2_in c) (c2_out c)).
Definition c2_cl_c_deep (c : c02case) : bool := ok_or_err c (C02_c_deep (c2_in c) (c2_out c)).

(* statistics (evaluated by Coq, counted by the harness; "true" = the case is NOT in the class) *)
Definition c2_st_domain (c : c02case) : bool := negb (negb (c2_compile_err c) && c02_dev_domain (c2_in c)).
Definition c2_st_closed (c : c02case) : bool :=
  negb (negb (c2_compile_err c) && c02_dev_domain (c2_in c) && c02_closed (c2_in c)).
Definition c2_st_b_unguarded (c : c02case) : bool := ok_or_err c (C02_b_unguarded (c2_in c) (c2_out c)).
Definition c2_st_c_text (c : c02case) : bool := ok_or_err c (C02_c_text (c2_in c) (c2_out c)).
(* (a) with the textual reading only: every last element is matched by the ACL itself *)
Definition c2_st_a_textual (c : c02case) : bool :=
  ok_or_err c (C02_a (c2_in c) (C02Out [] (o_cmds (c2_out c)))).

(* all of the above for one case, every shared part computed once (Proofs/AclPipelineProofs.v:
   c2_report_spec shows it is the list of the predicates above) *)
Definition c2_report (c : c02case) : list bool :=
  let e := c2_compile_err c in
  let x := c2_in c in
  let y := c2_out c in
  let pc := c2_pc c in
  let m := c2_model c in
  let nf := c02_filtered_new x in
  let agree_filter := e || (forest_eqb (p_acl_filter (c2_av c) (c2_ars c) (pc_old pc)) (c2_old_f c) && forest_eqb nf (c2_new_f c)) in
  let dom := dom_of x nf in
  let closed := closed_of x nf in
  let cmds := o_cmds y in
  let dev := match cmds with Some ps => after x ps | None => [] end in
  let on_cmds (f : list (list string) -> bool) := match cmds with Some ps => f ps | None => true end in
  let a := on_cmds (fun ps => a_core x (o_diff y) ps) in
  let a_diff := C02_a_diff x y in
  let b0 := on_cmds (fun _ => b_core x dev) in
  let b := on_cmds (fun _ => negb (dom && closed) || b0) in
  let c_ := on_cmds (fun _ => negb dom || c_core false x dev) in
  let c_deep := on_cmds (fun _ => negb dom || c_core true x dev) in
  [ c2_agree_compile c; agree_filter; c2_agree_diff_full c;
    e || match pc_patch pc with Some _ => diff_eqb (fst m) (pc_diff pc) | None => true end;
    e || match snd m, pc_patch pc with POk p, Some q => ptree_eqb p q | PErr, None => true | _, _ => false end;
    c2_agree_paths c; c2_agree_lines c; c2_gen_same c;
    e || (a && a_diff && b && c_deep);
    e || a; e || a_diff; e || b; e || c_; e || c_deep;
    negb (negb e && dom); negb (negb e && dom && closed);
    e || on_cmds (fun _ => negb dom || b0);
    e || on_cmds (fun _ => negb dom || c_text_core x dev);
    c2_st_a_textual c ].
Definition c2_labels : list string :=
  ["agree_compile"; "agree_filter"; "agree_diff_full"; "agree_diff"; "agree_patch"; "agree_paths"; "agree_lines"; "gen_same";
   "holds"; "cl_a"; "cl_a_diff"; "cl_b"; "cl_c"; "cl_c_deep";
   "st_domain"; "st_closed"; "st_b_unguarded"; "st_c_text"; "st_a_textual"].
