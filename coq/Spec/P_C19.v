(* C19: declarative reference for file-based devices and the property predicate.
   Nothing here follows the control flow of the code: `planned` picks the maximum by a
   universally quantified test, the upload set is a comprehension over content (in)equality. *)
From Coq Require Import List String Ascii Bool Arith ZArith.
From Annet Require Import Base.Str Model.Files.
Import ListNotations.
Open Scope string_scope.
Open Scope list_scope.

(* ---------------------------------------------------------------- guard of the quantifier *)

(* "distinct prios": no two listed generators have the same (path, prio) *)
Definition same_key (g h : gen) : bool :=
  String.eqb (g_path g) (g_path h) && Z.eqb (g_prio g) (g_prio h).

Fixpoint distinct_prios (gens : list gen) : bool :=
  match gens with
  | [] => true
  | g :: r => negb (existsb (same_key g) r) && distinct_prios r
  end.

Definition wf_C19 (x : input) : bool := distinct_prios (i_gens x).

(* ---------------------------------------------------------------- reference *)

(* g is the highest-priority generator for its (non-empty) path *)
Definition is_winner (gens : list gen) (g : gen) : bool :=
  negb (is_empty (g_path g)) &&
  forallb (fun h => negb (String.eqb (g_path h) (g_path g)) || Z.leb (g_prio h) (g_prio g)) gens.

(* path -> (output, reload commands) of the winner; with safe: only winners that are safe *)
Definition planned (etck safe : bool) (gens : list gen) : nfiles :=
  map (fun g => entry_of (result_of etck g))
      (filter (fun g => is_winner gens g && (negb safe || g_safe g)) gens).

(* old.get(p) != new[p] *)
Definition content_differs (old : oldmap) (e : string * (string * string)) : bool :=
  negb (opt_str_eqb (old_get old (fst e)) (Some (fst (snd e)))).

Definition to_upload (m : rmode) (old : oldmap) (sel : nfiles) : nfiles :=
  filter (fun e => content_differs old e || force_reload m) sel.

(* {p: new[p] for p where old.get(p) != new[p] or force} *)
Definition spec_files (m : rmode) (old : oldmap) (sel : nfiles) : list (string * string) :=
  map (fun e => (fst e, fst (snd e))) (to_upload m old sel).

(* reload command of every uploaded file iff reloads are enabled *)
Definition spec_cmds (m : rmode) (old : oldmap) (sel : nfiles) : list (string * string) :=
  if enable_reload m then map (fun e => (fst e, snd (snd e))) (to_upload m old sel) else [].

(* the diff shows a file iff old text != new text *)
Definition spec_diff (old : oldmap) (sel : nfiles) : list string :=
  map fst (filter (content_differs old) sel).

(* ---------------------------------------------------------------- predicate *)

Definition mem (k : string) (l : list string) : bool := existsb (String.eqb k) l.

Definition keyset_eqb (a b : list string) : bool :=
  nodupb a && nodupb b && forallb (fun k => mem k b) a && forallb (fun k => mem k a) b.

Definition files_of (y : output) : list (string * string) :=
  match o_deploy y with Some (f, _) => f | None => [] end.
Definition cmds_of (y : output) : list (string * string) :=
  match o_deploy y with Some (_, c) => c | None => [] end.

Definition sel_of (x : input) : nfiles := planned (i_etck x) (i_safe x) (i_gens x).

Definition P_new (x : input) (y : output) : bool :=
  nf_eqb (o_new y) (planned (i_etck x) false (i_gens x)).
Definition P_safe (x : input) (y : output) : bool :=
  nf_eqb (o_new_safe y) (planned (i_etck x) true (i_gens x)).
Definition P_files (x : input) (y : output) : bool :=         (* upload decision and bytes *)
  ss_eqb (files_of y) (spec_files (i_mode x) (i_old x) (sel_of x)).
Definition P_cmds (x : input) (y : output) : bool :=
  ss_eqb (cmds_of y) (spec_cmds (i_mode x) (i_old x) (sel_of x)).
Definition P_diff (x : input) (y : output) : bool :=
  keyset_eqb (keys (o_diff y)) (spec_diff (i_old x) (sel_of x)).

Definition P_C19 (x : input) (y : output) : bool :=
  P_new x y && P_safe x y && P_files x y && P_cmds x y && P_diff x y.

(* ---------------------------------------------------------------- labels of violated clauses
   (used only to name the class of a failing case; the verdict is P_C19) *)

(* why two different contents can have the same lines *)
Definition gap_class (o : option string) (n : string) : string :=
  if opt_str_eqb o (Some n) then "equal-content" else
  match o with
  | None => if is_empty n then "absent-vs-empty" else "other"
  | Some s =>
    if negb (list_str_eqb (splitlines s) (splitlines n)) then "other"
    else if String.eqb (s ++ LF)%string n || String.eqb s (n ++ LF)%string then "trailing-newline"
    else "line-terminator"
  end.

Definition sig_path (x : input) (y : output) (e : string * (string * string)) : list string :=
  let p := fst e in
  let o := old_get (i_old x) p in
  let exp_up := content_differs (i_old x) e || force_reload (i_mode x) in
  (match lookup p (files_of y) with
   | None => if exp_up then [("upload-skipped/" ++ gap_class o (fst (snd e)))%string] else []
   | Some b =>
     (if exp_up then [] else ["upload-unexpected"]) ++
     (if String.eqb b (fst (snd e)) then [] else ["upload-bytes-differ"]) ++
     (match lookup p (cmds_of y) with
      | None => if enable_reload (i_mode x) then ["reload/missing-when-enabled"] else []
      | Some c => if enable_reload (i_mode x)
                  then (if String.eqb c (snd (snd e)) then [] else ["reload/wrong-command"])
                  else ["reload/attached-when-disabled"]
      end)
   end) ++
  (if content_differs (i_old x) e
   then (if mem p (keys (o_diff y)) then [] else [("diff-empty/" ++ gap_class o (fst (snd e)))%string])
   else (if mem p (keys (o_diff y)) then ["diff-shown-for-equal"] else [])).

Definition sigs_C19 (x : input) (y : output) : list string :=
  (if P_new x y then [] else ["new-files/not-argmax"]) ++
  (if P_safe x y then [] else ["new-files/safe-filter"]) ++
  flat_map (sig_path x y) (sel_of x) ++
  (if forallb (fun p => mem p (keys (sel_of x))) (keys (files_of y) ++ keys (cmds_of y) ++ keys (o_diff y))
   then [] else ["foreign-path"]).

Definition has_sig (s : string) (x : input) (y : output) : bool := mem s (sigs_C19 x y).

(* position of each violated clause label in a list of labels given by the harness
   (List.length names = label not in the list) *)
Fixpoint index_of (s : string) (l : list string) (n : nat) : nat :=
  match l with
  | [] => n
  | x :: r => if String.eqb x s then n else index_of s r (S n)
  end.

Definition sig_codes (names : list string) (x : input) (y : output) : list nat :=
  map (fun s => index_of s names O) (sigs_C19 x y).
