(* C15, "no loss": the domain on which P_C15_no_loss is PROVED of the model's own execute_for
   (Properties/C15.v: C15_no_loss).  Two guards, both true of what the check generates:

   1. the DTO classes (noloss_schema): every DTO attribute a Peer field is read from is a single-valued
      (ForbidChange) field, `families` is a Unite field, `local_as` is not a DTO attribute (PeerOptions.local_as
      is read from `asnum`).  Evaluated on the schemas of the real classes by the check (schema_guards).
   2. the case (noloss_case): a row of the handler table (e_table) that P_C15_no_loss speaks about -- rule id
      matches (l, r), l <> r, one of them is the device d -- is the answer of a handler call execute_for(d)
      really makes (the row is found by case_handler for a registered direct rule, a neighbour and one of
      its port groups; or for a registered indirect rule and a known device), and what the handler writes is
      well-formed for the DTO class (attributes of the class, each set once, plain values).
      A row no call ever reads (shadowed by an earlier row, ports that are no port group, a rule id that is
      not registered) is outside the claim: nothing "called" it.  *)
From Coq Require Import List String Ascii Bool Arith ZArith.
From Annet Require Import Model.Merge Model.Mesh Model.MeshExec Spec.P_C15 Spec.P_C15_iface Spec.P_C15_seq.
Import ListNotations.
Open Scope string_scope.
Open Scope list_scope.

(* the DTO attributes Spec.P_C15_seq.carried compares by value *)
Definition read_fields (opt_fields : list string) : list string :=
  ["addr"; "asnum"; "description"; "group_name"; "vrf"; "import_policy"; "export_policy"; "update_source"] ++
  filter (fun g => negb (String.eqb g "local_as")) opt_fields.

Definition noloss_schema (opt_fields : list string) (dto : schema) : bool :=
  forallb (fun f => match lookup f dto with Some MForbidChange => true | _ => false end) (read_fields opt_fields) &&
  match lookup "families" dto with Some MUnite => true | _ => false end &&
  match lookup "local_as" dto with None => true | Some _ => false end.

Definition wf_out (dto : schema) (out : entries * entries * entries) : Prop :=
  let '(el, er, es) := out in wf_obj dto el = true /\ wf_obj dto er = true /\ wf_obj dto es = true.

(* execute_for(d) calls the handler of direct rule `id` for (l, r) with the ports of one port group and gets `out` *)
Definition called_direct (c : ecase) (d : string) (id : nat) (l r : string) (out : entries * entries * entries) : Prop :=
  let other := if String.eqb l d then r else l in
  exists rl g,
    In rl (e_drules c) /\ r_id rl = id /\ In other (case_neighbors c d) /\
    In g (port_groups (r_pp rl) (case_connections c d other)) /\
    case_handler c id l r (if String.eqb l d then map fst g else map snd g) = out.

(* ... of indirect rule `id` for (l, r), no ports *)
Definition called_indirect (c : ecase) (d : string) (id : nat) (l r : string) (out : entries * entries * entries) : Prop :=
  let other := if String.eqb l d then r else l in
  exists rl, In rl (e_irules c) /\ r_id rl = id /\ In other (e_devices c) /\ case_handler c id l r [] = out.

Definition noloss_case (sch_direct sch_indirect : schema) (c : ecase) : Prop :=
  forall d e, In d (e_devices c) -> In e (e_table c) ->
    let '(id, l, r, _) := fst e in
    case_matches c id l r = true -> l <> r -> (l = d \/ r = d) ->
    (called_direct c d id l r (snd e) /\ wf_out sch_direct (snd e)) \/
    (called_indirect c d id l r (snd e) /\ wf_out sch_indirect (snd e)).

(* ---- the same guard as a boolean (so that the check can count the generated cases inside the domain) ---- *)

Fixpoint find_idx {A : Type} (p : A -> bool) (l : list A) : option nat :=
  match l with
  | [] => None
  | x :: r => if p x then Some 0 else match find_idx p r with Some i => Some (S i) | None => None end
  end.

(* the row test of case_handler *)
Definition row_hit (id : nat) (l r : string) (ports : list string)
           (e : hkey * (entries * entries * entries)) : bool :=
  let '(i, l', r', p') := fst e in
  Nat.eqb i id && String.eqb l' l && String.eqb r' r && same_set p' ports.

Definition hit_is (c : ecase) (id : nat) (l r : string) (ports : list string) (i : nat) : bool :=
  match find_idx (row_hit id l r ports) (e_table c) with Some j => Nat.eqb j i | None => false end.

Definition wf_out_b (dto : schema) (out : entries * entries * entries) : bool :=
  let '(el, er, es) := out in wf_obj dto el && wf_obj dto er && wf_obj dto es.

Definition called_direct_b (c : ecase) (d : string) (id : nat) (l r : string) (i : nat) : bool :=
  let other := if String.eqb l d then r else l in
  sin other (case_neighbors c d) &&
  existsb (fun rl =>
    Nat.eqb (r_id rl) id &&
    existsb (fun g => hit_is c id l r (if String.eqb l d then map fst g else map snd g) i)
            (port_groups (r_pp rl) (case_connections c d other))) (e_drules c).

Definition called_indirect_b (c : ecase) (d : string) (id : nat) (l r : string) (i : nat) : bool :=
  let other := if String.eqb l d then r else l in
  sin other (e_devices c) && existsb (fun rl => Nat.eqb (r_id rl) id) (e_irules c) && hit_is c id l r [] i.

Definition noloss_case_b (sch_direct sch_indirect : schema) (c : ecase) : bool :=
  forallb (fun d =>
    forallb (fun i =>
      match nth_error (e_table c) i with
      | None => true
      | Some e =>
        let '(id, l, r, _) := fst e in
        if case_matches c id l r && negb (String.eqb l r) && (String.eqb l d || String.eqb r d)
        then (called_direct_b c d id l r i && wf_out_b sch_direct (snd e)) ||
             (called_indirect_b c d id l r i && wf_out_b sch_indirect (snd e))
        else true
      end) (seq 0 (List.length (e_table c)))) (e_devices c).
