(* C09, formatter side — declarative references on block streams and patch trees: what
   `annet patch` shows vs. the command paths handed to the deployer.  Depends only on
   Model/Blocks.v (no generated table), so other properties can reuse it. *)
From Coq Require Import List String Ascii Bool Arith.
From Annet Require Import Base.Str Model.Order Model.Patch Model.Blocks.
Import ListNotations.
Open Scope string_scope.
Open Scope list_scope.

(* ------------------------------------------------------------------------------------ *)
(* What is shown vs. what is sent, on block streams                                       *)

(* the block-structured formatter families (Juniper/Nokia/RouterOS patches are flattened) *)
Definition block_family (f : family) : bool :=
  match f with FJuniper _ _ | FRos => false | _ => true end.

(* a command path as a displayed line: nesting depth and the command itself *)
Definition lv (p : list string) : nat * string := (List.length p - 1, last p "").

(* the path of every row of a stream, in order, before the ordered dict of cmd_paths *)
Fixpoint raw_paths (s : list elem) (path : list string) : list (list string) :=
  match s with
  | [] => []
  | BBegin :: r => raw_paths r (path ++ [last path ""])
  | BEnd :: r => raw_paths r (removelast path)
  | Row x :: r => let path' := removelast path ++ [x] in path' :: raw_paths r path'
  end.

(* well-bracketed: no block end below the starting level, no block begin before the first row
   ([started] = a row has been seen, i.e. the path stack is non-empty) *)
Fixpoint wb (s : list elem) (level : nat) (started : bool) : bool :=
  match s with
  | [] => true
  | Row _ :: r => wb r level true
  | BBegin :: r => started && wb r (S level) true
  | BEnd :: r => match level with O => false | S l => wb r l true end
  end.

Fixpoint nodupb (l : list (list string)) : bool :=
  match l with
  | [] => true
  | x :: r => negb (existsb (list_str_eqb x) r) && nodupb r
  end.

Fixpoint nodup_str (l : list string) : bool :=
  match l with
  | [] => true
  | x :: r => negb (existsb (String.eqb x) r) && nodup_str r
  end.

(* ------------------------------------------------------------------------------------ *)
(* The displayed patch, by recursion on the patch tree: every row at its depth, every block
   followed by the exit statement the vendor prescribes for its header *)

Definition item := (string * option ptree * skey)%type.

Definition next_row (l : list item) : option string :=
  match l with (n, _, _) :: _ => if is_empty n then None else Some n | [] => None end.

Fixpoint shown (f : family) (parent : string) (d : nat) (t : ptree) {struct t} : list (nat * string) :=
  match t with
  | PT items =>
    (fix go (l : list item) : list (nat * string) :=
       match l with
       | [] => []
       | (row, child, _) :: l' =>
         (d, row) ::
         match child with
         | Some ct => shown f row (S d) ct ++ indent_lines (exit_stmt f parent row (next_row l')) d
         | None => []
         end ++ go l'
       end) items
  end.

(* exit statements shown one level deeper than the header (wrapped) / at the header's level *)
Definition exit_wrapped (es : list elem) : list string :=
  match es with [BBegin; Row e; BEnd] => [e] | _ => [] end.
Definition exit_inline (es : list elem) : list string :=
  match es with [Row e] => [e] | _ => [] end.

(* the rows displayed at one nesting level under one header *)
Fixpoint level_rows (f : family) (parent : string) (l : list item) : list string :=
  match l with
  | [] => []
  | (row, child, _) :: l' =>
    row :: match child with
           | Some _ => exit_inline (exit_stmt f parent row (next_row l'))
           | None => []
           end ++ level_rows f parent l'
  end.

(* the property's domain: sibling rows are distinct and none equals an exit statement shown
   at the same level (the exit of its own block, or an inline exit of a sibling block) *)
Fixpoint sib_distinct (f : family) (parent : string) (t : ptree) {struct t} : bool :=
  match t with
  | PT items =>
    nodup_str (level_rows f parent items) &&
    (fix go (l : list item) : bool :=
       match l with
       | [] => true
       | (row, child, _) :: l' =>
         match child with
         | Some ct =>
           sib_distinct f row ct &&
           forallb (fun e => negb (existsb (String.eqb e) (level_rows f row (pitems ct))))
                   (exit_wrapped (exit_stmt f parent row (next_row l')))
         | None => true
         end && go l'
       end) items
  end.

