(* C01 for %ordered rules: the ORDER of the rows of an %ordered rule is part of the device state.
   DESIGN.md §3.C01 (device: a direct command whose slot is free appends at the end of the level;
   same slot / same text enters; same slot / other text re-creates the entry at the end; a removal
   deletes).  Extends Spec/P_C01.v under new names; nothing of P_C01.v changes meaning.

   - [ord_seq rs f]: the rows of a level that are governed by an %ordered rule, in the order the
     level holds them;
   - [seq_agree dev new]: on every level reachable through rows both hold, the %ordered rows of the
     device are those of new AS A SEQUENCE;
   - [prune]: rows no rule knows that sit below an %ordered row are not claimed to survive (the
     logic `ordered` deletes and re-creates a MOVED block);
   - [wf_step_o]: the domain - that of [wf_step] with %ordered rules (ordered_diff + logic ordered)
     allowed, at most one %ordered rule governing rows of a level (what every shipped rulebook
     does; the patch is sorted by rule text, so rows of two %ordered rules cannot be interleaved,
     [C01_two_ordered_rules_refuted]), and below an %ordered row only rules that never decline a
     change (default / undo_redo / ordered);
   - [ord_keys_ok_b]: the ordering rulebook gives all direct commands of %ordered rows of a level
     the same sort key (it does not tear the sequence apart);
   - [step_eval_o]: the clauses of P_C01 and, computed from the same device state, the clauses of
     the ordered reading: reaches expected as a dict AND new's %ordered sequences; the second patch
     changes neither; it is empty and the second diff is empty when nothing was declined;
   - [P_C01o]: along a chain;  [c01o_report]/[report_ok_o]: what the harness reads
     (Proofs/ConvergeOrdReport.v: report_ok_o -> c01_holds /\ c01o_holds). *)
From Coq Require Import List String Ascii Bool Arith ZArith.
From Annet Require Import Base.Str Base.Tree Model.Pattern Model.Rulebook Model.Diff Model.Order
     Model.Patch Model.Blocks Model.Pipeline Model.Device Spec.PipelineCase Spec.P_C01.
Import ListNotations.
Open Scope string_scope.
Open Scope list_scope.

Section SpecO.
  Variable rmatch : string -> string -> option (list string).

  Definition ord_entry (rs : rset) (e : string * tree) : bool :=
    match slot_of rmatch rs (fst e) with Some m => is_ordered m | None => false end.
  (* the %ordered rows of a level, in the order the level holds them *)
  Definition ord_seq (rs : rset) (f : forest) : list string := map fst (filter (ord_entry rs) f).

  (* a: the device, b: the target *)
  Fixpoint seq_agree_t (a : tree) (rs : rset) (b : forest) {struct a} : bool :=
    match a with
    | T ka =>
      list_str_eqb (ord_seq rs ka) (ord_seq rs b) &&
      (fix go (l : forest) : bool :=
         match l with
         | [] => true
         | (r, t) :: l' =>
           match match_row rmatch r rs, tfind r b with
           | Some (_, crs), Some t' => seq_agree_t t crs (kids t')
           | _, _ => true
           end && go l'
         end) ka
    end.
  Definition seq_agree (rs : rset) (a b : forest) : bool := seq_agree_t (T a) rs b.

  (* rows no rule knows are dropped below an %ordered row *)
  Fixpoint prune_t (t : tree) (under : bool) (rs : rset) {struct t} : forest :=
    match t with
    | T ks =>
      (fix go (l : forest) : forest :=
         match l with
         | [] => []
         | (r, c) :: l' =>
           match match_row rmatch r rs with
           | Some (s, crs) => (r, T (prune_t c (under || is_ordered s) crs)) :: go l'
           | None => if under then go l' else (r, c) :: go l'
           end
         end) ks
    end.
  Definition prune (rs : rset) (f : forest) : forest := prune_t (T f) false rs.

  (* a rule that never declines a change *)
  Definition never_declines (m : minfo) : bool :=
    (dlogic_eqb (a_dlogic (mi_attrs m)) DDefault &&
     match a_logic (mi_attrs m) with LDefault | LUndoRedo => true | _ => false end) ||
    (is_ordered m && logic_eqb (a_logic (mi_attrs m)) LOrdered).

  Definition all_same (l : list string) : bool :=
    match l with [] => true | x :: r => forallb (String.eqb x) r end.

  (* on the universe of rows: one %ordered rule per level; only never-declining rules below an
     %ordered row *)
  Fixpoint ord_dom_t (t : tree) (under : bool) (rs : rset) {struct t} : bool :=
    match t with
    | T ks =>
      all_same (flat_map (fun e : string * tree =>
                            match slot_of rmatch rs (fst e) with
                            | Some m => if is_ordered m then [mi_raw m] else []
                            | None => []
                            end) ks) &&
      (fix go (l : forest) : bool :=
         match l with
         | [] => true
         | (r, c) :: l' =>
           match match_row rmatch r rs with
           | Some (s, crs) =>
             (negb under || never_declines s) && ord_dom_t c (under || is_ordered s) crs && go l'
           | None => go l'
           end
         end) ks
    end.
  Definition ord_dom (rs : rset) (u : forest) : bool := ord_dom_t (T u) false rs.

  (* does an %ordered rule govern a row anywhere *)
  Fixpoint has_ordered_t (t : tree) (rs : rset) {struct t} : bool :=
    match t with
    | T ks =>
      (fix go (l : forest) : bool :=
         match l with
         | [] => false
         | (r, c) :: l' =>
           match match_row rmatch r rs with
           | Some (s, crs) => is_ordered s || has_ordered_t c crs || go l'
           | None => go l'
           end
         end) ks
    end.

  Definition sk_ord_eqb (a b : skey) : bool :=
    match znum_compare (fst (fst a)) (fst (fst b)) with Eq => Bool.eqb (snd a) (snd b) | _ => false end.

  (* all direct commands of %ordered rows of one level of the patch carry the same (order, direct)
     part of the sort key, at every level *)
  Fixpoint ord_keys_ok_b (p : ptree) : rset -> bool :=
    match p with
    | PT items =>
      fun rs =>
        let oks := flat_map (fun i : string * option ptree * skey =>
                               match match_row rmatch (fst (fst i)) rs with
                               | Some (s, _) => if is_ordered s then [snd i] else []
                               | None => []
                               end) items in
        match oks with [] => true | k :: r => forallb (sk_ord_eqb k) r end &&
        (fix go (l : list (string * option ptree * skey)) : bool :=
           match l with
           | [] => true
           | (row, child, _) :: l' =>
             match match_row rmatch row rs, child with
             | Some (_, crs), Some ct => ord_keys_ok_b ct crs
             | _, _ => true
             end && go l'
           end) items
    end.
End SpecO.

(* ------------------------------------------------------------------ instantiated *)

Definition allow_o (m : minfo) : bool :=
  allow_eval m || (is_ordered m && logic_eqb (a_logic (mi_attrs m)) LOrdered).

Definition p_seq_agree := seq_agree pm.
Definition p_prune := prune pm.
Definition p_ord_dom := ord_dom pm.
Definition p_ord_seq := ord_seq pm.

Definition wf_step_o (v : vendor) (rs : rset) (old new : forest) : bool :=
  wf_step_with allow_o v rs old new && p_ord_dom rs (merge old new).

Definition obs_ord_keys_ok (rs : rset) (o : obs01) : bool :=
  match o_patch o with Some pt => ord_keys_ok_b pm pt rs | None => true end.

Definition bad_clauses := Clauses false false false false false false.

(* the clauses of P_C01 (first component, = fst (step_eval ...)) and of the ordered reading
   (second component), from one evaluation of Device.exec / expected *)
Definition step_eval_o (v : vendor) (rs : rset) (old new : forest) (o : obs01) : clauses * clauses * forest :=
  match o_patch o with
  | None => (bad_clauses, bad_clauses, old)
  | Some _ =>
    let ps := o_paths o in
    let dev := p_exec v rs ps old in
    let exp := p_expected rs old new in
    let ft := sim_b (p_known rs exp) (p_known rs new) in
    let dev2 := match o_paths2 o with Some ps2 => Some (p_exec v rs ps2 dev) | None => None end in
    let noop := match dev2 with Some d2 => sim_b d2 dev | None => false end in
    let em := negb ft || match o_paths2 o with Some [] => true | _ => false end in
    let de := negb ft || is_nil (o_diff2 o) in
    (Clauses true (sim_b dev exp) noop em de ft,
     Clauses true
             (sim_b (p_prune rs dev) (p_prune rs exp) && p_seq_agree rs dev new)
             (noop && match dev2 with Some d2 => p_seq_agree rs d2 dev | None => false end)
             em de ft,
     dev)
  end.

Definition guard_o (v : vendor) (rs : rset) (dev new : forest) (o : obs01) : bool :=
  wf_step_o v rs dev new && obs_order_ok v rs o && obs_ord_keys_ok rs o.

Fixpoint chain_eval_o (v : vendor) (rs : rset) (dev : forest) (steps : list (forest * obs01)) : list (bool * clauses) :=
  match steps with
  | [] => []
  | (new, o) :: rest =>
    let g := guard_o v rs dev new o in
    let '(_, cl, dev') := step_eval_o v rs dev new o in
    (g, cl) :: (if g && cl_no_error cl then chain_eval_o v rs dev' rest else [])
  end.

(* THE predicate of the ordered reading, along a chain *)
Definition P_C01o (v : vendor) (rs : rset) (dev : forest) (steps : list (forest * obs01)) : bool :=
  forallb (fun x : bool * clauses => negb (fst x) || clauses_ok (snd x)) (chain_eval_o v rs dev steps).

Definition c01o_holds (c : c01case) : bool := P_C01o (cc_vendor c) (cc_rules c) (cc_old c) (c01_obs c).

(* the model pipeline under the ordered reading: the domain of the theorems *)
Definition order_ok_o (v : vendor) (rs : rset) (ordering : list orule) (old new : forest) : bool :=
  match snd (diff_and_patch v rs ordering old new) with
  | POk pt => undo_first_b pm (prreverse v) pt rs && ord_keys_ok_b pm pt rs
  | PErr => false
  end.

(* ------------------------------------------------------------------ the report of the harness *)
(* per step: the 14 flags of P_C01.chain_report (same meaning), then
     [wf_step_o; in the ordered domain (guard_o); an %ordered rule governs a row of the universe;
      reaches_o; second_noop_o]
   (no_error, second_empty, diff_empty and nothing_declined are shared). *)
Fixpoint chain_report_o (c : c01case) (dev : forest) (steps : list c01step) : list (list bool) :=
  match steps with
  | [] => []
  | st :: rest =>
    let v := cc_vendor c in
    let rs := cc_rules c in
    let o := step_obs st in
    let u := merge dev (s_new st) in
    let w := wf_step v rs dev (s_new st) in
    let g := w && obs_order_ok v rs o in
    let au := annot pm rs (T u) in
    let strict := g && rows_allow allow_strict au in
    let wo := wf_step_o v rs dev (s_new st) in
    let go := wo && obs_order_ok v rs o && obs_ord_keys_ok rs o in
    let '(cl, clo, dev') := step_eval_o v rs dev (s_new st) o in
    let same := negb (cl_no_error cl) || forest_eqb dev' (s_dev st) in
    let pc := PCase v rs (cc_ordering c) dev (s_new st) (s_diff_full st) [] (s_patch st) (s_paths st) [] in
    [g; strict; cl_nothing_declined cl;
     cl_no_error cl; cl_reaches cl; cl_second_noop cl; cl_second_empty cl; cl_diff_empty cl;
     same; agree_diff_full pc; agree_patch pc; agree_paths pc;
     w; block_family (v_family v) && g && rows_allow allow_A au;
     wo; go; has_ordered_t pm (T u) rs; cl_reaches clo; cl_second_noop clo]
    :: (if cl_no_error cl && same then chain_report_o c dev' rest else [])
  end.
Definition c01o_report (c : c01case) : list (list bool) := chain_report_o c (cc_old c) (cc_steps c).

Definition step_report_ok_o (fl : list bool) : bool :=
  match fl with
  | [g; _; _; ne; re; no; em; de; same; _; _; _; _; _; _; go; _; reo; noo] =>
    same && (negb g || (ne && re && no && em && de)) && (negb go || (ne && reo && noo && em && de))
  | _ => false
  end.
Definition report_ok_o (r : list (list bool)) : bool := forallb step_report_ok_o r.
