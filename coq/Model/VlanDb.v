(* Model of the Huawei global VLAN database (shipped huawei.rul):
       vlan batch        %diff_logic=huawei.vlandb.vlan_diff %logic=huawei.vlandb.multi
       vlan */\d+/       %diff_logic=huawei.vlandb.vlan_diff
           name                                   (+ the global rules `description` and `~`)
   i.e. annet/rulebook/huawei/vlandb.py vlan_diff on top of common.default_diff, mark_unchanged,
   make_pre, the `multi` logic of the `vlan batch` slot (Model/Vlan.v) and common.default for
   the `vlan N` slots and for their option rows.
   The VLANs of the device are the union of the `vlan batch` lines (any number of them: the
   device wraps the list after 10 ranges) and of the `vlan N` blocks (with or without option
   rows).  Commands: `vlan batch ...` / `undo vlan batch ...` add / remove the written VLANs,
   entering a block `vlan N` creates VLAN N, `undo vlan N` removes it.
   No proofs here. *)
From Coq Require Import List String Ascii Bool Arith NArith.
From Annet Require Import Base.Str Model.Vlan.
Import ListNotations.
Open Scope string_scope.
Open Scope list_scope.

(* a top-level row with its child rows (config text and patch text) *)
Definition trow := (string * list string)%type.
(* a `vlan N` block with its child rows, verbatim *)
Definition blk := (N * list string)%type.
(* the VLAN database of one configuration: `vlan batch` lines, `vlan N` blocks *)
Definition dbcfg := (list line * list blk)%type.

Definition k_batch : rulek := RK HwMulti "vlan batch" "undo vlan batch" false.

Fixpoint ids_of (bs : list blk) : NS.t :=
  match bs with [] => NS.empty | b :: r => NS.add (fst b) (ids_of r) end.

(* the VLAN set a configuration denotes *)
Definition set_of_db (c : dbcfg) : NS.t := NS.union (set_of_lines (fst c)) (ids_of (snd c)).

(* ------------------------------------------------------------------------------------ *)
(* commands of the global VLAN database *)

Inductive gcmd :=
| GBatch (c : cmd)                       (* vlan batch ... / undo vlan batch ... *)
| GEnter (n : N) (kids : list string)    (* vlan N  [+ option rows]: creates VLAN N when missing *)
| GUndo (n : N).                         (* undo vlan N: wipes VLAN N (batch entry included) *)

Definition effect (g : gcmd) : cmd :=
  match g with
  | GBatch c => c
  | GEnter n _ => Add [(n, n)]
  | GUndo n => Remove [(n, n)]
  end.

Definition gsimulate (cs : list gcmd) (s : NS.t) : NS.t := simulate (map effect cs) s.
Definition gstates (cs : list gcmd) (s : NS.t) : list NS.t := states (map effect cs) s.

(* ------------------------------------------------------------------------------------ *)
(* option rows of a `vlan N` block: the rules `name` (local), `description` (global), both with
   the empty key, and the global catch-all `~` (key = the row, reverse `undo <row>`) for every
   other row.  Rows starting with `undo` (global rule `undo ~`) are outside the model. *)

Inductive crule := CName | CDescr | COther.

Definition crule_eqb (a b : crule) : bool :=
  match a, b with CName, CName | CDescr, CDescr | COther, COther => true | _, _ => false end.

Definition child_rule (row : string) : crule :=
  match words row with
  | w :: _ => if String.eqb w "name" then CName
              else if String.eqb w "description" then CDescr else COther
  | [] => COther
  end.

(* rule["reverse"]: neg = the vendor's negation word (huawei "undo", cisco "no") *)
Definition crule_reverse (neg : string) (c : crule) : string :=
  match c with
  | CName => (neg ++ " name")%string
  | CDescr => (neg ++ " description")%string
  | COther => neg
  end.

Definition is_rule (c : crule) (row : string) : bool := crule_eqb c (child_rule row).

(* common.default on the slot of one option rule with the empty key: None = "Too many ... actions" *)
Definition child_patch1 (neg : string) (c : crule) (ko kn : list string) : option (list string) :=
  let a := filter (fun r => is_rule c r && negb (mem_str r ko)) kn in
  let r := filter (fun r => is_rule c r && negb (mem_str r kn)) ko in
  if Nat.ltb 1 (List.length a) || Nat.ltb 1 (List.length r) then None
  else match a, r with
       | x :: _, _ => Some [x]
       | [], _ :: _ => Some [crule_reverse neg c]
       | [], [] => Some []
       end.

(* rows of the catch-all rule: one slot per row *)
Definition other_patch (neg : string) (ko kn : list string) : list string :=
  map (fun r => (neg ++ " " ++ r)%string) (filter (fun r => is_rule COther r && negb (mem_str r kn)) ko) ++
  filter (fun r => is_rule COther r && negb (mem_str r ko)) kn.

(* the patch rows inside the block for old option rows ko and new option rows kn *)
Definition child_patch_g (neg : string) (ko kn : list string) : option (list string) :=
  match child_patch1 neg CName ko kn, child_patch1 neg CDescr ko kn with
  | Some a, Some b => Some (a ++ b ++ other_patch neg ko kn)
  | _, _ => None
  end.

Definition child_patch := child_patch_g "undo".

(* ------------------------------------------------------------------------------------ *)
(* vlan_diff + mark_unchanged + common.default on the `vlan N` slots.
   bnew = batch_new, the VLAN ids of EVERY `vlan batch` row of the new configuration. *)

Fixpoint lookup_blk (n : N) (bs : list blk) : option (list string) :=
  match bs with
  | [] => None
  | b :: r => if N.eqb (fst b) n then Some (snd b) else lookup_blk n r
  end.

Definition has_blk (n : N) (bs : list blk) : bool :=
  match lookup_blk n bs with Some _ => true | None => false end.

(* a block of the old configuration that the new one does not have (Op.REMOVED):
   - N stays in the batch: REMOVED -> AFFECTED, only the option rows are undone (none: no row);
   - otherwise `undo vlan N` *)
Definition old_block_cmd (bnew : NS.t) (newb : list blk) (b : blk) : option (list gcmd) :=
  if has_blk (fst b) newb then Some [] else
  if NS.mem (fst b) bnew then
    (if is_nil (snd b) then Some []
     else option_map (fun p => [GEnter (fst b) p]) (child_patch (snd b) []))
  else Some [GUndo (fst b)].

(* a block of the new configuration:
   - new (Op.ADDED): dropped when N is in the batch and the block has no option rows, else
     `vlan N` with its option rows;
   - in both (Op.AFFECTED): dropped likewise when neither side has option rows; UNCHANGED (no
     row) when the option rows are the same; else `vlan N` with the option patch *)
Definition new_block_cmd (bnew : NS.t) (oldb : list blk) (b : blk) : option (list gcmd) :=
  match lookup_blk (fst b) oldb with
  | None =>
    if NS.mem (fst b) bnew && is_nil (snd b) then Some []
    else option_map (fun p => [GEnter (fst b) p]) (child_patch [] (snd b))
  | Some ko =>
    if NS.mem (fst b) bnew && is_nil ko && is_nil (snd b) then Some []
    else match child_patch ko (snd b) with
         | None => None
         | Some [] => Some []
         | Some p => Some [GEnter (fst b) p]
         end
  end.

Fixpoint opt_concat {A} (l : list (option (list A))) : option (list A) :=
  match l with
  | [] => Some []
  | None :: _ => None
  | Some x :: r => match opt_concat r with Some y => Some (x ++ y) | None => None end
  end.

Definition block_cmds (bnew : NS.t) (oldb newb : list blk) : option (list gcmd) :=
  opt_concat (map (old_block_cmd bnew newb) oldb ++ map (new_block_cmd bnew oldb) newb).

(* ------------------------------------------------------------------------------------ *)
(* structured level (the theorems are about this function) *)

Definition db_struct (old new : dbcfg) : option (list gcmd) :=
  match model_struct k_batch (fst old) (fst new),
        block_cmds (set_of_lines (fst new)) (snd old) (snd new) with
  | Some cs, Some bs => Some (map GBatch cs ++ bs)
  | _, _ => None
  end.

(* ------------------------------------------------------------------------------------ *)
(* text level: the same pipeline over rows *)

Definition print_blk (b : blk) : trow := (("vlan " ++ str_of_N (fst b))%string, snd b).

Definition print_db (c : dbcfg) : list trow :=
  map (fun l => (print_line k_batch l, [])) (fst c) ++ map print_blk (snd c).

Definition print_gcmd (g : gcmd) : trow :=
  match g with
  | GBatch c => (print_cmd k_batch "vlan batch" "vlan batch" c, [])
  | GEnter n kids => (("vlan " ++ str_of_N n)%string, kids)
  | GUndo n => (("undo vlan " ++ str_of_N n)%string, [])
  end.

(* which of the two rules a top-level row belongs to *)
Definition classify (r : trow) : option (string + blk) :=
  match words (fst r) with
  | [v; n] => if String.eqb v "vlan" && isdigit n then Some (inr (N_of_str n, snd r)) else None
  | v :: b :: _ => if String.eqb v "vlan" && String.eqb b "batch" && is_nil (snd r)
                   then Some (inl (fst r)) else None
  | _ => None
  end.

Fixpoint split_rows (rs : list trow) : option (list string * list blk) :=
  match rs with
  | [] => Some ([], [])
  | r :: rest =>
    match classify r, split_rows rest with
    | Some (inl row), Some (bs, ks) => Some (row :: bs, ks)
    | Some (inr b), Some (bs, ks) => Some (bs, b :: ks)
    | _, _ => None
    end
  end.

Definition db_rows (old new : list trow) : option (list trow) :=
  match split_rows old, split_rows new with
  | Some (ob, ok), Some (nb, nk) =>
    match parse_actions hw_parse_vlancfg nb None NS.empty with
    | Some (_, bnew) =>
      match model_rows k_batch ob nb, block_cmds bnew ok nk with
      | Some rows, Some bs => Some (map (fun r => (r, [])) rows ++ map print_gcmd bs)
      | _, _ => None
      end
    | None => None
    end
  | _, _ => None
  end.

(* ------------------------------------------------------------------------------------ *)
(* reading emitted rows back as commands *)

Definition parse_gcmd (r : trow) : option gcmd :=
  let generic := if is_nil (snd r) then option_map GBatch (parse_cmd k_batch (fst r)) else None in
  match words (fst r) with
  | [v; n] => if String.eqb v "vlan" && isdigit n then Some (GEnter (N_of_str n) (snd r)) else generic
  | [u; v; n] => if String.eqb u "undo" && String.eqb v "vlan" && isdigit n && is_nil (snd r)
                 then Some (GUndo (N_of_str n)) else generic
  | _ => generic
  end.

Fixpoint parse_gcmds (rows : list trow) : option (list gcmd) :=
  match rows with
  | [] => Some []
  | r :: rest => match parse_gcmd r, parse_gcmds rest with
                 | Some c, Some cs => Some (c :: cs)
                 | _, _ => None
                 end
  end.

(* ------------------------------------------------------------------------------------ *)
(* comparison of patch rows: top level and inside a block up to order *)

Definition trow_eqb (a b : trow) : bool := String.eqb (fst a) (fst b) && perm_str_eqb (snd a) (snd b).

Fixpoint count_trow (x : trow) (l : list trow) : nat :=
  match l with [] => 0 | y :: r => (if trow_eqb x y then 1 else 0) + count_trow x r end.

Definition perm_trow_eqb (a b : list trow) : bool :=
  Nat.eqb (List.length a) (List.length b) &&
  forallb (fun x => Nat.eqb (count_trow x a) (count_trow x b)) a.

Fixpoint trows_eqb (a b : list trow) : bool :=
  match a, b with
  | [], [] => true
  | x :: a', y :: b' => String.eqb (fst x) (fst y) && list_str_eqb (snd x) (snd y) && trows_eqb a' b'
  | _, _ => false
  end.
