(* C18 — executable model of
     annet/annlib/netdev/db.py            (get_db, _build_tree, _make_allowed_by_seq,
                                           _make_seq_variants, find_true_sequences)
     annet/annlib/netdev/devdb/__init__.py (parse_hw_model)
     annet/annlib/netdev/views/hardware.py (HardwareLeaf.__getattr__/__bool__, HardwareView.match)
     annet/vendors/registry.py             (Registry.match)
   No proofs here.  Regex search is abstract: `hit r m` stands for
   `re.compile(<source of regex id r>).search(m) is not None`. *)
From Coq Require Import List String Bool Arith.
From Annet Require Import Base.Str.
Import ListNotations.
Open Scope string_scope.
Open Scope list_scope.

Definition seq := list string.          (* ("Cisco","Nexus","N9x")  *)
Definition rid := nat.                  (* id of a distinct regex source *)
Definition db := list (seq * rid).      (* devdb.json in file order (keys are unique) *)

Definition seq_eqb (a b : seq) : bool := list_str_eqb a b.
Definition mem (s : seq) (l : list seq) : bool := existsb (seq_eqb s) l.

(* a Python set literal/comprehension: duplicates collapse *)
Fixpoint dedup (l : list seq) : list seq :=
  match l with
  | [] => []
  | x :: r => if mem x r then dedup r else x :: dedup r
  end.

Fixpoint lookup {B : Type} (s : seq) (l : list (seq * B)) : option B :=
  match l with
  | [] => None
  | (k, v) :: r => if seq_eqb s k then Some v else lookup s r
  end.

Definition keys (d : db) : list seq := map fst d.

(* all prefixes of l, shortest first, including [] and l itself *)
Fixpoint prefixes {A : Type} (l : list A) : list (list A) :=
  match l with
  | [] => [[]]
  | x :: r => [] :: map (cons x) (prefixes r)
  end.

Fixpoint suffixes {A : Type} (l : list A) : list (list A) :=
  match l with
  | [] => [[]]
  | _ :: r => l :: suffixes r
  end.

(* _seq_subs: seq[:1], seq[:2], ..., seq *)
Definition seq_subs (s : seq) : list seq := tl (prefixes s).

(* _make_seq_variants: { seq[left:-right] + (seq[-1],) } = every contiguous piece of
   seq[:-1] (the empty piece included) followed by the last name *)
Definition variants (s : seq) : list seq :=
  match s with
  | [] => []
  | _ => dedup (map (fun piece => piece ++ [last s ""]) (flat_map prefixes (suffixes (removelast s))))
  end.

(* _make_allowed_by_seq: a variant is usable iff it is a variant of one sequence only
   (Counter over the per-sequence variant sets) *)
Definition all_variants (d : db) : list seq := flat_map (fun e => variants (fst e)) d.
Definition count (v : seq) (l : list seq) : nat := List.length (filter (seq_eqb v) l).
Definition allowed_of (allv : list seq) (s : seq) : list seq :=
  filter (fun v => Nat.leb (count v allv) 1) (variants s).
Definition make_allowed (d : db) : list (seq * list seq) :=
  let allv := all_variants d in
  map (fun e => (fst e, allowed_of allv (fst e))) d.

(* the tree of _build_tree: one dict level = list of nodes keyed by regex (id), each
   with the "sequences" set it was created with and its "children" level *)
Inductive node := Node (r : rid) (ss : list seq) (kids : list node).

(* walk down `path`, creating the nodes that are missing (`if regexp not in sub`) *)
Fixpoint ins (path : list (rid * list seq)) (t : list node) : list node :=
  match path with
  | [] => t
  | (r, ss) :: rest =>
    (fix go (t : list node) : list node :=
       match t with
       | [] => [Node r ss (ins rest [])]
       | Node r' ss' k :: t' =>
         if Nat.eqb r r' then Node r' ss' (ins rest k) :: t'
         else Node r' ss' k :: go t'
       end) t
  end.

Fixpoint sequence {A : Type} (l : list (option A)) : option (list A) :=
  match l with
  | [] => Some []
  | None :: _ => None
  | Some x :: r => match sequence r with Some xs => Some (x :: xs) | None => None end
  end.

(* for sub_seq in _seq_subs(seq): (prepared[sub_seq], allowed_by_seq[sub_seq]); a missing
   key is Python's KeyError = None *)
Definition path_of (d : db) (al : list (seq * list seq)) (s : seq) : option (list (rid * list seq)) :=
  sequence (map (fun p => match lookup p d, lookup p al with
                          | Some r, Some a => Some (r, a)
                          | _, _ => None
                          end) (seq_subs s)).

Fixpoint build (d : db) (al : list (seq * list seq)) (todo : db) (t : list node) : option (list node) :=
  match todo with
  | [] => Some t
  | (s, _) :: r =>
    match path_of d al s with
    | Some p => build d al r (ins p t)
    | None => None
    end
  end.

(* get_db(prepared) = (tree, all sequences); None = KeyError while building *)
Definition build_tree (d : db) : option (list node) := build d (make_allowed d) d [].
Definition all_sequences (d : db) : list seq := dedup (flat_map snd (make_allowed d)).

Section Hit.
  Variable M : Type.                      (* hardware model strings *)
  Variable hit : rid -> M -> bool.        (* regexp.search(hw_model) *)

  (* find_true_sequences *)
  Fixpoint node_true (m : M) (n : node) : list seq :=
    match n with
    | Node r ss kids => if hit r m then ss ++ flat_map (node_true m) kids else []
    end.
  Definition tree_true (m : M) (t : list node) : list seq := flat_map (node_true m) t.

  Definition true_sequences (d : db) (m : M) : option (list seq) :=
    option_map (tree_true m) (build_tree d).
End Hit.

(* HardwareView.match(expr) with expr already split at dots and the "hw" head dropped:
   reduce(getattr, path, self) needs every non-empty prefix to be a known sequence (true
   or false), otherwise AttributeError (= None); then bool(leaf) = path in true_sequences *)
Definition hw_match (tr all : list seq) (path : seq) : option bool :=
  if forallb (fun p => mem p tr || mem p all) (seq_subs path)
  then Some (match path with [] => true | _ => mem path tr end)
  else None.

Inductive vres := VName (n : string) | VNone | VErr.

Definition vres_eqb (a b : vres) : bool :=
  match a, b with
  | VName x, VName y => String.eqb x y
  | VNone, VNone => true
  | VErr, VErr => true
  | _, _ => false
  end.

Definition vendors := list (string * list (seq * nat)).   (* NAME, [(path, item.count("."))] in registration order *)

Definition is_none {A : Type} (o : option A) : bool := match o with None => true | Some _ => false end.

Definition match_err (tr all : list seq) (vs : vendors) : bool :=
  existsb (fun v => existsb (fun it => is_none (hw_match tr all (fst it))) (snd v)) vs.

(* matched.append((vendor, item.count("."))) in iteration order *)
Definition matched (tr all : list seq) (vs : vendors) : list (string * nat) :=
  flat_map (fun v => flat_map (fun it => match hw_match tr all (fst it) with
                                         | Some true => [(fst v, snd it)]
                                         | _ => []
                                         end) (snd v)) vs.

(* sorted(matched, key=itemgetter(1), reverse=True): stable, descending *)
Fixpoint insert_desc (x : string * nat) (l : list (string * nat)) : list (string * nat) :=
  match l with
  | [] => [x]
  | y :: r => if Nat.ltb (snd x) (snd y) then y :: insert_desc x r else x :: y :: r
  end.
Definition sort_desc (l : list (string * nat)) : list (string * nat) := fold_right insert_desc [] l.

(* Registry.match(hw, None) as called by hw_to_vendor *)
Definition registry_match (tr all : list seq) (vs : vendors) : vres :=
  if match_err tr all vs then VErr
  else match sort_desc (matched tr all vs) with
       | [] => VNone
       | (n, _) :: _ => VName n
       end.

(* HardwareView(model).vendor for a model whose regex hits are `hit _ m` *)
Definition vendor_of (M : Type) (hit : rid -> M -> bool) (d : db) (vs : vendors) (m : M) : vres :=
  match build_tree d with
  | None => VErr
  | Some t => registry_match (tree_true M hit m t) (all_sequences d) vs
  end.

(* the concrete `hit` used on observed runs: a model is represented by the list of regex
   ids that matched it *)
Definition hit_tbl (r : rid) (m : list nat) : bool := existsb (Nat.eqb r) m.
