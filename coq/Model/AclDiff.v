(* Model of annet/annlib/patching.py apply_acl_diff (used by annlib.filter_acl.filter_diff): the
   ACL of Model/Acl.v applied to a diff.  No proofs. *)
From Coq Require Import List String Ascii Bool Arith.
From Annet Require Import Base.Str Base.Tree Model.Pattern Model.Order Model.Acl.
Import ListNotations.
Open Scope string_scope.
Open Scope list_scope.


(* annlib.types.Op *)
Inductive aop := OpAdded | OpRemoved | OpAffected | OpMoved | OpUnchanged.
Definition aop_eqb (a b : aop) : bool :=
  match a, b with
  | OpAdded, OpAdded | OpRemoved, OpRemoved | OpAffected, OpAffected | OpMoved, OpMoved
  | OpUnchanged, OpUnchanged => true
  | _, _ => false
  end.

(* one diff entry (op, row, children, _) *)
Inductive dtree := DT (op : aop) (row : string) (kids : list dtree).

Fixpoint dtree_eqb (a b : dtree) {struct a} : bool :=
  match a, b with
  | DT o r k, DT o' r' k' =>
    aop_eqb o o' && String.eqb r r' &&
    (fix go (l m : list dtree) {struct l} : bool :=
       match l, m with
       | [], [] => true
       | x :: l', y :: m' => dtree_eqb x y && go l' m'
       | _, _ => false
       end) k k'
  end.
Fixpoint dlist_eqb (l m : list dtree) : bool :=
  match l, m with
  | [], [] => true
  | x :: l', y :: m' => dtree_eqb x y && dlist_eqb l' m'
  | _, _ => false
  end.

Section AclDiff.
  Variable rmatch : string -> string -> option (list string).
  Variable rsrc : string -> string.
  Variable rrev : string -> string.
  Variable norm : string -> string.

  (* a matched entry is kept (also through a reverse form: nothing is dropped here); a
     removal governed by a rule with all cant_delete set is turned into "affected" *)
  Fixpoint apply_acl_diff_t (rs : aset) (t : dtree) {struct t} : list dtree :=
    match t with
    | DT op row kids =>
      match match_row_to_acl rmatch rsrc rrev norm row rs false with
      | MSome m crs =>
        [DT (match op with
             | OpRemoved => if forallb (fun b => b) (ar_cd (am_rule m)) then OpAffected else OpRemoved
             | o => o
             end)
            row
            ((fix go (l : list dtree) : list dtree :=
                match l with
                | [] => []
                | k :: l' => apply_acl_diff_t crs k ++ go l'
                end) kids)]
      | _ => []
      end
    end.
  Definition apply_acl_diff (rs : aset) (d : list dtree) : list dtree := flat_map (apply_acl_diff_t rs) d.
End AclDiff.

Definition p_apply_acl_diff (v : avendor) := apply_acl_diff acl_pm acl_psrc (acl_prev v) (acl_norm v).
