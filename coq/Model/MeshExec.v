(* Model of MeshExecutor.execute_for as a whole (annet/mesh/executor.py): the three rule loops
   (_execute_direct from Model/Mesh.v, _execute_virtual, _execute_indirect), the three interface
   decision tables (_apply_direct_interface_changes, _apply_indirect_interface_changes,
   _apply_virtual_interface_changes), models_converter.to_interface_changes / InterfaceChanges and
   models_converter.to_bgp_peer.  No proofs here.

   The storage adapter is abstracted as in Model/Mesh.v (connections) plus:
   * the device is the list of its interface names and the log of Interface.add_addr calls;
     Device.make_lag / add_svi / add_subif follow the contract of annet.storage.Device ("add ... or
     return existing one"): the interface with the computed name is reused when present, appended
     otherwise;
   * the names the adapter gives to a LAG, an SVI and a sub-interface are parameters (`naming`);
     `stub_naming` is what the correspondence stub (and annet.adapters.netbox for sub-interfaces) uses.
   Exceptions: ValueError = FValue, any other exception = FOther. *)
From Coq Require Import List String Ascii Bool Arith ZArith DecimalString.
From Annet Require Import Model.Merge Model.Mesh.
Import ListNotations.
Open Scope string_scope.
Open Scope list_scope.

(* f"{n}" for an int *)
Definition dec (z : Z) : string := NilZero.string_of_int (Z.to_int z).

Record naming := Naming {
  lag_name : Z -> string;
  svi_name : Z -> string;
  subif_name : string -> Z -> string
}.

Definition stub_naming : naming :=
  Naming (fun l => ("Trunk" ++ dec l)%string) (fun v => ("Vlan" ++ dec v)%string)
         (fun b n => (b ++ "." ++ dec n)%string).

Inductive fail := FValue | FOther.

(* ---- InterfaceChanges and to_interface_changes ----------------------------------------------------- *)

Record changes := Changes {
  c_addr : string;
  c_lag : option Z;
  c_lag_links_min : option Z;
  c_svi : option Z;
  c_subif : option Z;
  c_vrf : option string
}.

(* Optional[int] field read through ObjMapping.get: unset and None both give None *)
Definition opt_int (f : string) (e : entries) : fail + option Z :=
  match lookup f e with
  | None => inr None
  | Some (VAtom ANone) => inr None
  | Some (VAtom (AInt z)) => inr (Some z)
  | Some _ => inl FOther                                        (* adaptix LoadError *)
  end.

Definition opt_str (f : string) (e : entries) : fail + option string :=
  match lookup f e with
  | None => inr None
  | Some (VAtom ANone) => inr None
  | Some (VAtom (AStr s)) => inr (Some s)
  | Some _ => inl FOther
  end.

Definition is_some {A : Type} (o : option A) : bool := match o with Some _ => true | None => false end.

(* retort loader of InterfaceChanges from a DTO + InterfaceChanges.__post_init__ *)
Definition to_interface_changes (local : entries) : fail + changes :=
  match lookup "addr" local with
  | Some (VAtom (AStr a)) =>
    match opt_int "lag" local, opt_int "lag_links_min" local, opt_int "svi" local,
          opt_int "subif" local, opt_str "vrf" local with
    | inr lag, inr llm, inr svi, inr subif, inr vrf =>
      if is_some lag && is_some svi then inl FValue            (* "Cannot use LAG and SVI together" *)
      else if is_some svi && is_some subif then inl FValue     (* "Cannot use Subif and SVI together" *)
      else inr (Changes a lag llm svi subif vrf)
    | _, _, _, _, _ => inl FOther
    end
  | _ => inl FOther                                             (* addr is a required str *)
  end.

(* ---- the device: interface names and the add_addr log -------------------------------------------- *)

Definition logrec := (string * string * option string)%type.   (* interface, address/mask, vrf *)

Record dev := Dev {
  d_ifs : list string;
  d_log : list logrec
}.

Definition sin (s : string) (l : list string) : bool := existsb (String.eqb s) l.

(* "add ... or return existing one" *)
Definition add_or_reuse (n : string) (d : dev) : dev :=
  if sin n (d_ifs d) then d else Dev (d_ifs d ++ [n]) (d_log d).

Definition add_addr (n a : string) (v : option string) (d : dev) : dev :=
  Dev (d_ifs d) (d_log d ++ [(n, a, v)]).

(* ---- _apply_direct_interface_changes ------------------------------------------------------------- *)

(* conns: search_connections(device, neighbor) as (local port, remote port); ports: pair.ports.
   Returns the name of the target interface and the device after the call. *)
Definition apply_direct (nm : naming) (conns : list (string * string)) (ports : list string)
           (ch : changes) (d : dev) : fail + (string * dev) :=
  let port_pairs := filter (fun p => sin (fst p) ports) conns in
  if Nat.ltb 1 (List.length port_pairs) && negb (is_some (c_lag ch)) && negb (is_some (c_svi ch))
  then inl FValue                                               (* "Multiple connections found ... Specify LAG or SVI" *)
  else
    let target : fail + (string * dev) :=
      match c_lag ch with
      | Some l =>
        let t := lag_name nm l in
        let d1 := add_or_reuse t d in                           (* device.make_lag *)
        match c_subif ch with
        | Some n => let t2 := subif_name nm t n in inr (t2, add_or_reuse t2 d1)
        | None => inr (t, d1)
        end
      | None =>
        match c_subif ch with
        | Some n =>
          match port_pairs with
          | p :: _ => let t := subif_name nm (fst p) n in inr (t, add_or_reuse t d)
          | [] => inl FOther                                    (* IndexError *)
          end
        | None =>
          match c_svi ch with
          | Some v => let t := svi_name nm v in inr (t, add_or_reuse t d)
          | None =>
            match port_pairs with
            | p :: _ => inr (fst p, d)
            | [] => inl FOther
            end
          end
        end
      end in
    match target with
    | inl e => inl e
    | inr (t, d') => inr (t, add_addr t (c_addr ch) (c_vrf ch) d')
    end.

(* ---- _apply_indirect_interface_changes ----------------------------------------------------------- *)

(* f"{interface}" for Optional[str] *)
Definition str_of_opt (o : option string) : string := match o with Some s => s | None => "None" end.

Definition apply_indirect (nm : naming) (ifname : option string) (ch : changes) (d : dev)
  : fail + (option string * dev) :=
  let target : fail + option (string * dev) :=
    match c_lag ch with
    | Some _ => inl FValue                                      (* "LAG creation unsupported for indirect peers" *)
    | None =>
      match c_subif ch with
      | Some n => let t := subif_name nm (str_of_opt ifname) n in inr (Some (t, add_or_reuse t d))
      | None =>
        match c_svi ch with
        | Some v => let t := svi_name nm v in inr (Some (t, add_or_reuse t d))
        | None =>
          match ifname with
          | None => inr None
          | Some "" => inr None                                 (* not ifname *)
          | Some i => if sin i (d_ifs d) then inr (Some (i, d))
                      else inl FValue                           (* "Interface ... not found" *)
          end
        end
      end
    end in
  match target with
  | inl e => inl e
  | inr None => inr (None, d)
  | inr (Some (t, d')) => inr (Some t, add_addr t (c_addr ch) (c_vrf ch) d')
  end.

(* ---- _apply_virtual_interface_changes: device.add_svi(local.svi).name, no address ---------------- *)

Definition apply_virtual (nm : naming) (svi : Z) (d : dev) : string * dev :=
  let t := svi_name nm svi in (t, add_or_reuse t d).

(* ---- to_bgp_peer, in the encoding the runner uses for a Peer -------------------------------------- *)

Definition dflt (f : string) (e : entries) (d : value) : value :=
  match lookup f e with Some v => v | None => d end.

Definition estr : value := VAtom (AStr "").

Definition is_none_val (v : value) : bool := match v with VAtom ANone => true | _ => false end.

(* retort.load(local, PeerOptions): every PeerOptions field that is set (and not None) on the DTO;
   local_as is read from asnum (name_mapping) *)
Definition peer_options (opt_fields : list string) (local : entries) : entries :=
  flat_map (fun f =>
    let src := if String.eqb f "local_as" then "asnum" else f in
    match lookup src local with
    | Some v => if is_none_val v then [] else [(f, v)]
    | None => []
    end) opt_fields.

Definition iface_val (i : option string) : value :=
  match i with Some s => VAtom (AStr s) | None => VAtom ANone end.

(* None: AttributeError (connected.addr / connected.asnum unset) or a malformed value *)
Definition mk_peer (opt_fields : list string) (local connected : entries) (hostname : string)
           (interface : option string) : option entries :=
  match ip_val (lookup "addr" connected), lookup "asnum" connected with
  | Some a, Some asn =>
    Some [("addr", a); ("interface", iface_val interface); ("remote_as", asn);
          ("hostname", VAtom (AStr hostname));
          ("families", dflt "families" connected (VSet []));
          ("description", dflt "description" connected estr);
          ("vrf_name", dflt "vrf" connected estr);
          ("group_name", dflt "group_name" connected estr);
          ("import_policy", dflt "import_policy" local estr);
          ("export_policy", dflt "export_policy" local estr);
          ("update_source", dflt "update_source" local (VAtom ANone));
          ("options", VObj (peer_options opt_fields local))]
  | _, _ => None
  end.

(* ---- the rule loops ------------------------------------------------------------------------------- *)

Definition obj_of (f : string) (p : entries) : entries :=
  match lookup f p with Some (VObj o) => o | _ => [] end.

Definition strs_of (f : string) (p : entries) : list string :=
  match lookup f p with
  | Some (VList l) => flat_map (fun a => match a with AStr s => [s] | _ => [] end) l
  | _ => []
  end.

Record vrule := VRule { v_id : nat; v_nums : list Z }.

Section Exec.
  (* direct rules *)
  Variable dmatches : nat -> string -> string -> bool.
  Variable dhandler : nat -> string -> string -> list string -> entries * entries * entries.
  (* indirect rules (handler called with no ports) *)
  Variable imatches : nat -> string -> string -> bool.
  Variable ihandler : nat -> string -> string -> list string -> entries * entries * entries.
  (* virtual rules: SingleMatcher; handler (rule, device, num) -> (local, virtual peer, session) *)
  Variable vmatches : nat -> string -> bool.
  Variable vhandler : nat -> string -> Z -> entries * entries * entries.
  Variable connections : string -> string -> list (string * string).
  Variable sch_direct sch_indirect sch_vlocal sch_vpeer : schema.   (* _field_mergers of the four DTOs *)
  Variable sch_pair : schema.                                       (* Pair._field_mergers *)
  Variable opt_fields : list string.                                (* dataclasses.fields(PeerOptions) *)
  Variable nm : naming.

  (* Pair(local=, connected=, device=) of _execute_indirect: ports stays unset *)
  Definition mk_pair_ind (local connected : entries) : entries :=
    [("local", VObj local); ("connected", VObj connected)].

  (* loop body of _execute_indirect for one matched rule: a fresh MeshSession and two fresh
     IndirectPeer objects per iteration (execute_direct_pair with no ports is the same code) *)
  Definition step_indirect (device : string) (m : matched) (acc : list (peer_key * entries))
    : xerr + list (peer_key * entries) :=
    let other := if m_direct m then m_right m else m_left m in
    match execute_direct_pair ihandler sch_indirect device other m [] with
    | None => inr acc
    | Some (Err _) => inl EValue
    | Some (Ok (local, connected)) =>
      match lookup "addr" connected with
      | None => inl EValue                                     (* "returned no peer addr" *)
      | Some addr =>
        let vrf := match lookup "vrf" connected with Some v => v | None => VAtom (AStr "") end in
        match upsert sch_pair (other, addr, vrf) (mk_pair_ind local connected) acc with
        | Ok acc' => inr acc'
        | Err _ => inl EValue
        end
      end
    end.

  Fixpoint fold_indirect (device : string) (ms : list matched) (acc : list (peer_key * entries))
    : xerr + list (peer_key * entries) :=
    match ms with
    | [] => inr acc
    | m :: rest =>
      match step_indirect device m acc with
      | inl e => inl e
      | inr acc' => fold_indirect device rest acc'
      end
    end.

  Definition execute_indirect (rules : list rule) (device : string) (all_fqdns : list string)
    : xerr + list (peer_key * entries) :=
    fold_indirect device (lookup_direct imatches rules device all_fqdns) [].

  (* _execute_virtual: one VirtualPair per (matching rule, num), never merged *)
  Definition virtual_pair (device : string) (r : vrule) (num : Z) : option (fail + (entries * entries)) :=
    let '(l, v, s) := vhandler (v_id r) device num in
    if is_empty v && is_empty l && is_empty s then None
    else Some
      match merge_all sch_vpeer [] [v; s] with
      | Err _ => inl FValue
      | Ok virtual_dto =>
        match merge_all sch_vlocal [] [l; s] with
        | Err _ => inl FValue
        | Ok device_dto =>
          if mem "svi" device_dto then inr (device_dto, virtual_dto)
          else inl FValue                                      (* "did not provide `svi` number" *)
        end
      end.

  Fixpoint fold_virtual (device : string) (work : list (vrule * Z)) : fail + list (entries * entries) :=
    match work with
    | [] => inr []
    | (r, n) :: rest =>
      match virtual_pair device r n with
      | None => fold_virtual device rest
      | Some (inl e) => inl e
      | Some (inr p) =>
        match fold_virtual device rest with
        | inl e => inl e
        | inr ps => inr (p :: ps)
        end
      end
    end.

  Definition execute_virtual (vrules : list vrule) (device : string) : fail + list (entries * entries) :=
    fold_virtual device
      (flat_map (fun r => if vmatches (v_id r) device then map (fun n => (r, n)) (v_nums r) else []) vrules).

  (* ---- execute_for: the three conversion loops, threading the device ----------------------------- *)

  Definition of_xerr {A : Type} (r : xerr + A) : fail + A :=
    match r with inl _ => inl FValue | inr a => inr a end.

  (* for direct_pair in ...: _apply_direct_interface_changes + _to_bgp_peer *)
  Fixpoint conv_direct (device : string) (pairs : list (peer_key * entries)) (d : dev)
    : fail + (list entries * dev) :=
    match pairs with
    | [] => inr ([], d)
    | (k, p) :: rest =>
      let nb := fst (fst k) in
      let local := obj_of "local" p in
      match to_interface_changes local with
      | inl e => inl e
      | inr ch =>
        match apply_direct nm (connections device nb) (strs_of "ports" p) ch d with
        | inl e => inl e
        | inr (t, d1) =>
          match mk_peer opt_fields local (obj_of "connected" p) nb (Some t) with
          | None => inl FOther
          | Some peer =>
            match conv_direct device rest d1 with
            | inl e => inl e
            | inr (ps, d2) => inr (peer :: ps, d2)
            end
          end
        end
      end
    end.

  Fixpoint conv_virtual (pairs : list (entries * entries)) (d : dev) : fail + (list entries * dev) :=
    match pairs with
    | [] => inr ([], d)
    | (local, connected) :: rest =>
      match lookup "svi" local with
      | Some (VAtom (AInt svi)) =>
        let '(t, d1) := apply_virtual nm svi d in
        match mk_peer opt_fields local connected "" (Some t) with
        | None => inl FOther
        | Some peer =>
          match conv_virtual rest d1 with
          | inl e => inl e
          | inr (ps, d2) => inr (peer :: ps, d2)
          end
        end
      | _ => inl FOther
      end
    end.

  Fixpoint conv_indirect (pairs : list (peer_key * entries)) (d : dev) : fail + (list entries * dev) :=
    match pairs with
    | [] => inr ([], d)
    | (k, p) :: rest =>
      let other := fst (fst k) in
      let local := obj_of "local" p in
      match to_interface_changes local, opt_str "ifname" local with
      | inl e, _ => inl e
      | _, inl e => inl e
      | inr ch, inr ifname =>
        match apply_indirect nm ifname ch d with
        | inl e => inl e
        | inr (t, d1) =>
          match mk_peer opt_fields local (obj_of "connected" p) other t with
          | None => inl FOther
          | Some peer =>
            match conv_indirect rest d1 with
            | inl e => inl e
            | inr (ps, d2) => inr (peer :: ps, d2)
            end
          end
        end
      end
    end.

  Definition execute_for (drules irules : list rule) (vrules : list vrule)
             (device : string) (neighbors all_fqdns : list string) (d0 : dev)
    : fail + (list entries * dev) :=
    match of_xerr (execute_direct dmatches dhandler connections sch_direct sch_pair drules device neighbors) with
    | inl e => inl e
    | inr dpairs =>
      match conv_direct device dpairs d0 with
      | inl e => inl e
      | inr (p1, d1) =>
        match execute_virtual vrules device with
        | inl e => inl e
        | inr vpairs =>
          match conv_virtual vpairs d1 with
          | inl e => inl e
          | inr (p2, d2) =>
            match of_xerr (execute_indirect irules device all_fqdns) with
            | inl e => inl e
            | inr ipairs =>
              match conv_indirect ipairs d2 with
              | inl e => inl e
              | inr (p3, d3) => inr (p1 ++ p2 ++ p3, d3)
              end
            end
          end
        end
      end
    end.
End Exec.
