(* Model of the deploy side of C09.  No proofs.
   - annet/annlib/rulebook/common.py:apply and annet/rulebook/aruba/ap_env.py:apply, evaluated from
     the decision tables regenerated from the source (Gen/Src_apply.v);
   - annet/rulebook/deploying.py:match_deploy_rule (with the deploy rulebook as compiled by
     _compile_deploying / annlib/rbparser/deploying.py:compile_messages), syntax.match_context;
   - annet/deploy.py: make_cmd_params, rb_question_to_question, fill_cmd_params,
     apply_deploy_rulebook (groupby on identical before/after, level = |path| - 1);
   - annlib/tabparser.py: blocks_and_context / cmd_paths *with* the per-row contexts
     (the exit statements carry the context of the last row seen).
   Not modelled: the `ignore:` messages of a deploy rule (unused by apply_deploy_rulebook),
   the regular expression of a `/.../` question (compiled, never run here). *)
From Coq Require Import List String Ascii Bool Arith NArith ZArith.
From Annet Require Import Base.Str Model.Pattern Model.Order Model.Patch Model.Blocks Gen.Src_apply.
Import ListNotations.
Open Scope string_scope.
Open Scope list_scope.

(* ------------------------------------------------------------------------------------ *)
(* Session wrapper: evaluation of the generated decision tables                           *)

Record env := Env {
  e_commit : bool;                 (* do_commit *)
  e_finalize : bool;               (* do_finalize *)
  e_hw : string -> bool;           (* bool(hw.<flag>) *)
  e_opq : string -> bool           (* the opaque atoms (hw.soft prefix, environment variable) *)
}.

Fixpoint beval (e : env) (b : bexp) : bool :=
  match b with
  | BTrue => true
  | BCommit => e_commit e
  | BFinalize => e_finalize e
  | BHw f => e_hw e f
  | BOpaque s => e_opq e s
  | BAnd a c => beval e a && beval e c
  | BOr a c => beval e a || beval e c
  | BNot a => negb (beval e a)
  end.

Definition entry := (side * string * nat * bexp)%type.
Definition en_side (x : entry) : side := fst (fst (fst x)).
Definition en_cmd (x : entry) : string := snd (fst (fst x)).
Definition en_guard (x : entry) : bexp := snd x.

Definition is_before (s : side) : bool := match s with SBefore => true | SAfter => false end.

(* the commands a branch body appends, in source order.  The `timeout=` a Command is built
   with in apply() is dropped: fill_cmd_params overwrites it for every wrapper command. *)
Definition branch_cmds (e : env) (want_before : bool) (l : list entry) : list string :=
  map en_cmd (filter (fun x => Bool.eqb (is_before (en_side x)) want_before && beval e (en_guard x)) l).

Definition wrapper := (list string * list string)%type.

Definition branch_wrapper (e : env) (l : list entry) : wrapper := (branch_cmds e true l, branch_cmds e false l).

(* common.apply: first branch of the if/elif chain whose condition holds; None = raise *)
Fixpoint table_apply (e : env) (t : list (bexp * list entry)) : option wrapper :=
  match t with
  | [] => None
  | (c, l) :: r => if beval e c then Some (branch_wrapper e l) else table_apply e r
  end.

Definition common_apply (e : env) : option wrapper := table_apply e apply_table.
Definition ap_env_apply (e : env) : wrapper := branch_wrapper e ap_env_table.

(* ------------------------------------------------------------------------------------ *)
(* Deploy rulebook                                                                        *)

Definition ctx := list (string * string).        (* a context dict, keys unique *)

Fixpoint ctx_get (c : ctx) (k : string) : option string :=
  match c with
  | [] => None
  | (k', v) :: r => if String.eqb k' k then Some v else ctx_get r k
  end.

(* syntax.match_context(ifcontext, context); an ifcontext entry "name:value" is a pair *)
Definition match_context (ifc : list (string * string)) (c : ctx) : bool :=
  match ifc with
  | [] => true
  | _ => existsb (fun nv => match ctx_get c (fst nv) with
                           | Some v => String.eqb v (snd nv)
                           | None => false
                           end) ifc
  end.

(* a `dialog: question ::: answer %send_nl=…` child of a rule *)
Record dialog := Dlg { dg_question : string; dg_answer : string; dg_send_nl : bool }.

(* apply_logic: 0 = common.apply (default), 1 = aruba.ap_env.apply *)
Inductive drule := DRule (pat : string) (timeout_ms : N) (dialogs : list dialog)
                         (ifctx : list (string * string)) (apply_id : nat) (kids : list drule).
Definition d_pat (r : drule) := match r with DRule p _ _ _ _ _ => p end.
Definition d_timeout (r : drule) := match r with DRule _ t _ _ _ _ => t end.
Definition d_dialogs (r : drule) := match r with DRule _ _ d _ _ _ => d end.
Definition d_ifctx (r : drule) := match r with DRule _ _ _ i _ _ => i end.
Definition d_apply (r : drule) := match r with DRule _ _ _ _ a _ => a end.
Definition d_kids (r : drule) := match r with DRule _ _ _ _ _ k => k end.

Definition default_timeout_ms : N := N.of_nat default_timeout_s * 1000.

(* the "default match" literal at the end of match_deploy_rule *)
Definition default_rule : drule := DRule "~" default_timeout_ms [] [] 0 [].

Definition is_nil {A} (l : list A) : bool := match l with [] => true | _ => false end.

Section Match.
  (* rule["attrs"]["regexp"].match(row) and match_context(rule ifcontext, context) *)
  Variable hit : drule -> string -> ctx -> bool.

  (* One iteration of the outer loop (one row of the path).  `rs` is what is left of the
     iterator `rules.values()` taken when the inner loop started, `cur` the variable
     `rules`, which the loop body may rebind while the iterator keeps running over the old
     level: a later matching sibling rebinds it again, a matching rule without children
     rebinds it to the empty dict and breaks. *)
  Fixpoint scan (rs : list drule) (row : string) (c : ctx) (is_last : bool) (cur : list drule)
    : option drule * list drule :=
    match rs with
    | [] => (None, cur)
    | r :: rs' =>
      if hit r row c then
        if is_last then (Some r, cur)
        else if is_nil (d_kids r) then (None, [])
        else scan rs' row c is_last (d_kids r)
      else scan rs' row c is_last cur
    end.

  (* match_deploy_rule without the default: None = fell through to the default match *)
  Fixpoint match_rule (cur : list drule) (path : list string) (c : ctx) : option drule :=
    match path with
    | [] => None
    | row :: rest =>
      match scan cur row c (is_nil rest) cur with
      | (Some r, _) => Some r
      | (None, cur') => match_rule cur' rest c
      end
    end.
End Match.

(* the matcher of the real rulebook: compile_row_regexp(rule row).match(row) on the plain
   rule language of Model/Pattern.v *)
Definition row_hit (r : drule) (row : string) (c : ctx) : bool :=
  match rule_match (d_pat r) false row with Some _ => true | None => false end &&
  match_context (d_ifctx r) c.

(* The same matcher with every rule row of the rulebook parsed once (used by the case files:
   rule_match re-parses its rule row on every call).  Equal to row_hit (DeployProofs.fast_hit_eq). *)
Fixpoint all_pats_r (r : drule) : list string :=
  match r with
  | DRule p _ _ _ _ kids =>
    p :: (fix go (l : list drule) : list string :=
            match l with [] => [] | k :: l' => all_pats_r k ++ go l' end) kids
  end.

Definition parsed := (option pat * bool)%type.
Definition parse_row (p : string) : parsed := (rule_pat p, rule_ic p false).
Definition pat_table (rs : list drule) : list (string * parsed) :=
  map (fun p => (p, parse_row p)) (flat_map all_pats_r rs).

Fixpoint lookup_str {A} (k : string) (l : list (string * A)) : option A :=
  match l with
  | [] => None
  | (k', v) :: r => if String.eqb k' k then Some v else lookup_str k r
  end.

Definition tbl_hit (tbl : list (string * parsed)) (r : drule) (row : string) (c : ctx) : bool :=
  let pp := match lookup_str (d_pat r) tbl with Some x => x | None => parse_row (d_pat r) end in
  match fst pp with
  | Some p => match pmatch p (snd pp) row with Some _ => true | None => false end
  | None => false
  end && match_context (d_ifctx r) c.

Definition fast_hit (rs : list drule) : drule -> string -> ctx -> bool := tbl_hit (pat_table rs).

(* ------------------------------------------------------------------------------------ *)
(* Commands                                                                               *)

Record question := Q { q_text : string; q_answer : string; q_regexp : bool }.

Record command := Cmd {
  c_cmd : string;
  c_level : nat;
  c_timeout : N;                   (* milliseconds *)
  c_questions : list question
}.

(* deploy.rb_question_to_question; None = Exception("not supported false send_nl") *)
Definition to_question (d : dialog) : option question :=
  if negb (dg_send_nl d) then None
  else
    let t := dg_question d in
    if startswith "/" t && endswith "/" t
    then Some (Q (substring 1 (String.length t - 2) t) (dg_answer d) true)
    else Some (Q t (dg_answer d) false).

Fixpoint opt_all {A} (l : list (option A)) : option (list A) :=
  match l with
  | [] => Some []
  | None :: _ => None
  | Some x :: r => match opt_all r with Some r' => Some (x :: r') | None => None end
  end.

(* deploy.make_cmd_params: (timeout, questions) *)
Definition cmd_params (r : drule) : option (N * list question) :=
  match opt_all (map to_question (d_dialogs r)) with
  | Some qs => Some (d_timeout r, qs)
  | None => None
  end.

Definition path_level (p : list string) : nat := List.length p - 1.
Definition path_cmd (p : list string) : string := last p "".

Section Deploy.
  Variable hit : drule -> string -> ctx -> bool.
  Variable wrappers : nat -> wrapper.      (* apply_logic(hw, do_commit, do_finalize) per apply id *)
  Variable rules : list drule.

  Definition rule_for (p : list string) (c : ctx) : drule :=
    match match_rule hit rules p c with Some r => r | None => default_rule end.

  (* a command of the patch with the wrapper its rule asks for *)
  Definition body_cmd (pc : list string * ctx) : option (command * wrapper) :=
    let r := rule_for (fst pc) (snd pc) in
    match cmd_params r with
    | Some (t, qs) => Some (Cmd (path_cmd (fst pc)) (path_level (fst pc)) t qs, wrappers (d_apply r))
    | None => None
    end.

  (* a wrapper command: level 0, parameters by fill_cmd_params (path = (cmd,), context = {}) *)
  Definition wrap_cmd (s : string) : option command :=
    match cmd_params (rule_for [s] []) with
    | Some (t, qs) => Some (Cmd s 0 t qs)
    | None => None
    end.

  Definition wrapper_eqb (a b : wrapper) : bool :=
    list_str_eqb (fst a) (fst b) && list_str_eqb (snd a) (snd b).

  (* itertools.groupby on the (before, after) command texts *)
  Fixpoint groupby (l : list (command * wrapper)) : list (wrapper * list command) :=
    match l with
    | [] => []
    | (c, w) :: r =>
      match groupby r with
      | (w', g) :: gs => if wrapper_eqb w w' then (w', c :: g) :: gs else (w, [c]) :: (w', g) :: gs
      | [] => [(w, [c])]
      end
    end.

  Definition emit_group (g : wrapper * list command) : option (list command) :=
    match opt_all (map wrap_cmd (fst (fst g))), opt_all (map wrap_cmd (snd (fst g))) with
    | Some b, Some a => Some (b ++ snd g ++ a)
    | _, _ => None
    end.

  (* annet.deploy.apply_deploy_rulebook; None = the exception of rb_question_to_question *)
  Definition deploy (paths : list (list string * ctx)) : option (list command) :=
    match opt_all (map body_cmd paths) with
    | None => None
    | Some items =>
      match opt_all (map emit_group (groupby items)) with
      | Some gs => Some (List.concat gs)
      | None => None
      end
    end.
End Deploy.

(* the wrappers of the two shipped apply logics; an unknown hardware (apply raises) = no wrapper,
   the harness never builds such a case *)
Definition std_wrappers (e : env) (id : nat) : wrapper :=
  match id with
  | 0 => match common_apply e with Some w => w | None => ([], []) end
  | _ => ap_env_apply e
  end.

(* ------------------------------------------------------------------------------------ *)
(* cmd_paths with contexts                                                                *)

(* a PatchTree with the per-item context *)
Inductive ctree := CT (items : list (string * ctx * option ctree)).

Fixpoint erase (t : ctree) : ptree :=
  match t with
  | CT items =>
    PT ((fix go (l : list (string * ctx * option ctree)) : list (string * option ptree * skey) :=
           match l with
           | [] => []
           | (row, _, child) :: l' =>
             (row, match child with Some ct => Some (erase ct) | None => None end, (ZFin Z0, "", true)) :: go l'
           end) items)
  end.

(* blocks_and_context(patch, is_patch=True): (element, context); None = the exit statements,
   which are yielded with `last_row_context` — filled in by [fill_ctx] *)
Fixpoint cblocks (f : family) (parent : string) (t : ctree) {struct t} : list (elem * option ctx) :=
  match t with
  | CT items =>
    (fix go (l : list (string * ctx * option ctree)) : list (elem * option ctx) :=
       match l with
       | [] => []
       | (row, c, child) :: l' =>
         (Row row, Some c) ::
         match child with
         | Some ct =>
           (BBegin, None) :: cblocks f row ct ++ (BEnd, None) ::
           map (fun e => (e, None))
               (exit_stmt f parent row (match l' with (n, _, _) :: _ => if is_empty n then None else Some n | [] => None end))
         | None => []
         end ++ go l'
       end) items
  end.

(* last_row_context: the context of the closest preceding row *)
Fixpoint fill_ctx (last : ctx) (s : list (elem * option ctx)) : list (elem * ctx) :=
  match s with
  | [] => []
  | (Row x, Some c) :: r => (Row x, c) :: fill_ctx c r
  | (Row x, None) :: r => (Row x, last) :: fill_ctx last r
  | (e, _) :: r => (e, last) :: fill_ctx last r
  end.

Fixpoint assoc_set (k : list string) (v : ctx) (l : list (list string * ctx)) : list (list string * ctx) :=
  match l with
  | [] => [(k, v)]
  | (k', v') :: r => if list_str_eqb k' k then (k', v) :: r else (k', v') :: assoc_set k v r
  end.

(* CommonFormatter.cmd_paths: ret[tuple(path)] = context (a repeated path keeps its first
   position and takes the last context) *)
Fixpoint cpath_stack (s : list (elem * ctx)) (path : list string) (acc : list (list string * ctx))
  : list (list string * ctx) :=
  match s with
  | [] => acc
  | (BBegin, _) :: r => cpath_stack r (path ++ [last path ""]) acc
  | (BEnd, _) :: r => cpath_stack r (removelast path) acc
  | (Row x, c) :: r =>
    let path' := removelast path ++ [x] in
    cpath_stack r path' (assoc_set path' c acc)
  end.

Definition ccmd_paths (f : family) (t : ctree) : list (list string * ctx) :=
  cpath_stack (fill_ctx [] (cblocks f "" t)) [] [].
