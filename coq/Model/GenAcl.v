(* Model of the ACL steps around partial generators:
     annet/generators/__init__.py : _run_partial_generator (apply_acl(..., fatal_acl=True) on the
                                    generator's own ACL), run_partial_generators
     annet/generators/result.py   : _combine_acl_text / RunGeneratorResult.acl_text (every line of a
                                    generator's ACL tagged %generator_names=<class name>)
     annet/gen.py                 : _old_new_per_device: new = apply_acl(config_tree(),
                                    compile_acl_text(acl_text()), exclusive=True)
   on top of Model/GenProg.v (rows -> text -> tree, config_tree) and Model/Acl.v.  No proofs here. *)
From Coq Require Import List String Ascii Bool Arith.
From Annet Require Import Base.Str Base.Tree Model.Pattern Model.Acl Model.Offside Model.GenProg.
Import ListNotations.
Open Scope string_scope.
Open Scope list_scope.

(* a partial generator: class name, its acl() text (structured, Model/Acl.v), its run() *)
Record gen := Gen { g_name : string; g_acl : acl; g_prog : prog }.

(* AclError(" / ".join(path)) *)
Definition acl_err_text (path : list string) : string := join_with " / " path.
(* AclNotExclusiveError("'%s', ..." % "/ ".join(path)) *)
Definition excl_err_text (path : list string) : string := join_with "/ " path.

Section WithApply.
  (* patching.apply_acl(config, rules, fatal_acl, exclusive) *)
  Variable apply : aset -> bool -> bool -> forest -> forest + aerr.

  (* the ACL step of _run_partial_generator(use_acl=True) on a parsed config *)
  Definition acl_step (rs : aset) (f : forest) : gres :=
    match apply rs true false f with
    | inl f' => GOk f'
    | inr (EUncovered p) => GAcl (acl_err_text p)
    | inr (ENotExclusive p _) => GAcl (acl_err_text p)      (* unreachable: not exclusive mode *)
    end.

  (* _run_partial_generator(gen, GeneratorPartialRunArgs(device, use_acl=True)): .config or the error *)
  Definition run_gen_with (g : gen) : gres :=
    match run_noacl (g_prog g) with
    | GOk f =>
      match compile_acl (g_acl g) with
      | None => GAclCompile
      | Some rs => acl_step rs f
      end
    | e => e
    end.

  (* run_partial_generators: generator by generator, the first error escapes *)
  Fixpoint run_all_with (gs : list gen) : gres + list forest :=
    match gs with
    | [] => inr []
    | g :: r =>
      match run_gen_with g with
      | GOk f => match run_all_with r with inl e => inl e | inr fs => inr (f :: fs) end
      | e => inl e
      end
    end.
End WithApply.

(* _combine_acl_text: line.rstrip() + "  %generator_names=<name>" for every line of the ACL; the
   parameter given last wins in _parse_raw_rule, so the rule's generator_names is [name] *)
Fixpoint tag_item (name : string) (i : aitem) {struct i} : aitem :=
  match i with
  | AItem raw row ign glob cd prio _ kids =>
    AItem (raw ++ "  %generator_names=" ++ name)%string row ign glob cd prio [name]
          ((fix go (l : list aitem) : list aitem :=
              match l with [] => [] | x :: t => tag_item name x :: go t end) kids)
  end.
Definition tag_acl (name : string) (a : acl) : acl := map (tag_item name) a.

(* RunGeneratorResult.acl_text() *)
Definition combined_acl (gs : list gen) : acl := flat_map (fun g => tag_acl (g_name g) (g_acl g)) gs.

(* what _old_new_per_device leaves in OldNewResult.new, or the exception that escapes *)
Inductive ores :=
| OOk (f : forest)
| OGenErr (e : gres)                                   (* GeneratorError from a generator *)
| OExclusive (path : string) (gens : list string)      (* AclNotExclusiveError *)
| OAclCompile.                                         (* NotImplementedError from compile_acl_text *)

Section OldNew.
  Variable apply : aset -> bool -> bool -> forest -> forest + aerr.

  Definition exclusive_step (rs : aset) (u : forest) : ores :=
    match apply rs false true u with
    | inl f => OOk f
    | inr (ENotExclusive p g) => OExclusive (excl_err_text p) g
    | inr (EUncovered p) => OGenErr (GAcl (acl_err_text p))   (* unreachable: not fatal mode *)
    end.

  Definition old_new_with (gs : list gen) : ores :=
    match run_all_with apply gs with
    | inl e => OGenErr e
    | inr fs =>
      match compile_acl (combined_acl gs) with
      | None => OAclCompile
      | Some rs => exclusive_step rs (union_all fs)
      end
    end.
End OldNew.

(* instantiation with the pattern compiler of Model/Pattern.v for a vendor *)
Definition run_gen (v : avendor) : gen -> gres := run_gen_with (p_apply_acl v).
Definition run_all (v : avendor) : list gen -> gres + list forest := run_all_with (p_apply_acl v).
Definition old_new (v : avendor) : list gen -> ores := old_new_with (p_apply_acl v).

Definition ores_eqb (a b : ores) : bool :=
  match a, b with
  | OOk f, OOk g => forest_eqb f g
  | OGenErr e, OGenErr e' => gres_eqb e e'
  | OExclusive p g, OExclusive q h => String.eqb p q && names_eqb g h
  | OAclCompile, OAclCompile => true
  | _, _ => false
  end.
