(* Model of the rule-pattern compiler shared by every rulebook kind:
     annet.annlib.rbparser.syntax.compile_row_regexp      (pattern -> regexp)
     annet.rulebook.patching._make_reverse                (pattern -> "{}" template)
     annet.annlib.rbparser.acl._make_reverse / ordering   (direct row -> reverse row)
   Layer L2 of DESIGN 2.2: the *plain* rule language
       literal words, `*`, `*/re/` (one-word regex), trailing `~`
   with a word-level semantics.  Rule rows outside that language are not given a
   meaning here: parse_pat returns None (fail closed).
   No proofs in this file (Proofs/PatternProofs.v). *)
From Coq Require Import List String Ascii Bool Arith NArith.
From Annet Require Import Base.Str.
Import ListNotations.
Open Scope string_scope.
Open Scope list_scope.

Notation l_of := list_ascii_of_string.
Notation s_of := string_of_list_ascii.

(* ------------------------------------------------------------------------------ *)
(* Characters (ASCII)                                                             *)

Definition code (c : ascii) : N := N_of_ascii c.
Definition in_range (lo hi c : ascii) : bool :=
  N.leb (code lo) (code c) && N.leb (code c) (code hi).
Definition is_upper (c : ascii) : bool := in_range "A" "Z" c.
Definition is_lower (c : ascii) : bool := in_range "a" "z" c.
Definition is_digit (c : ascii) : bool := in_range "0" "9" c.
Definition is_wordc (c : ascii) : bool :=
  is_upper c || is_lower c || is_digit c || Ascii.eqb c "_".
Definition lower (c : ascii) : ascii := if is_upper c then ascii_of_N (code c + 32)%N else c.
Definition upper (c : ascii) : ascii := if is_lower c then ascii_of_N (code c - 32)%N else c.
(* printable and not blank: what a word of a row is made of *)
Definition is_graph (c : ascii) : bool := N.leb 33%N (code c) && N.leb (code c) 126%N.
(* Python's \s on 8-bit text: space, \t..\r, and the separators 28..31 *)
Definition py_ws (c : ascii) : bool :=
  N.eqb (code c) 32%N || (N.leb 9%N (code c) && N.leb (code c) 13%N) || (N.leb 28%N (code c) && N.leb (code c) 31%N).

Definition lower_str (s : string) : string := s_of (map lower (l_of s)).

Definition mem_ascii (c : ascii) (l : list ascii) : bool := existsb (Ascii.eqb c) l.

(* ------------------------------------------------------------------------------ *)
(* One-word regular expressions: concrete-syntax tree of the text between the
   slashes of `*/re/`                                                              *)

Inductive cls := KDigit | KWord | KSpace | KNotDigit | KNotWord | KNotSpace.

Inductive citem :=
| CChr (c : ascii)                 (* a    *)
| CEsc (c : ascii)                 (* \.   *)
| CRng (lo hi : ascii)             (* a-z  *)
| CCls (k : cls).                  (* \d   *)

Inductive sre :=
| SEps
| SChr (c : ascii)                 (* literal character *)
| SEsc (c : ascii)                 (* \c : literal punctuation character *)
| SAny                             (* .   *)
| SCls (k : cls)                   (* \d \w \s \D \W \S *)
| SSet (neg : bool) (items : list citem)     (* [..] / [^..] *)
| SGrp (cap : bool) (r : sre)      (* (r) / (?:r) *)
| SCat (a b : sre)
| SAlt (a b : sre)
| SStar (a : sre) | SPlus (a : sre) | SOpt (a : sre).   (* greedy a* a+ a? *)

Definition cls_eqb (a b : cls) : bool :=
  match a, b with
  | KDigit, KDigit | KWord, KWord | KSpace, KSpace
  | KNotDigit, KNotDigit | KNotWord, KNotWord | KNotSpace, KNotSpace => true
  | _, _ => false
  end.

Definition citem_eqb (a b : citem) : bool :=
  match a, b with
  | CChr x, CChr y => Ascii.eqb x y
  | CEsc x, CEsc y => Ascii.eqb x y
  | CRng a1 a2, CRng b1 b2 => Ascii.eqb a1 b1 && Ascii.eqb a2 b2
  | CCls k, CCls l => cls_eqb k l
  | _, _ => false
  end.

Fixpoint list_eqb {A} (e : A -> A -> bool) (a b : list A) : bool :=
  match a, b with
  | [], [] => true
  | x :: a', y :: b' => e x y && list_eqb e a' b'
  | _, _ => false
  end.

Fixpoint sre_eqb (a b : sre) : bool :=
  match a, b with
  | SEps, SEps | SAny, SAny => true
  | SChr x, SChr y | SEsc x, SEsc y => Ascii.eqb x y
  | SCls k, SCls l => cls_eqb k l
  | SSet n1 i1, SSet n2 i2 => Bool.eqb n1 n2 && list_eqb citem_eqb i1 i2
  | SGrp c1 r1, SGrp c2 r2 => Bool.eqb c1 c2 && sre_eqb r1 r2
  | SCat a1 a2, SCat b1 b2 | SAlt a1 a2, SAlt b1 b2 => sre_eqb a1 b1 && sre_eqb a2 b2
  | SStar x, SStar y | SPlus x, SPlus y | SOpt x, SOpt y => sre_eqb x y
  | _, _ => false
  end.

(* --- semantics: Brzozowski derivatives, full-word match ------------------------- *)

Definition cls_has (k : cls) (c : ascii) : bool :=
  match k with
  | KDigit => is_digit c | KWord => is_wordc c | KSpace => py_ws c
  | KNotDigit => negb (is_digit c) | KNotWord => negb (is_wordc c) | KNotSpace => negb (py_ws c)
  end.

Definition item_has1 (it : citem) (c : ascii) : bool :=
  match it with
  | CChr a | CEsc a => Ascii.eqb a c
  | CRng lo hi => in_range lo hi c
  | CCls k => cls_has k c
  end.

(* re.IGNORECASE on a set member: the character, its lower or its upper case is in *)
Definition item_has (ic : bool) (it : citem) (c : ascii) : bool :=
  item_has1 it c || (ic && (item_has1 it (lower c) || item_has1 it (upper c))).

Definition chr_eq (ic : bool) (a c : ascii) : bool :=
  Ascii.eqb a c || (ic && Ascii.eqb (lower a) (lower c)).

Definition set_has (ic : bool) (neg : bool) (items : list citem) (c : ascii) : bool :=
  xorb neg (existsb (fun it => item_has ic it c) items).

Definition SNul : sre := SSet false [].          (* the empty language *)
Definition is_nul (r : sre) : bool := match r with SSet false [] => true | _ => false end.
Definition mk_cat (a b : sre) : sre :=
  if is_nul a then SNul else match a with SEps => b | _ => SCat a b end.
Definition mk_alt (a b : sre) : sre :=
  if is_nul a then b else if is_nul b then a else SAlt a b.

Fixpoint nullable (r : sre) : bool :=
  match r with
  | SEps => true
  | SChr _ | SEsc _ | SAny | SCls _ | SSet _ _ => false
  | SGrp _ a => nullable a
  | SCat a b => nullable a && nullable b
  | SAlt a b => nullable a || nullable b
  | SStar _ | SOpt _ => true
  | SPlus a => nullable a
  end.

Definition of_bool (b : bool) : sre := if b then SEps else SNul.

Fixpoint deriv (ic : bool) (c : ascii) (r : sre) : sre :=
  match r with
  | SEps => SNul
  | SChr a | SEsc a => of_bool (chr_eq ic a c)
  | SAny => of_bool (negb (Ascii.eqb c nl))
  | SCls k => of_bool (cls_has k c)
  | SSet neg items => of_bool (set_has ic neg items c)
  | SGrp _ a => deriv ic c a
  | SCat a b =>
    if nullable a then mk_alt (mk_cat (deriv ic c a) b) (deriv ic c b)
    else mk_cat (deriv ic c a) b
  | SAlt a b => mk_alt (deriv ic c a) (deriv ic c b)
  | SStar a | SPlus a => mk_cat (deriv ic c a) (SStar a)
  | SOpt a => deriv ic c a
  end.

Fixpoint sre_run (ic : bool) (r : sre) (w : list ascii) : bool :=
  match w with
  | [] => nullable r
  | c :: w' => sre_run ic (deriv ic c r) w'
  end.

(* the whole word w is in L(r) (re.IGNORECASE when ic) *)
Definition sre_imatch (ic : bool) (r : sre) (w : string) : bool := sre_run ic r (l_of w).
Definition sre_match (r : sre) (w : string) : bool := sre_imatch false r w.

(* r can never consume a blank, so inside a row it stays within one word *)
Fixpoint sre_noblank (r : sre) : bool :=
  match r with
  | SEps => true
  | SChr c | SEsc c => negb (py_ws c)
  | SAny => false
  | SCls k => negb (cls_has k sp)
  | SSet neg items => negb (set_has false neg items sp)
  | SGrp _ a | SStar a | SPlus a | SOpt a => sre_noblank a
  | SCat a b | SAlt a b => sre_noblank a && sre_noblank b
  end.

(* --- printer --------------------------------------------------------------------- *)

Definition cls_letter (k : cls) : ascii :=
  match k with
  | KDigit => "d" | KWord => "w" | KSpace => "s"
  | KNotDigit => "D" | KNotWord => "W" | KNotSpace => "S"
  end%char.

Definition bs : ascii := "\"%char.

Definition print_citem (it : citem) : list ascii :=
  match it with
  | CChr c => [c]
  | CEsc c => [bs; c]
  | CRng lo hi => [lo; "-"%char; hi]
  | CCls k => [bs; cls_letter k]
  end.

Fixpoint print_sre_l (r : sre) : list ascii :=
  match r with
  | SEps => []
  | SChr c => [c]
  | SEsc c => [bs; c]
  | SAny => ["."%char]
  | SCls k => [bs; cls_letter k]
  | SSet neg items =>
    "["%char :: (if neg then ["^"%char] else []) ++ flat_map print_citem items ++ ["]"%char]
  | SGrp true a => "("%char :: print_sre_l a ++ [")"%char]
  | SGrp false a => "("%char :: "?"%char :: ":"%char :: print_sre_l a ++ [")"%char]
  | SCat a b => print_sre_l a ++ print_sre_l b
  | SAlt a b => print_sre_l a ++ "|"%char :: print_sre_l b
  | SStar a => print_sre_l a ++ ["*"%char]
  | SPlus a => print_sre_l a ++ ["+"%char]
  | SOpt a => print_sre_l a ++ ["?"%char]
  end.

Definition print_sre (r : sre) : string := s_of (print_sre_l r).

(* what re.sub(r"\(([^\?])", r"(?:\1", row) does to the groups of an accepted regex *)
Fixpoint noncap (r : sre) : sre :=
  match r with
  | SGrp _ a => SGrp false (noncap a)
  | SCat a b => SCat (noncap a) (noncap b)
  | SAlt a b => SAlt (noncap a) (noncap b)
  | SStar a => SStar (noncap a)
  | SPlus a => SPlus (noncap a)
  | SOpt a => SOpt (noncap a)
  | _ => r
  end.

(* --- parser (fuelled recursive descent; None = not in the supported subset) ------- *)

(* characters that stand for themselves inside a one-word regex *)
Definition re_plain_char (c : ascii) : bool :=
  is_wordc c || mem_ascii c (l_of "-:,=!@#&;'""/`").
(* punctuation that may be escaped with a backslash (never ( ) < > ~ % : their
   escaped forms interact with the textual macro expansion) *)
Definition re_esc_char (c : ascii) : bool :=
  mem_ascii c (l_of "./-:,_+*?|^$[]{}\=!@#&;'""`").

Definition cls_of_letter (c : ascii) : option cls :=
  if Ascii.eqb c "d" then Some KDigit else if Ascii.eqb c "w" then Some KWord
  else if Ascii.eqb c "s" then Some KSpace else if Ascii.eqb c "D" then Some KNotDigit
  else if Ascii.eqb c "W" then Some KNotWord else if Ascii.eqb c "S" then Some KNotSpace
  else None.

(* set body up to the closing bracket; `first` = no item read yet *)
Fixpoint p_items (n : nat) (s : list ascii) : option (list citem * list ascii) :=
  match n with
  | O => None
  | S n' =>
    match s with
    | [] => None
    | c :: r =>
      if Ascii.eqb c "]" then Some ([], r)
      else if Ascii.eqb c bs then
        match r with
        | e :: r2 =>
          match cls_of_letter e with
          | Some k => match p_items n' r2 with Some (its, r3) => Some (CCls k :: its, r3) | None => None end
          | None =>
            if re_esc_char e then
              match p_items n' r2 with Some (its, r3) => Some (CEsc e :: its, r3) | None => None end
            else None
          end
        | [] => None
        end
      else if re_plain_char c || mem_ascii c (l_of ".+*?$|{}") then
        match r with
        | d :: hi :: r2 =>
          if Ascii.eqb d "-" && negb (Ascii.eqb hi "]") then
            if Ascii.eqb c "-" then None
            else if is_wordc c && is_wordc hi && N.leb (code c) (code hi) then
              match p_items n' r2 with Some (its, r3) => Some (CRng c hi :: its, r3) | None => None end
            else None
          else if Ascii.eqb c "-" && negb (Ascii.eqb d "]") then None   (* `-` only as the last item *)
          else match p_items n' r with Some (its, r3) => Some (CChr c :: its, r3) | None => None end
        | _ => match p_items n' r with Some (its, r3) => Some (CChr c :: its, r3) | None => None end
        end
      else None
    end
  end.

Definition p_set (n : nat) (s : list ascii) : option (sre * list ascii) :=
  let '(neg, body) := match s with
                      | c :: r => if Ascii.eqb c "^" then (true, r) else (false, s)
                      | [] => (false, s)
                      end in
  match p_items n body with
  | Some ([], _) => None
  | Some (its, r) => Some (SSet neg its, r)
  | None => None
  end.

Definition is_quant (c : ascii) : bool := mem_ascii c (l_of "*+?{").

Fixpoint p_alt (n : nat) (s : list ascii) : option (sre * list ascii) :=
  match n with
  | O => None
  | S n' =>
    match p_seq n' s with
    | Some (a, r) =>
      match r with
      | c :: r2 =>
        if Ascii.eqb c "|" then
          match p_alt n' r2 with Some (b, r3) => Some (SAlt a b, r3) | None => None end
        else Some (a, r)
      | [] => Some (a, r)
      end
    | None => None
    end
  end
with p_seq (n : nat) (s : list ascii) : option (sre * list ascii) :=
  match n with
  | O => None
  | S n' =>
    match s with
    | [] => Some (SEps, s)
    | c :: _ =>
      if Ascii.eqb c ")" || Ascii.eqb c "|" then Some (SEps, s)
      else
        match p_post n' s with
        | Some (a, r) =>
          match p_seq n' r with
          | Some (SEps, r2) => Some (a, r2)
          | Some (b, r2) => Some (SCat a b, r2)
          | None => None
          end
        | None => None
        end
    end
  end
with p_post (n : nat) (s : list ascii) : option (sre * list ascii) :=
  match n with
  | O => None
  | S n' =>
    match p_atom n' s with
    | Some (a, r) =>
      match r with
      | q :: r2 =>
        let noq := match r2 with q2 :: _ => negb (is_quant q2) | [] => true end in
        if Ascii.eqb q "*" then (if noq then Some (SStar a, r2) else None)
        else if Ascii.eqb q "+" then (if noq then Some (SPlus a, r2) else None)
        else if Ascii.eqb q "?" then (if noq then Some (SOpt a, r2) else None)
        else if Ascii.eqb q "{" then None
        else Some (a, r)
      | [] => Some (a, r)
      end
    | None => None
    end
  end
with p_atom (n : nat) (s : list ascii) : option (sre * list ascii) :=
  match n with
  | O => None
  | S n' =>
    match s with
    | [] => None
    | c :: r =>
      if Ascii.eqb c "(" then
        match r with
        | q :: r2 =>
          if Ascii.eqb q "?" then
            match r2 with
            | k :: r3 =>
              if Ascii.eqb k ":" then
                match p_alt n' r3 with
                | Some (e, z :: r4) => if Ascii.eqb z ")" then Some (SGrp false e, r4) else None
                | _ => None
                end
              else None
            | [] => None
            end
          else if Ascii.eqb q "(" then None      (* "((": the inner group would stay capturing *)
          else
            match p_alt n' r with
            | Some (e, z :: r4) => if Ascii.eqb z ")" then Some (SGrp true e, r4) else None
            | _ => None
            end
        | [] => None
        end
      else if Ascii.eqb c "[" then p_set (List.length r) r
      else if Ascii.eqb c bs then
        match r with
        | e :: r2 =>
          match cls_of_letter e with
          | Some k => Some (SCls k, r2)
          | None => if re_esc_char e then Some (SEsc e, r2) else None
          end
        | [] => None
        end
      else if Ascii.eqb c "." then Some (SAny, r)
      else if re_plain_char c then Some (SChr c, r)
      else None
    end
  end.

Definition parse_sre_l (s : list ascii) : option sre :=
  match p_alt (4 * List.length s + 8) s with
  | Some (r, []) => Some r
  | _ => None
  end.

Definition parse_sre (s : string) : option sre := parse_sre_l (l_of s).

(* ------------------------------------------------------------------------------ *)
(* Patterns                                                                        *)

Inductive tok :=
| Lit (w : string)        (* a literal word *)
| Star                    (* `*`      exactly one word, bound *)
| StarRe (r : sre)        (* `*/re/`  exactly one word in L(re), bound *)
| Tilde.                  (* `~`      (trailing) one or more words, bound as one string *)

Definition pat := list tok.

Definition tok_eqb (a b : tok) : bool :=
  match a, b with
  | Lit x, Lit y => String.eqb x y
  | Star, Star | Tilde, Tilde => true
  | StarRe r, StarRe q => sre_eqb r q
  | _, _ => false
  end.

Definition pat_eqb (a b : pat) : bool := list_eqb tok_eqb a b.

(* literal words: printable, no blank, no regex / macro / format metacharacter *)
Definition lit_char (c : ascii) : bool :=
  is_graph c && negb (mem_ascii c (l_of "\^$.|?*+()[]{}~<>%")).

Definition word_ok (w : string) : bool :=
  negb (is_empty w) && forallb is_graph (l_of w).

Definition plain_word (w : string) : bool :=
  negb (is_empty w) && forallb lit_char (l_of w).

(* accepted one-word regex: in the parser's subset (the AST is the parse of its own
   text), not empty, printable, and unable to match a blank *)
Definition sre_ok (r : sre) : bool :=
  let t := print_sre_l r in
  negb (match t with [] => true | _ => false end)
  && forallb is_graph t
  && sre_noblank r
  && match parse_sre_l t with Some r' => sre_eqb r' r | None => false end.

Definition wf_tok (t : tok) : bool :=
  match t with
  | Lit w => plain_word w
  | Star | Tilde => true
  | StarRe r => sre_ok r
  end.

Definition is_tilde (t : tok) : bool := match t with Tilde => true | _ => false end.

(* `~` only as the last token *)
Fixpoint tilde_last (p : pat) : bool :=
  match p with
  | [] => true
  | [_] => true
  | t :: p' => negb (is_tilde t) && tilde_last p'
  end.

Definition wf_pat (p : pat) : bool :=
  negb (match p with [] => true | _ => false end) && forallb wf_tok p && tilde_last p.

Definition print_tok (t : tok) : string :=
  match t with
  | Lit w => w
  | Star => "*"
  | StarRe r => "*/" ++ print_sre r ++ "/"
  | Tilde => "~"
  end.

Definition print_pat (p : pat) : string := join_with " " (map print_tok p).

(* rows: non-empty printable words separated by single spaces *)
Definition wf_row (r : string) : bool :=
  match words r with
  | [] => false
  | ws => forallb word_ok ws && String.eqb r (join_with " " ws)
  end.

Fixpoint unsnoc (s : list ascii) : option (list ascii * ascii) :=
  match s with
  | [] => None
  | [c] => Some ([], c)
  | c :: r => match unsnoc r with Some (i, l) => Some (c :: i, l) | None => None end
  end.

Definition parse_tok (w : string) : option tok :=
  if String.eqb w "*" then Some Star
  else if String.eqb w "~" then Some Tilde
  else match l_of w with
       | a :: b :: body =>
         if Ascii.eqb a "*" && Ascii.eqb b "/" then
           match unsnoc body with
           | Some (src, z) =>
             if Ascii.eqb z "/" then
               match parse_sre_l src with Some r => Some (StarRe r) | None => None end
             else None
           | None => None
           end
         else if plain_word w then Some (Lit w) else None
       | _ => if plain_word w then Some (Lit w) else None
       end.

Fixpoint parse_toks (ws : list string) : option pat :=
  match ws with
  | [] => Some []
  | w :: r =>
    match parse_tok w, parse_toks r with
    | Some t, Some p => Some (t :: p)
    | _, _ => None
    end
  end.

(* rule row (as left by _parse_raw_rule: stripped, single blanks) -> pattern;
   the result is always well formed and prints back to the very same text *)
Definition parse_pat (s : string) : option pat :=
  if wf_row s then
    match parse_toks (words s) with
    | Some p => if wf_pat p && String.eqb (print_pat p) s then Some p else None
    | None => None
    end
  else None.

(* ------------------------------------------------------------------------------ *)
(* Word-level semantics                                                            *)

Definition word_eq (ic : bool) (w x : string) : bool :=
  String.eqb w x || (ic && String.eqb (lower_str w) (lower_str x)).

Fixpoint pmatch_words (p : pat) (ic : bool) (ws : list string) : option (list string) :=
  match p with
  | [] => Some []                                    (* word boundary reached *)
  | Tilde :: p' =>
    match p', ws with
    | [], _ :: _ => Some [join_with " " ws]
    | _, _ => None
    end
  | Lit w :: p' =>
    match ws with
    | x :: ws' => if word_eq ic w x then pmatch_words p' ic ws' else None
    | [] => None
    end
  | Star :: p' =>
    match ws with
    | x :: ws' => option_map (cons x) (pmatch_words p' ic ws')
    | [] => None
    end
  | StarRe r :: p' =>
    match ws with
    | x :: ws' => if sre_imatch ic r x then option_map (cons x) (pmatch_words p' ic ws') else None
    | [] => None
    end
  end.

(* compile_row_regexp(print p, IGNORECASE if ic).match(row) -> Some groups() / None *)
Definition pmatch (p : pat) (ic : bool) (row : string) : option (list string) :=
  match p with
  | [] => None
  | _ => pmatch_words p ic (words row)
  end.

(* number of capture groups = length of the key *)
Definition is_lit (t : tok) : bool := match t with Lit _ => true | _ => false end.
Definition nholes (p : pat) : nat := List.length (filter (fun t => negb (is_lit t)) p).

(* --- text-level helpers ---------------------------------------------------------- *)

Fixpoint lprefix (p s : list ascii) : bool :=
  match p, s with
  | [], _ => true
  | a :: p', b :: s' => Ascii.eqb a b && lprefix p' s'
  | _ :: _, [] => false
  end.

(* s.replace(pat, "") for a non-empty pat; `skip` characters are being dropped *)
Fixpoint lremove (pt : list ascii) (skip : nat) (s : list ascii) : list ascii :=
  match s with
  | [] => []
  | c :: r =>
    match skip with
    | S k => lremove pt k r
    | O => if lprefix pt s then lremove pt (List.length pt - 1) r else c :: lremove pt 0 r
    end
  end.

Fixpoint lcontains (pt s : list ascii) : bool :=
  match s with
  | [] => lprefix pt []
  | _ :: r => lprefix pt s || lcontains pt r
  end.

Definition inline_ic : string := "(?i)".
(* "(?i)" in row  /  row.replace("(?i)", "") *)
Definition rule_has_ic (rule_row : string) : bool := lcontains (l_of inline_ic) (l_of rule_row).
Definition rule_strip_ic (rule_row : string) : string := s_of (lremove (l_of inline_ic) 0 (l_of rule_row)).

(* the rule row as compile_row_regexp sees it: match row -> Some key / None.
   None also when the rule row is outside the modelled language (check rule_pat). *)
Definition rule_pat (rule_row : string) : option pat := parse_pat (rule_strip_ic rule_row).
Definition rule_ic (rule_row : string) (ignore_case : bool) : bool := ignore_case || rule_has_ic rule_row.

Definition rule_match (rule_row : string) (ignore_case : bool) (row : string) : option (list string) :=
  match rule_pat rule_row with
  | Some p => pmatch p (rule_ic rule_row ignore_case) row
  | None => None
  end.

(* ------------------------------------------------------------------------------ *)
(* Reverse forms                                                                   *)

(* acl._make_reverse, ordering's reverse_regexp source, first step of patching._make_reverse *)
Definition reverse_row_l (row prefix : list ascii) : list ascii :=
  let pre := prefix ++ [sp] in
  if lprefix pre row then skipn (List.length pre) row else pre ++ row.

Definition reverse_row (rule_row prefix : string) : string :=
  s_of (reverse_row_l (l_of rule_row) (l_of prefix)).

(* the same on patterns *)
Definition reverse_pat (p : pat) (prefix : string) : pat :=
  match p with
  | Lit w :: ((_ :: _) as p') => if String.eqb w prefix then p' else Lit prefix :: p
  | _ => Lit prefix :: p
  end.

(* in the run of non-blanks at the head of r: the largest index j >= 1 (counted from i)
   holding a slash — where the greedy /\S+/ ends *)
Fixpoint last_slash (r : list ascii) (i : nat) : option nat :=
  match r with
  | [] => None
  | c :: r' =>
    if py_ws c then None
    else match last_slash r' (S i) with
         | Some j => Some j
         | None => if Ascii.eqb c "/" && Nat.leb 1 i then Some i else None
         end
  end.

(* number of characters the optional group (/\S+/)? consumes at the head of s *)
Definition opt_re_len (s : list ascii) : nat :=
  match s with
  | c :: r => if Ascii.eqb c "/" then match last_slash r 0 with Some j => j + 2 | None => 0 end else 0
  | [] => 0
  end.

(* re.sub(r"\*(/\S+/)?", "{}", s) *)
Fixpoint sub_star (skip : nat) (s : list ascii) : list ascii :=
  match s with
  | [] => []
  | c :: r =>
    match skip with
    | S k => sub_star k r
    | O => if Ascii.eqb c "*" then "{"%char :: "}"%char :: sub_star (opt_re_len r) r
           else c :: sub_star 0 r
    end
  end.

(* re.sub(r"\s*~(/\S+/)?", "", s); pend = blanks read and not yet emitted *)
Fixpoint strip_tilde (pend : list ascii) (skip : nat) (s : list ascii) : list ascii :=
  match s with
  | [] => pend
  | c :: r =>
    match skip with
    | S k => strip_tilde pend k r
    | O => if py_ws c then strip_tilde (pend ++ [c]) 0 r
           else if Ascii.eqb c "~" then strip_tilde [] (opt_re_len r) r
           else pend ++ c :: strip_tilde [] 0 r
    end
  end.

Definition tilde_to_hole (s : list ascii) : list ascii :=
  match unsnoc s with
  | Some (i, c) => if Ascii.eqb c "~" then i ++ ["{"%char; "}"%char] else s
  | None => s
  end.

Definition make_reverse_l (row prefix : list ascii) : list ascii :=
  strip_tilde [] 0 (sub_star 0 (tilde_to_hole (reverse_row_l row prefix))).

(* patching._make_reverse(rule_row, prefix): the "{}" template of the removal command *)
Definition make_reverse (rule_row prefix : string) : string :=
  s_of (make_reverse_l (l_of rule_row) (l_of prefix)).

(* tmpl.format( *key ) restricted to "{}" fields and the escapes "{{" "}}";
   None = Python raises (too few arguments: IndexError; any other field: outside the model) *)
Fixpoint format_l (t : list ascii) (key : list string) : option (list ascii) :=
  match t with
  | [] => Some []
  | c :: r =>
    if Ascii.eqb c "{" then
      match r with
      | d :: r2 =>
        if Ascii.eqb d "}" then
          match key with
          | k :: ks => option_map (app (l_of k)) (format_l r2 ks)
          | [] => None
          end
        else if Ascii.eqb d "{" then option_map (cons c) (format_l r2 key)
        else None
      | [] => None
      end
    else if Ascii.eqb c "}" then
      match r with
      | d :: r2 => if Ascii.eqb d "}" then option_map (cons c) (format_l r2 key) else None
      | [] => None
      end
    else option_map (cons c) (format_l r key)
  end.

Definition format_template_opt (tmpl : string) (key : list string) : option string :=
  option_map s_of (format_l (l_of tmpl) key).

(* total version: "" when Python raises *)
Definition format_template (tmpl : string) (key : list string) : string :=
  match format_template_opt tmpl key with Some s => s | None => "" end.

(* ------------------------------------------------------------------------------ *)
(* Source text of the compiled regexp (used by the specificity heuristics)        *)

Definition tok_src (t : tok) : string :=
  match t with
  | Lit w => w
  | Star => "([^\s]+)"
  | StarRe r => "(" ++ print_sre (noncap r) ++ ")"
  | Tilde => "(.+)"
  end.

Definition ends_tilde (p : pat) : bool :=
  match rev p with Tilde :: _ => true | _ => false end.

(* compile_row_regexp(print_pat p).pattern *)
Definition regex_src (p : pat) : string :=
  "^" ++ join_with "\s+" (map tok_src p) ++ (if ends_tilde p then "" else "(?:\s|$)").
