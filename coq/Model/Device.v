(* The device of property C01 (and C02): what a command path emitted by
   formatter.cmd_paths does to a configuration tree.  DESIGN.md §3.C01.  No proofs.

   This is NOT a model of annet code; it is the reference semantics of "a device that
   holds one line per rulebook rule and key" that the property quantifies over.  It uses
   the patching rulebook only to find the SLOT (rule, key) of a row (Rulebook.match_row,
   i.e. _match_row_to_rules) and the rule's removal command (the rule's "reverse"
   template filled with the key).

   A level of the device is a list of (row, subtree) - a [forest] in insertion order.
   Executing one command [cmd] on a level governed by the rule set [rs]:

   - [cmd] is one of the vendor's block-exit words (quit / exit / end-set / ...):
     nothing happens (the cursor is modelled by the command PATH, see below);
   - [cmd] is matched by a rule of [rs] (a DIRECT command), slot s = (rule, key):
       * no entry of the level is in slot s        -> (cmd, empty block) is appended;
       * an entry of slot s has the same text      -> the block is ENTERED: it stays where
         it is, and those of its children that are governed by a %rewrite rule are
         dropped (prefix-set / xpl ... objects are replaced wholesale when re-entered;
         the rewrite logic relies on it when it skips REMOVED children);
       * the entry of slot s has a different text  -> the slot is OVERWRITTEN by
         (cmd, empty block), in place - at the end of the level if the rule is %ordered;
       (a level holds at most one entry per slot - the property's domain, preserved by
       every command; should there be several, the first one is meant)
   - otherwise [cmd] is read as a REMOVAL: every entry whose rule's reverse template,
     filled with the entry's key, equals [cmd] is deleted with its subtree; if there is
     none nothing happens.  In particular rows that no rule knows are never touched, and
     an unknown command is a no-op.

   A command path [c1; ...; cn] executes [cn] inside the block reached by descending
   through the entries whose row TEXT is c1, ..., c(n-1) (rule sets follow the rows, as
   in _match_row_to_rules); if such a block does not exist the path does nothing.
   cmd_paths emits the path of a block header before the paths of its children, so the
   header command itself (append / enter / overwrite) has been executed by then.

   Everything is parametrised by the row matcher and the reverse formatter, like the
   other pipeline models; [p_exec] instantiates them with Model/Pattern.v.
   Not covered: the flattened set/delete command forms of Juniper / Nokia / RouterOS. *)
From Coq Require Import List String Ascii Bool Arith.
From Annet Require Import Base.Str Base.Tree Model.Pattern Model.Rulebook Model.Order Model.Patch
     Model.Blocks Model.Pipeline.
Import ListNotations.
Open Scope string_scope.
Open Scope list_scope.

(* every word a formatter family can emit to leave a block (Blocks.exit_stmt) *)
Definition family_exits (f : family) : list string :=
  match f with
  | FCommon | FJuniper _ _ | FRos => []
  | FBlockExit ex => [ex]
  | FHuawei => ["quit"; "end-filter"; "end-list"; "endif"]
  | FCisco => ["exit"; "exit-address-family"]
  | FAsr => ["exit"; "end-set"; "endif"; "end-policy"]
  end.

Definition same_slot (a b : minfo) : bool :=
  String.eqb (mi_raw a) (mi_raw b) && list_str_eqb (mi_key a) (mi_key b).

Definition is_rewrite (m : minfo) : bool := dlogic_eqb (a_dlogic (mi_attrs m)) DRewrite.
Definition is_ordered (m : minfo) : bool := dlogic_eqb (a_dlogic (mi_attrs m)) DOrdered.

Section Device.
  Variable rmatch : string -> string -> option (list string).   (* pattern text -> row -> key *)
  Variable rreverse : string -> list string -> string.          (* pattern text -> key -> removal command *)
  Variable is_exit : string -> bool.                            (* the vendor's block-exit words *)

  (* the slot of a row on a level *)
  Definition slot_of (rs : rset) (row : string) : option minfo :=
    option_map fst (match_row rmatch row rs).

  Definition in_slot (rs : rset) (s : minfo) (e : string * tree) : bool :=
    match slot_of rs (fst e) with Some m => same_slot m s | None => false end.

  (* the removal command of the slot an entry occupies *)
  Definition reverse_of (m : minfo) : string := rreverse (a_pat (mi_attrs m)) (mi_key m).
  Definition reverse_hits (rs : rset) (cmd : string) (e : string * tree) : bool :=
    match slot_of rs (fst e) with Some m => String.eqb (reverse_of m) cmd | None => false end.

  (* entering a block: children governed by a %rewrite rule are dropped *)
  Definition enter (crs : rset) (sub : forest) : forest :=
    filter (fun e => match slot_of crs (fst e) with Some m => negb (is_rewrite m) | None => true end) sub.

  (* replace / delete the (first) entry of slot s; the level is unchanged if the slot is free *)
  Fixpoint replace_slot (rs : rset) (s : minfo) (e' : string * tree) (f : forest) : forest :=
    match f with
    | [] => []
    | e :: f' => if in_slot rs s e then e' :: f' else e :: replace_slot rs s e' f'
    end.
  Fixpoint remove_slot (rs : rset) (s : minfo) (f : forest) : forest :=
    match f with
    | [] => []
    | e :: f' => if in_slot rs s e then f' else e :: remove_slot rs s f'
    end.

  Definition exec_direct (rs : rset) (cmd : string) (s : minfo) (crs : rset) (f : forest) : forest :=
    match find (in_slot rs s) f with
    | None => f ++ [(cmd, T [])]                                            (* free slot: append *)
    | Some e =>
      if String.eqb (fst e) cmd
      then replace_slot rs s (cmd, T (enter crs (kids (snd e)))) f          (* same text: enter *)
      else if is_ordered s
           then remove_slot rs s f ++ [(cmd, T [])]                         (* %ordered: re-created at the end *)
           else replace_slot rs s (cmd, T []) f                             (* overwritten in place *)
    end.

  Definition exec_cmd (rs : rset) (cmd : string) (f : forest) : forest :=
    if is_exit cmd then f
    else match match_row rmatch cmd rs with
         | Some (s, crs) => exec_direct rs cmd s crs f
         | None => filter (fun e => negb (reverse_hits rs cmd e)) f
         end.

  (* one command path *)
  Fixpoint exec_path (rs : rset) (p : list string) (f : forest) {struct p} : forest :=
    match p with
    | [] => f
    | c :: rest =>
      match rest with
      | [] => exec_cmd rs c f
      | _ :: _ =>
        match match_row rmatch c rs with
        | Some (_, crs) =>
          (fix go (l : forest) : forest :=
             match l with
             | [] => []
             | (r, t) :: l' =>
               if String.eqb r c then (r, T (exec_path crs rest (kids t))) :: l' else (r, t) :: go l'
             end) f
        | None => f
        end
      end
    end.

  (* the whole command stream, in the emitted order *)
  Definition exec (rs : rset) (paths : list (list string)) (f : forest) : forest :=
    fold_left (fun acc p => exec_path rs p acc) paths f.
End Device.

(* the vendor's exit words: registry[vendor].exit (the word the orderer pins last) and the
   words its formatter emits *)
Definition v_exits (v : vendor) : list string :=
  (if is_empty (v_exit v) then [] else [v_exit v]) ++ family_exits (v_family v).
Definition v_is_exit (v : vendor) (c : string) : bool := existsb (String.eqb c) (v_exits v).

(* the device instantiated with the shared row-pattern compiler *)
Definition p_exec (v : vendor) (rs : rset) (paths : list (list string)) (f : forest) : forest :=
  exec pm (prreverse v) (v_is_exit v) rs paths f.
