(* Patching rulebooks: rule sets, matching of a config row to rules
   (annlib/patching.py: _match_row_to_rules, _find_rules_matches, _select_match,
   _rules_local_global; annlib/lib.py: merge_dicts on rule dictionaries) and the
   annotation of a config tree with the governing rule of every row (what
   apply_diff_rb computes as diff_pre, and the rows it drops).  No proofs. *)
From Coq Require Import List String Bool Arith.
From Annet Require Import Base.Str Base.Tree.
Import ListNotations.
Open Scope string_scope.
Open Scope list_scope.

Inductive op := Added | Removed | Moved | Affected | Unchanged.
Definition op_eqb (a b : op) : bool :=
  match a, b with
  | Added, Added | Removed, Removed | Moved, Moved | Affected, Affected | Unchanged, Unchanged => true
  | _, _ => false
  end.

(* %logic functions of annlib/rulebook/common.py *)
Inductive logic := LDefault | LOrdered | LRewrite | LPermanent | LIgnoreChanges | LUndoRedo.
(* %diff_logic functions of annlib/rulebook/common.py *)
Inductive dlogic := DDefault | DOrdered | DRewrite.
Definition dlogic_eqb (a b : dlogic) : bool :=
  match a, b with DDefault, DDefault | DOrdered, DOrdered | DRewrite, DRewrite => true | _, _ => false end.
Definition logic_eqb (a b : logic) : bool :=
  match a, b with
  | LDefault, LDefault | LOrdered, LOrdered | LRewrite, LRewrite | LPermanent, LPermanent
  | LIgnoreChanges, LIgnoreChanges | LUndoRedo, LUndoRedo => true
  | _, _ => false
  end.

Record attrs := Attrs {
  a_pat : string;           (* the rule's row pattern text (source of regexp and reverse) *)
  a_logic : logic;
  a_dlogic : dlogic;
  a_parent : bool;          (* params.parent or bool(children) *)
  a_force_commit : bool
}.

(* one compiled rule: raw_rule text (the dict key), the row pattern text, type ignore?,
   attributes, local children, global children *)
Inductive prule := PRule (raw : string) (ign : bool) (att : attrs) (kl kg : list prule).
Definition r_raw (r : prule) := match r with PRule raw _ _ _ _ => raw end.
Definition r_ign (r : prule) := match r with PRule _ i _ _ _ => i end.
Definition r_attrs (r : prule) := match r with PRule _ _ a _ _ => a end.
Definition r_kl (r : prule) := match r with PRule _ _ _ kl _ => kl end.
Definition r_kg (r : prule) := match r with PRule _ _ _ _ kg => kg end.
Definition r_pat (r : prule) := a_pat (r_attrs r).

(* {"local": odict, "global": odict} *)
Definition rset := (list prule * list prule)%type.

Fixpoint rdepth (r : prule) : nat :=
  match r with
  | PRule _ _ _ kl kg =>
    S (Nat.max ((fix go (l : list prule) := match l with [] => 0 | x :: t => Nat.max (rdepth x) (go t) end) kl)
               ((fix go (l : list prule) := match l with [] => 0 | x :: t => Nat.max (rdepth x) (go t) end) kg))
  end.
Definition rsdepth (l : list prule) : nat := fold_right (fun r a => Nat.max (rdepth r) a) 0 l.

(* merge_dicts(a, b) on odicts of rules: keys of a in order, then new keys of b; a key
   present in both is merged recursively (scalar attributes: the later dict wins). *)
Fixpoint merge_rules (fuel : nat) (a b : list prule) : list prule :=
  match fuel with
  | O => a
  | S f =>
    fold_left
      (fun acc r =>
         (fix ins (l : list prule) : list prule :=
            match l with
            | [] => [r]
            | x :: t =>
              if String.eqb (r_raw x) (r_raw r)
              then PRule (r_raw x) (r_ign r) (r_attrs r)
                         (merge_rules f (r_kl x) (r_kl r)) (merge_rules f (r_kg x) (r_kg r)) :: t
              else x :: ins t
            end) acc)
      b a
  end.
Definition merge_rs (a b : list prule) : list prule :=
  merge_rules (S (Nat.max (rsdepth a) (rsdepth b))) a b.

(* what a diff/pre entry remembers of the governing rule *)
Record minfo := MI { mi_raw : string; mi_key : list string; mi_attrs : attrs }.

(* a config tree whose rows carry their governing rule; rows no rule knows are gone *)
Inductive atree := AT (kids : list (string * minfo * atree)).
Definition akids (t : atree) := match t with AT k => k end.
Definition aforest := list (string * minfo * atree).

Section Matching.
  (* the shared row-pattern compiler (C07): pattern text -> config row -> key *)
  Variable rmatch : string -> string -> option (list string).

  (* _find_rules_matches: local rules first, then global ones; an ignore rule that
     matches hides the row completely *)
  Fixpoint find_matches (row : string) (l : list (prule * bool))
    : option (list (prule * bool * list string)) :=
    match l with
    | [] => Some []
    | (r, is_global) :: rest =>
      match rmatch (r_pat r) row with
      | None => find_matches row rest
      | Some key =>
        if r_ign r then None
        else option_map (cons (r, negb is_global, key)) (find_matches row rest)
      end
    end.

  Definition local_global (rs : rset) : list (prule * bool) :=
    map (fun r => (r, false)) (fst rs) ++ map (fun r => (r, true)) (snd rs).

  (* _match_row_to_rules + _select_match *)
  Definition match_row (row : string) (rs : rset) : option (minfo * rset) :=
    match find_matches row (local_global rs) with
    | None | Some [] => None
    | Some (((f, f_cr, key) :: _) as ms) =>
      let '(lc, gc) :=
        if f_cr then
          fold_left (fun (acc : list prule * list prule) (m : prule * bool * list string) =>
                       let '(r, cr, _) := m in
                       if cr then (merge_rs (fst acc) (r_kl r), merge_rs (snd acc) (r_kg r)) else acc)
                    ms ([], [])
        else ([], []) in
      Some (MI (r_raw f) key (r_attrs f), (lc, merge_rs gc (snd rs)))
    end.

  Fixpoint annot (rs : rset) (t : tree) {struct t} : atree :=
    match t with
    | T kids =>
      AT ((fix go (l : forest) : aforest :=
             match l with
             | [] => []
             | (row, c) :: l' =>
               match match_row row rs with
               | Some (mi, crs) => (row, mi, annot crs c) :: go l'
               | None => go l'
               end
             end) kids)
    end.
  Definition annot_f (rs : rset) (f : forest) : aforest := akids (annot rs (T f)).

  (* forget the annotations: old|R *)
  Fixpoint erase (t : atree) : tree :=
    match t with
    | AT kids => T ((fix go (l : aforest) : forest :=
                       match l with
                       | [] => []
                       | (row, _, c) :: l' => (row, erase c) :: go l'
                       end) kids)
    end.
  Definition erase_f (f : aforest) : forest := Tree.kids (erase (AT f)).
End Matching.
