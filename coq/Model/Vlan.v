(* Model of annet's VLAN range arithmetic and VLAN-list rule logics:
     annet/annlib/lib.py            huawei_expand_vlandb cisco_expand_vlandb collapse_vlandb
     annet/rulebook/huawei/vlandb.py  single multi multi_all _process_vlandb _parse_vlancfg(_actions) _chunked
     annet/rulebook/cisco/vlandb.py   simple swtrunk _process_vlandb _parse_vlancfg(_actions) _chunked
   plus the row-level diff of one rule/key slot (ADDED / REMOVED / UNCHANGED rows) and a
   simulator of the emitted commands on a VLAN set.  Python `set` of ints = NS.t (AVL over N).
   No proofs here. *)
From Coq Require Import List String Ascii Bool Arith NArith.
From Coq Require Import MSets MSetAVL OrdersEx.
From Coq Require Import DecimalString DecimalN.
From Annet Require Import Base.Str.
Import ListNotations.
Open Scope string_scope.
Open Scope list_scope.

Module NS := MSetAVL.Make(N_as_OT).

(* ------------------------------------------------------------------------------------ *)
(* Structured data *)

Definition range := (N * N)%type.            (* inclusive lo..hi ; a lone VLAN v is (v,v) *)
(* one config line of a VLAN list: (written in Cisco "add" continuation form?, ranges);
   an empty range list is Cisco's "... vlan none" *)
Definition line := (bool * list range)%type.

Definition range_step (p : N * NS.t) : N * NS.t := (N.succ (fst p), NS.add (fst p) (snd p)).

(* add lo, lo+1, ..., lo+n-1 *)
Definition add_count (lo n : N) (s : NS.t) : NS.t := snd (N.iter n range_step (lo, s)).

(* device meaning of a written range: every VLAN lo..hi (nothing when hi < lo) *)
Definition add_range (lo hi : N) (s : NS.t) : NS.t := add_count lo (N.succ hi - lo) s.

Definition set_of_ranges (rs : list range) : NS.t :=
  fold_right (fun r s => add_range (fst r) (snd r) s) NS.empty rs.

Definition set_of_lines (ls : list line) : NS.t :=
  fold_right (fun l s => NS.union (set_of_ranges (snd l)) s) NS.empty ls.

(* Python range(a, b): a .. b-1 *)
Definition add_pyrange (a b : N) (s : NS.t) : NS.t := add_count a (b - a) s.

(* ------------------------------------------------------------------------------------ *)
(* decimal numbers *)

Definition is_digit (c : ascii) : bool :=
  let n := nat_of_ascii c in Nat.leb 48 n && Nat.leb n 57.

Fixpoint all_digits (s : string) : bool :=
  match s with EmptyString => true | String c r => is_digit c && all_digits r end.

(* str.isdigit() on ASCII text *)
Definition isdigit (s : string) : bool := negb (is_empty s) && all_digits s.

(* int(s) for s.isdigit() *)
Definition N_of_str (s : string) : N :=
  match NilEmpty.uint_of_string s with Some d => N.of_uint d | None => 0%N end.

(* "%s" % n *)
Definition str_of_N (n : N) : string := NilEmpty.string_of_uint (N.to_uint n).

(* ------------------------------------------------------------------------------------ *)
(* generic list helpers *)

Fixpoint takewhile {A} (f : A -> bool) (l : list A) : list A :=
  match l with [] => [] | x :: r => if f x then x :: takewhile f r else [] end.

Fixpoint dropwhile {A} (f : A -> bool) (l : list A) : list A :=
  match l with [] => [] | x :: r => if f x then dropwhile f r else l end.

Definition is_nil {A} (l : list A) : bool := match l with [] => true | _ => false end.

(* _chunked(items, size): items[0:size], items[size:2*size], ... (size >= 1) *)
Fixpoint chunked_fuel {A} (fuel size : nat) (l : list A) : list (list A) :=
  match fuel with
  | O => []
  | S f => match l with
           | [] => []
           | _ => firstn size l :: chunked_fuel f size (skipn size l)
           end
  end.
Definition chunked {A} (size : nat) (l : list A) : list (list A) :=
  chunked_fuel (List.length l) size l.

Definition mem_str (x : string) (l : list string) : bool := existsb (String.eqb x) l.

Fixpoint strip_prefix (p ws : list string) : option (list string) :=
  match p, ws with
  | [], _ => Some ws
  | a :: p', b :: ws' => if String.eqb a b then strip_prefix p' ws' else None
  | _ :: _, [] => None
  end.

(* ------------------------------------------------------------------------------------ *)
(* lib.collapse_vlandb: sorted(set(vlans)) -> list of [lo, hi] rows *)

Fixpoint collapse_go (tiny : bool) (lo hi : N) (l : list N) : list range :=
  match l with
  | [] => [(lo, hi)]
  | v :: r =>
    if N.eqb (N.succ hi) v then collapse_go tiny lo v r                      (* row[1] == vlan - 1 *)
    else if negb tiny && N.eqb (hi - lo) 1 then (lo, lo) :: (hi, hi) :: collapse_go tiny v v r
    else (lo, hi) :: collapse_go tiny v v r
  end.

(* assert len(vlans) != 0 is guarded by the callers (`if removed:` / `if added:`) *)
Definition collapse (tiny : bool) (s : NS.t) : list range :=
  match NS.elements s with
  | [] => []
  | v :: r => collapse_go tiny v v r
  end.

(* x[0] != x[1] and "%s%s%s" % (x[0], range_sep, x[1]) or str(x[0]) *)
Definition range_str (sep : string) (r : range) : string :=
  if N.eqb (fst r) (snd r) then str_of_N (fst r) else str_of_N (fst r) ++ sep ++ str_of_N (snd r).

Definition hw_range_str := range_str " to ".
Definition cisco_range_str := range_str "-".

(* ------------------------------------------------------------------------------------ *)
(* lib.huawei_expand_vlandb on the words of the row *)

Fixpoint hw_expand_go (prev : option string) (ws : list string) (acc : NS.t) : option NS.t :=
  match ws with
  | [] => Some acc
  | w :: r =>
    if String.eqb w "to" then
      match prev, r with
      | Some l, h :: _ =>
        if isdigit l && isdigit h
        then hw_expand_go (Some w) r (add_pyrange (N.succ (N_of_str l)) (N_of_str h) acc)
        else None                                                          (* ValueError *)
      | _, _ => None                          (* "to" first or last: IndexError / wrap-around, not modelled *)
      end
    else if isdigit w then hw_expand_go (Some w) r (NS.add (N_of_str w) acc)
    else None                                                              (* ValueError *)
  end.

Definition hw_expand_words (ws : list string) : option NS.t := hw_expand_go None ws NS.empty.

Definition hw_expand (row : string) : option NS.t := hw_expand_words (words row).

Definition hw_vl_word (w : string) : bool := isdigit w || String.eqb w "to".

(* huawei/vlandb._parse_vlancfg: prefix = words up to the last one that is neither a number
   nor "to"; the rest is the range list.  A row made only of such words is outside the
   model (Python would take the first word as prefix). *)
Definition hw_parse_vlancfg (row : string) : option (string * NS.t) :=
  let r := rev (words row) in
  let tl := rev (takewhile hw_vl_word r) in
  let pre := rev (dropwhile hw_vl_word r) in
  match pre with
  | [] => None
  | _ => match hw_expand_words tl with
         | Some s => Some (join_with " " pre, s)
         | None => None
         end
  end.

(* ------------------------------------------------------------------------------------ *)
(* lib.cisco_expand_vlandb *)

Definition dash : ascii := "-"%char.
Definition comma : ascii := ","%char.

Fixpoint cisco_expand_parts (parts : list string) (acc : NS.t) : option NS.t :=
  match parts with
  | [] => Some acc
  | p :: r =>
    match map strip (split_char dash (strip p)) with
    | [a] => if isdigit a then cisco_expand_parts r (NS.add (N_of_str a) acc) else None
    | [a; b] => if isdigit a && isdigit b
                then cisco_expand_parts r (add_pyrange (N_of_str a) (N.succ (N_of_str b)) acc)
                else None
    | _ => None                                                      (* assert len in (1, 2) *)
    end
  end.

Definition cisco_expand (w : string) : option NS.t := cisco_expand_parts (split_char comma w) NS.empty.

(* re.sub(r",\s+", ",", row) *)
Fixpoint comma_ws_go (after_comma : bool) (s : string) : string :=
  match s with
  | EmptyString => EmptyString
  | String c r => if after_comma && is_ws c then comma_ws_go true r
                  else String c (comma_ws_go (Ascii.eqb c comma) r)
  end.
Definition comma_ws (s : string) : string := comma_ws_go false s.

Fixpoint vl_chars (s : string) : bool :=      (* re.match(r"[\d,-]+$", w) on a non-empty word *)
  match s with
  | EmptyString => true
  | String c r => (is_digit c || Ascii.eqb c comma || Ascii.eqb c dash) && vl_chars r
  end.

(* cisco/vlandb._parse_vlancfg *)
Definition cisco_parse_vlancfg (row : string) : option (string * NS.t) :=
  match rev (words (comma_ws row)) with
  | [] => None
  | last :: rest =>
    if String.eqb last "none" then Some (join_with " " (rev rest), NS.empty)
    else if negb (vl_chars last) then None
    else match rest with
         | [] => None                                                  (* words[-2]: IndexError *)
         | w2 :: rest2 =>
           let pre := if String.eqb w2 "add" then rest2 else rest in
           match cisco_expand last with
           | Some s => Some (join_with " " (rev pre), s)
           | None => None
           end
         end
  end.

(* _parse_vlancfg_actions (rows without children): last prefix wins, sets are united *)
Fixpoint parse_actions (parse : string -> option (string * NS.t)) (rows : list string)
         (prefix : option string) (acc : NS.t) : option (option string * NS.t) :=
  match rows with
  | [] => Some (prefix, acc)
  | r :: rest => match parse r with
                 | Some (p, s) => parse_actions parse rest (Some p) (NS.union s acc)
                 | None => None
                 end
  end.

(* "%s" % prefix *)
Definition fmt_prefix (p : option string) : string := match p with Some s => s | None => "None" end.

(* ------------------------------------------------------------------------------------ *)
(* commands as set effects *)

Inductive cmd :=
| Add (rs : list range)
| Remove (rs : list range)
| RemoveAll                         (* undo ... vlan all ; undo instance N *)
| SetNone                           (* switchport trunk allowed vlan none *)
| SetTo (rs : list range).          (* switchport trunk allowed vlan X  (replace; never emitted by annet) *)

Definition step (c : cmd) (s : NS.t) : NS.t :=
  match c with
  | Add rs => NS.union s (set_of_ranges rs)
  | Remove rs => NS.diff s (set_of_ranges rs)
  | RemoveAll => NS.empty
  | SetNone => NS.empty
  | SetTo rs => set_of_ranges rs
  end.

Fixpoint simulate (cs : list cmd) (s : NS.t) : NS.t :=
  match cs with
  | [] => s
  | c :: r => simulate r (step c s)
  end.

(* the set after every proper and improper prefix of the command list *)
Fixpoint states (cs : list cmd) (s : NS.t) : list NS.t :=
  s :: match cs with
       | [] => []
       | c :: r => states r (step c s)
       end.

(* ------------------------------------------------------------------------------------ *)
(* the rule kinds *)

Inductive logic := HwSingle | HwMulti | HwMultiAll | CiscoSimple | CiscoSwtrunk.

Definition logic_eqb (a b : logic) : bool :=
  match a, b with
  | HwSingle, HwSingle | HwMulti, HwMulti | HwMultiAll, HwMultiAll
  | CiscoSimple, CiscoSimple | CiscoSwtrunk, CiscoSwtrunk => true
  | _, _ => false
  end.

Record rulek := RK {
  rk_logic : logic;
  rk_prefix : string;      (* the words before the range list, e.g. "port trunk allow-pass vlan" *)
  rk_reverse : string;     (* rule["reverse"].format( *key ), e.g. "undo instance 1" *)
  rk_catalyst : bool       (* hw.Catalyst *)
}.

Definition is_hw (lg : logic) : bool :=
  match lg with HwSingle | HwMulti | HwMultiAll => true | _ => false end.

(* multi_chunk *)
Definition chunk_size (lg : logic) : option nat :=
  match lg with
  | HwSingle => None
  | HwMulti | HwMultiAll => Some 10
  | CiscoSimple => Some 15
  | CiscoSwtrunk => Some 5
  end.

Definition chunks_of (lg : logic) (rs : list range) : list (list range) :=
  match chunk_size lg with
  | None => [rs]
  | Some n => chunked n rs
  end.

(* huawei _process_vlandb on the sets of the ADDED / REMOVED rows.  [guard] = the repaired
   code (fixes/C11-huawei-undo-all.patch): the whole-list shortcut is taken only when no row
   of the list stays unchanged; guard = false is the code as shipped.  None = AssertionError. *)
Definition hw_process (guard : bool) (lg : logic) (n_added n_removed n_unchanged : nat)
           (new old : NS.t) : option (list cmd) :=
  if logic_eqb lg HwSingle && (Nat.ltb 1 n_added || Nat.ltb 1 n_removed) then None else
  let shortcut := negb (Nat.eqb n_removed 0) && Nat.eqb n_added 0 &&
                  (negb guard || Nat.eqb n_unchanged 0) in
  if shortcut && (logic_eqb lg HwMultiAll || logic_eqb lg HwSingle) then Some [RemoveAll] else
  let removed := NS.diff old new in
  let added := NS.diff new old in
  Some ((if NS.is_empty removed then [] else map Remove (chunks_of lg (collapse true removed))) ++
        (if NS.is_empty added then [] else map Add (chunks_of lg (collapse true added)))).

(* cisco _process_vlandb for rows without children (no vlan blocks) *)
Definition cisco_process (lg : logic) (catalyst : bool) (n_added : nat) (new old : NS.t)
  : option (list cmd) :=
  if Nat.eqb n_added 1 && NS.is_empty new then Some [SetNone] else
  let removed := NS.diff old new in
  let added := NS.diff new old in
  Some ((if NS.is_empty removed then [] else map Remove (chunks_of lg (collapse catalyst removed))) ++
        (if NS.is_empty added then [] else map Add (chunks_of lg (collapse catalyst added)))).

Definition process (guard : bool) (k : rulek) (n_added n_removed n_unchanged : nat)
           (new old : NS.t) : option (list cmd) :=
  if is_hw (rk_logic k) then hw_process guard (rk_logic k) n_added n_removed n_unchanged new old
  else cisco_process (rk_logic k) (rk_catalyst k) n_added new old.

(* ------------------------------------------------------------------------------------ *)
(* structured level: lines are range lists *)

Definition range_eqb (a b : range) : bool := N.eqb (fst a) (fst b) && N.eqb (snd a) (snd b).

Fixpoint ranges_eqb (a b : list range) : bool :=
  match a, b with
  | [], [] => true
  | x :: a', y :: b' => range_eqb x y && ranges_eqb a' b'
  | _, _ => false
  end.

Definition line_eqb (a b : line) : bool := Bool.eqb (fst a) (fst b) && ranges_eqb (snd a) (snd b).

Definition mem_line (x : line) (l : list line) : bool := existsb (line_eqb x) l.

Definition lines_removed (old new : list line) := filter (fun l => negb (mem_line l new)) old.
Definition lines_added (old new : list line) := filter (fun l => negb (mem_line l old)) new.
Definition lines_unchanged (old new : list line) := filter (fun l => mem_line l new) old.

Definition model_struct_g (guard : bool) (k : rulek) (old new : list line) : option (list cmd) :=
  let a := lines_added old new in
  let r := lines_removed old new in
  let u := lines_unchanged old new in
  process guard k (List.length a) (List.length r) (List.length u) (set_of_lines a) (set_of_lines r).

(* the repaired code / the code as shipped *)
Definition model_struct := model_struct_g true.
Definition model_struct_shipped := model_struct_g false.

(* ------------------------------------------------------------------------------------ *)
(* text level: printing of lines and commands, the same pipeline over rows *)

Definition print_line (k : rulek) (l : line) : string :=
  if is_hw (rk_logic k) then rk_prefix k ++ " " ++ join_with " " (map hw_range_str (snd l))
  else match snd l with
       | [] => rk_prefix k ++ " none"
       | rs => rk_prefix k ++ (if fst l then " add " else " ") ++ join_with "," (map cisco_range_str rs)
       end.

(* (padd, pdel) are the prefixes _parse_vlancfg_actions returned *)
Definition print_cmd (k : rulek) (padd pdel : string) (c : cmd) : string :=
  match rk_logic k with
  | HwSingle | HwMulti | HwMultiAll =>
    match c with
    | Add rs => padd ++ " " ++ join_with " " (map hw_range_str rs)
    | Remove rs => "undo " ++ pdel ++ " " ++ join_with " " (map hw_range_str rs)
    | RemoveAll => if logic_eqb (rk_logic k) HwSingle then rk_reverse k else rk_reverse k ++ " all"
    | SetNone => padd ++ " none"
    | SetTo rs => padd ++ " " ++ join_with " " (map hw_range_str rs)
    end
  | CiscoSimple | CiscoSwtrunk =>
    let explicit := logic_eqb (rk_logic k) CiscoSwtrunk in
    match c with
    | Add rs => padd ++ (if explicit then " add " else " ") ++ join_with "," (map cisco_range_str rs)
    | Remove rs => "no " ++ padd ++ (if explicit then " remove " else " ") ++ join_with "," (map cisco_range_str rs)
    | RemoveAll => "no " ++ padd
    | SetNone => padd ++ " none"
    | SetTo rs => padd ++ " " ++ join_with "," (map cisco_range_str rs)
    end
  end.

Definition rows_removed (old new : list string) := filter (fun r => negb (mem_str r new)) old.
Definition rows_added (old new : list string) := filter (fun r => negb (mem_str r old)) new.
Definition rows_unchanged (old new : list string) := filter (fun r => mem_str r new) old.

Definition model_rows_g (guard : bool) (k : rulek) (old new : list string) : option (list string) :=
  let a := rows_added old new in
  let r := rows_removed old new in
  let u := rows_unchanged old new in
  let parse := if is_hw (rk_logic k) then hw_parse_vlancfg else cisco_parse_vlancfg in
  match parse_actions parse a None NS.empty, parse_actions parse r None NS.empty with
  | Some (pa, sa), Some (pr, sr) =>
    let padd := if is_hw (rk_logic k) then fmt_prefix pa
                else fmt_prefix (match pa with Some _ => pa | None => pr end) in
    let pdel := if is_hw (rk_logic k) then fmt_prefix pr else padd in
    match process guard k (List.length a) (List.length r) (List.length u) sa sr with
    | Some cs => Some (map (print_cmd k padd pdel) cs)
    | None => None
    end
  | _, _ => None
  end.

Definition model_rows := model_rows_g true.
Definition model_rows_shipped := model_rows_g false.

(* ------------------------------------------------------------------------------------ *)
(* reading emitted command rows back as set effects (device meaning of the syntax) *)

Fixpoint hw_parse_ranges (ws : list string) : option (list range) :=
  match ws with
  | [] => Some []
  | a :: r =>
    if isdigit a then
      match r with
      | t :: b :: r' =>
        if String.eqb t "to" then
          (if isdigit b then option_map (cons (N_of_str a, N_of_str b)) (hw_parse_ranges r') else None)
        else option_map (cons (N_of_str a, N_of_str a)) (hw_parse_ranges r)
      | _ => option_map (cons (N_of_str a, N_of_str a)) (hw_parse_ranges r)
      end
    else None
  end.

Fixpoint cisco_parse_parts (parts : list string) : option (list range) :=
  match parts with
  | [] => Some []
  | p :: r =>
    match split_char dash p with
    | [a] => if isdigit a then option_map (cons (N_of_str a, N_of_str a)) (cisco_parse_parts r) else None
    | [a; b] => if isdigit a && isdigit b
                then option_map (cons (N_of_str a, N_of_str b)) (cisco_parse_parts r) else None
    | _ => None
    end
  end.

Definition cisco_parse_ranges (w : string) : option (list range) := cisco_parse_parts (split_char comma w).

Definition nonempty_ranges (o : option (list range)) : option (list range) :=
  match o with Some [] => None | _ => o end.

Definition parse_cmd (k : rulek) (row : string) : option cmd :=
  let ws := words row in
  let pw := words (rk_prefix k) in
  match rk_logic k with
  | HwSingle | HwMulti | HwMultiAll =>
    if logic_eqb (rk_logic k) HwSingle && list_str_eqb ws (words (rk_reverse k)) then Some RemoveAll else
    match strip_prefix ("undo" :: pw) ws with
    | Some tl =>
      if list_str_eqb tl ["all"] then
        (if logic_eqb (rk_logic k) HwMultiAll then Some RemoveAll else None)
      else option_map Remove (nonempty_ranges (hw_parse_ranges tl))
    | None =>
      match strip_prefix pw ws with
      | Some tl => option_map Add (nonempty_ranges (hw_parse_ranges tl))
      | None => None
      end
    end
  | CiscoSimple =>
    match strip_prefix ("no" :: pw) ws with
    | Some [w] => option_map Remove (cisco_parse_ranges w)
    | Some _ => None
    | None => match strip_prefix pw ws with
              | Some [w] => option_map Add (cisco_parse_ranges w)
              | _ => None
              end
    end
  | CiscoSwtrunk =>
    match strip_prefix ("no" :: pw) ws with
    | Some [r; w] => if String.eqb r "remove" then option_map Remove (cisco_parse_ranges w) else None
    | Some _ => None
    | None => match strip_prefix pw ws with
              | Some [w] => if String.eqb w "none" then Some SetNone
                            else option_map SetTo (cisco_parse_ranges w)
              | Some [a; w] => if String.eqb a "add" then option_map Add (cisco_parse_ranges w)
                               else if String.eqb a "remove" then option_map Remove (cisco_parse_ranges w)
                               else None
              | _ => None
              end
    end
  end.

Fixpoint parse_cmds (k : rulek) (rows : list string) : option (list cmd) :=
  match rows with
  | [] => Some []
  | r :: rest => match parse_cmd k r, parse_cmds k rest with
                 | Some c, Some cs => Some (c :: cs)
                 | _, _ => None
                 end
  end.

(* ------------------------------------------------------------------------------------ *)
(* comparison of row lists up to order (the ordering rulebook only permutes, C08) *)

Fixpoint count_str (x : string) (l : list string) : nat :=
  match l with [] => 0 | y :: r => (if String.eqb x y then 1 else 0) + count_str x r end.

Definition perm_str_eqb (a b : list string) : bool :=
  Nat.eqb (List.length a) (List.length b) &&
  forallb (fun x => Nat.eqb (count_str x a) (count_str x b)) a.
