(* Model of annet.parallel: Parallel.irun (multi-process way) x _pool_worker x task queue x done queue
   as a labelled transition system.  No proofs here.

   One executable function [exec cfg s l] gives the successor of state [s] under label [l] (None = the
   step is not enabled).  The same function is used by the theorems (reachability = iterated [exec]) and by
   the correspondence run, where Coq replays traces recorded from the real pool.

   Parent loop, in the order of the source (annet/parallel.py, `while True:` of irun):
       [all_reaped = not pool]                     (only in the repaired loop; local, folded into the get)
       get(True, 1) -> got r | queue.Empty         LGet i | LGetEmpty          pc AtGet     -> AtReap
       _check_children(pool)                       LReap obs                   pc AtReap    -> AtDeliver
       terminate_exc (not tolerate_fails, exc)     LAbort i                    pc AtDeliver -> Aborted i
       if not queue_empty: yield from ...          LDeliver i | LNoDeliver     pc AtDeliver -> AtBreak
       if <break condition>: break                 LBreak                      pc AtBreak   -> Done
       for name in retired_workers: restart        LLoop                       pc AtBreak   -> AtGet
   The break condition is a parameter ([c_brk]); the translator re-reads it (and the order of the
   statements) from the source on every run (Gen/Src_parallel.v).

   Worker (one per pool slot; a slot is re-used by the process started after a retirement):
       task_queue.get() -> INVOKE id               LTake w i      Idle -> Busy i
       task_queue.get() -> STOP, return            LStop w        Idle -> Dying C0
       done_queue.put(result); tasks_done += 1;    LFinish w i    Busy i -> Idle | Dying C9 (max_tasks reached)
       [mp.Queue feeder thread writes the pipe]    LFlush w       head of the worker's outbox -> done queue
       [exit code becomes visible to the parent]   LExit w        Dying c -> Exited c, guarded by [c_exit outbox]
   [c_exit] is the runtime's condition under which a dying process's exit code may become visible given
   what its feeder thread still holds; the assumed law "a put is visible before the exit code is" is
   [forall out, c_exit out = true -> out = []] (a hypothesis of the theorems, not built in here). *)
From Coq Require Import List Bool Arith.
Import ListNotations.

Inductive val := VOk (v : nat) | VFail (e : nat).
Definition result := (nat * val)%type.
Inductive task := Inv (i : nat) | Stop.
Inductive code := C0 | C9.                       (* exit codes: 0 after STOP, 9 = retired after max_tasks *)
Inductive wst := Idle | Busy (i : nat) | Dying (c : code) | Exited (c : code).

Record worker := W {
  w_st : wst;
  w_k : nat;                 (* tasks_done of the current process of this slot *)
  w_out : list result;       (* put() done, not yet written to the pipe by the feeder thread *)
  w_in : bool;               (* name is a key of the parent's `pool` dict *)
  w_ret : bool               (* name is in the parent's `retired_workers` of this iteration *)
}.

Inductive pc := AtGet | AtReap | AtDeliver | AtBreak | Done | Aborted (i : nat).

(* the test of `if ...: break` *)
Inductive bexpr := BPoolEmpty | BAllReaped | BQueueEmpty | BAnd (a b : bexpr) | BTrue.

Record state := St {
  taskq : list task;
  doneq : list result;
  ws : list worker;
  ppc : pc;
  all_reaped : bool;
  qempty : bool;
  got : option result;
  delivered : list result
}.

Record config := Cfg {
  c_ids : list nat;
  c_pool : nat;                        (* pool_size = min(parallel, len(ids)) *)
  c_max : nat;                         (* max_tasks; 0 = never retire *)
  c_tol : bool;                        (* tolerate_fails *)
  c_f : nat -> val;                    (* what the task computes for an id (VFail = it raised) *)
  c_brk : bexpr;
  c_exit : list result -> bool
}.

Inductive label :=
| LTake (w i : nat) | LStop (w : nat) | LFinish (w i : nat) | LFlush (w : nat) | LExit (w : nat)
| LGet (i : nat) | LGetEmpty | LReap (obs : list (nat * code)) | LDeliver (i : nat) | LNoDeliver
| LAbort (i : nat) | LBreak | LLoop.

Definition is_fail (v : val) : bool := match v with VFail _ => true | VOk _ => false end.

Definition code_eqb (a b : code) : bool :=
  match a, b with C0, C0 | C9, C9 => true | _, _ => false end.

Definition val_eqb (a b : val) : bool :=
  match a, b with
  | VOk x, VOk y => Nat.eqb x y
  | VFail x, VFail y => Nat.eqb x y
  | _, _ => false
  end.

Definition result_eqb (a b : result) : bool := Nat.eqb (fst a) (fst b) && val_eqb (snd a) (snd b).

Fixpoint list_eqb {A} (e : A -> A -> bool) (a b : list A) : bool :=
  match a, b with
  | [], [] => true
  | x :: a', y :: b' => e x y && list_eqb e a' b'
  | _, _ => false
  end.

Definition obs_eqb (a b : list (nat * code)) : bool :=
  list_eqb (fun x y => Nat.eqb (fst x) (fst y) && code_eqb (snd x) (snd y)) a b.

Fixpoint upd {A} (l : list A) (i : nat) (x : A) : list A :=
  match l, i with
  | [], _ => []
  | _ :: t, O => x :: t
  | h :: t, S j => h :: upd t j x
  end.

(* ------------------------------------------------------------------------------------------------ *)

Definition fresh_worker : worker := W Idle 0 [] true false.

Definition init (cfg : config) : state :=
  St (map Inv (c_ids cfg) ++ repeat Stop (c_pool cfg)) [] (repeat fresh_worker (c_pool cfg))
     AtGet false false None [].

Definition pool_empty (l : list worker) : bool := forallb (fun w => negb (w_in w)) l.

Fixpoint eval_brk (b : bexpr) (pe ar qe : bool) : bool :=
  match b with
  | BPoolEmpty => pe
  | BAllReaped => ar
  | BQueueEmpty => qe
  | BAnd x y => eval_brk x pe ar qe && eval_brk y pe ar qe
  | BTrue => true
  end.

(* what _check_children sees: (slot, exit code) of every pool member whose exit code is visible *)
Fixpoint reap_obs_from (n : nat) (l : list worker) : list (nat * code) :=
  match l with
  | [] => []
  | w :: t =>
    (if w_in w then match w_st w with Exited c => [(n, c)] | _ => [] end else [])
      ++ reap_obs_from (S n) t
  end.
Definition reap_obs (l : list worker) := reap_obs_from 0 l.

(* _check_children: exit code 9 -> retired (stays in pool until restarted), other -> del pool[name] *)
Definition reap_w (w : worker) : worker :=
  if w_in w then
    match w_st w with
    | Exited C9 => W (w_st w) (w_k w) (w_out w) true true
    | Exited C0 => W (w_st w) (w_k w) (w_out w) false false
    | _ => w
    end
  else w.

(* for name in retired_workers: pool[name] = mp.Process(...); pool[name].start() *)
Definition restart_w (w : worker) : worker := if w_ret w then fresh_worker else w.

Definition retire_now (m k' : nat) : bool := negb (Nat.eqb m 0) && Nat.leb m k'.

Definition set_w (s : state) (i : nat) (w : worker) (tq : list task) (dq : list result) : state :=
  St tq dq (upd (ws s) i w) (ppc s) (all_reaped s) (qempty s) (got s) (delivered s).

Definition set_p (s : state) (dq : list result) (l : list worker) (p : pc) (ar qe : bool)
           (g : option result) (d : list result) : state :=
  St (taskq s) dq l p ar qe g d.

Definition pc_is (a b : pc) : bool :=
  match a, b with
  | AtGet, AtGet | AtReap, AtReap | AtDeliver, AtDeliver | AtBreak, AtBreak | Done, Done => true
  | Aborted i, Aborted j => Nat.eqb i j
  | _, _ => false
  end.

Definition exec_worker (cfg : config) (s : state) (i : nat) (w : worker) (l : label) : option state :=
  match l with
  | LTake _ x =>
    match w_st w, taskq s with
    | Idle, Inv j :: q =>
      if Nat.eqb j x then Some (set_w s i (W (Busy x) (w_k w) (w_out w) (w_in w) (w_ret w)) q (doneq s))
      else None
    | _, _ => None
    end
  | LStop _ =>
    match w_st w, taskq s with
    | Idle, Stop :: q => Some (set_w s i (W (Dying C0) (w_k w) (w_out w) (w_in w) (w_ret w)) q (doneq s))
    | _, _ => None
    end
  | LFinish _ x =>
    match w_st w with
    | Busy j =>
      if Nat.eqb j x then
        let k' := S (w_k w) in
        let st' := if retire_now (c_max cfg) k' then Dying C9 else Idle in
        Some (set_w s i (W st' k' (w_out w ++ [(x, c_f cfg x)]) (w_in w) (w_ret w)) (taskq s) (doneq s))
      else None
    | _ => None
    end
  | LFlush _ =>
    match w_out w with
    | r :: o => Some (set_w s i (W (w_st w) (w_k w) o (w_in w) (w_ret w)) (taskq s) (doneq s ++ [r]))
    | [] => None
    end
  | LExit _ =>
    match w_st w with
    | Dying c =>
      if c_exit cfg (w_out w) then
        Some (set_w s i (W (Exited c) (w_k w) (w_out w) (w_in w) (w_ret w)) (taskq s) (doneq s))
      else None
    | _ => None
    end
  | _ => None
  end.

Definition exec (cfg : config) (s : state) (l : label) : option state :=
  match l with
  | LTake i _ | LStop i | LFinish i _ | LFlush i | LExit i =>
    match nth_error (ws s) i with
    | Some w => exec_worker cfg s i w l
    | None => None
    end
  | LGet x =>
    match ppc s, doneq s with
    | AtGet, r :: q =>
      if Nat.eqb (fst r) x then
        Some (set_p s q (ws s) AtReap (pool_empty (ws s)) false (Some r) (delivered s))
      else None
    | _, _ => None
    end
  | LGetEmpty =>
    match ppc s, doneq s with
    | AtGet, [] => Some (set_p s [] (ws s) AtReap (pool_empty (ws s)) true None (delivered s))
    | _, _ => None
    end
  | LReap obs =>
    match ppc s with
    | AtReap =>
      if obs_eqb obs (reap_obs (ws s)) then
        Some (set_p s (doneq s) (map reap_w (ws s)) AtDeliver (all_reaped s) (qempty s) (got s) (delivered s))
      else None
    | _ => None
    end
  | LDeliver x =>
    match ppc s, got s with
    | AtDeliver, Some r =>
      if Nat.eqb (fst r) x && (c_tol cfg || negb (is_fail (snd r))) then
        Some (set_p s (doneq s) (ws s) AtBreak (all_reaped s) (qempty s) None (delivered s ++ [r]))
      else None
    | _, _ => None
    end
  | LAbort x =>
    match ppc s, got s with
    | AtDeliver, Some r =>
      if Nat.eqb (fst r) x && (negb (c_tol cfg) && is_fail (snd r)) then
        Some (set_p s (doneq s) (ws s) (Aborted x) (all_reaped s) (qempty s) (got s) (delivered s))
      else None
    | _, _ => None
    end
  | LNoDeliver =>
    match ppc s, got s with
    | AtDeliver, None =>
      Some (set_p s (doneq s) (ws s) AtBreak (all_reaped s) (qempty s) None (delivered s))
    | _, _ => None
    end
  | LBreak =>
    match ppc s with
    | AtBreak =>
      if eval_brk (c_brk cfg) (pool_empty (ws s)) (all_reaped s) (qempty s) then
        Some (set_p s (doneq s) (ws s) Done (all_reaped s) (qempty s) (got s) (delivered s))
      else None
    | _ => None
    end
  | LLoop =>
    match ppc s with
    | AtBreak =>
      if eval_brk (c_brk cfg) (pool_empty (ws s)) (all_reaped s) (qempty s) then None
      else Some (set_p s (doneq s) (map restart_w (ws s)) AtGet (all_reaped s) (qempty s) (got s) (delivered s))
    | _ => None
    end
  end.

Fixpoint run (cfg : config) (s : state) (ls : list label) : option state :=
  match ls with
  | [] => Some s
  | l :: t => match exec cfg s l with Some s' => run cfg s' t | None => None end
  end.

(* ------------------------------------------------------------------------------------------------ *)
(* What the caller of irun observes. *)

Inductive outcome :=
| Completed (d : list result)             (* the generator finished; d = results in the order yielded *)
| Raised (i : nat) (d : list result)      (* irun raised the failure of id i after yielding d *)
| Other (d : list result).                (* neither: still running at the harness's deadline, or another
                                             exception; never an outcome of the model *)

Definition outcome_of_state (s : state) : option outcome :=
  match ppc s with
  | Done => Some (Completed (delivered s))
  | Aborted i => Some (Raised i (delivered s))
  | _ => None
  end.

Definition outcome_eqb (a b : outcome) : bool :=
  match a, b with
  | Completed x, Completed y => list_eqb result_eqb x y
  | Raised i x, Raised j y => Nat.eqb i j && list_eqb result_eqb x y
  | Other x, Other y => list_eqb result_eqb x y
  | _, _ => false
  end.

(* "single process way" of irun (pool_size == 1): a plain loop over the ids *)
Fixpoint seq_run (tol : bool) (f : nat -> val) (ids : list nat) : outcome :=
  match ids with
  | [] => Completed []
  | i :: t =>
    if negb tol && is_fail (f i) then Raised i []
    else match seq_run tol f t with
         | Completed d => Completed ((i, f i) :: d)
         | Raised j d => Raised j ((i, f i) :: d)
         | Other d => Other d
         end
  end.

(* ------------------------------------------------------------------------------------------------ *)
(* The break conditions that occur in this development. *)

Definition brk_as_written : bexpr := BPoolEmpty.                       (* if not pool: break *)
Definition brk_naive : bexpr := BAnd BPoolEmpty BQueueEmpty.           (* if not pool and queue_empty *)
Definition brk_fixed : bexpr := BAnd BPoolEmpty (BAnd BAllReaped BQueueEmpty).

Definition all3 : list (bool * bool * bool) :=
  [(true, true, true); (true, true, false); (true, false, true); (true, false, false);
   (false, true, true); (false, true, false); (false, false, true); (false, false, false)].

(* leaving the loop implies: pool empty now, pool already empty before the last get, that get found nothing *)
Definition brk_safe (b : bexpr) : bool :=
  forallb (fun t => match t with (pe, ar, qe) => implb (eval_brk b pe ar qe) (pe && ar && qe) end) all3.
(* ... and in that situation the loop is left *)
Definition brk_live (b : bexpr) : bool :=
  forallb (fun t => match t with (pe, ar, qe) => implb (pe && ar && qe) (eval_brk b pe ar qe) end) all3.

Definition lawful_exit (out : list result) : bool := match out with [] => true | _ => false end.

(* ------------------------------------------------------------------------------------------------ *)
(* Shape of the source, as reported by harness/translators/tr_parallel.py. *)

Inductive pop := OSnap | OGet | OReap | OAbort | ODeliver | OBreakTest | ORestart.
Inductive wop := OWGet | OWStopReturn | OWInvoke | OWPut | OWCount | OWRetire.

Definition pop_eqb (a b : pop) : bool :=
  match a, b with
  | OSnap, OSnap | OGet, OGet | OReap, OReap | OAbort, OAbort | ODeliver, ODeliver
  | OBreakTest, OBreakTest | ORestart, ORestart => true
  | _, _ => false
  end.
Definition wop_eqb (a b : wop) : bool :=
  match a, b with
  | OWGet, OWGet | OWStopReturn, OWStopReturn | OWInvoke, OWInvoke | OWPut, OWPut
  | OWCount, OWCount | OWRetire, OWRetire => true
  | _, _ => false
  end.

Definition model_parent_order : list pop := [OGet; OReap; OAbort; ODeliver; OBreakTest; ORestart].
Definition model_worker_order : list wop := [OWGet; OWStopReturn; OWInvoke; OWPut; OWCount; OWRetire].

Fixpoint mentions_all_reaped (b : bexpr) : bool :=
  match b with
  | BAllReaped => true
  | BAnd x y => mentions_all_reaped x || mentions_all_reaped y
  | _ => false
  end.

(* The loop of the source has the order of operations this model hard-wires: with the snapshot
   `all_reaped = not pool` (if the break test uses it) taken first, before the get. *)
Definition shape_ok (known : bool) (parent : list pop) (brk : bexpr) (worker : list wop) : bool :=
  known &&
  list_eqb wop_eqb worker model_worker_order &&
  (if mentions_all_reaped brk then list_eqb pop_eqb parent (OSnap :: model_parent_order)
   else list_eqb pop_eqb parent model_parent_order
        || list_eqb pop_eqb parent (OSnap :: model_parent_order)).

(* ------------------------------------------------------------------------------------------------ *)
(* Replay of a recorded trace.  [recorded] = the events the hook logged (labels, ordered by time);
   [witness] = a run of the model containing, per actor and in the same order, exactly these events plus
   the silent steps (feeder flush, exit visibility, empty deliver). *)

Definition visible (l : label) : bool :=
  match l with LFlush _ | LExit _ | LNoDeliver => false | _ => true end.

Definition actor (l : label) : nat :=
  match l with
  | LTake w _ | LStop w | LFinish w _ | LFlush w | LExit w => S w
  | _ => 0
  end.

Definition label_eqb (a b : label) : bool :=
  match a, b with
  | LTake w i, LTake w' i' => Nat.eqb w w' && Nat.eqb i i'
  | LStop w, LStop w' => Nat.eqb w w'
  | LFinish w i, LFinish w' i' => Nat.eqb w w' && Nat.eqb i i'
  | LFlush w, LFlush w' => Nat.eqb w w'
  | LExit w, LExit w' => Nat.eqb w w'
  | LGet i, LGet i' => Nat.eqb i i'
  | LGetEmpty, LGetEmpty => true
  | LReap o, LReap o' => obs_eqb o o'
  | LDeliver i, LDeliver i' => Nat.eqb i i'
  | LNoDeliver, LNoDeliver => true
  | LAbort i, LAbort i' => Nat.eqb i i'
  | LBreak, LBreak => true
  | LLoop, LLoop => true
  | _, _ => false
  end.

Definition proj (a : nat) (ls : list label) : list label :=
  filter (fun l => visible l && Nat.eqb (actor l) a) ls.

Definition replay_ok (cfg : config) (recorded witness : list label) (o : outcome) : bool :=
  forallb (fun a => list_eqb label_eqb (proj a recorded) (proj a witness)) (seq 0 (S (c_pool cfg))) &&
  Nat.eqb (List.length (filter visible recorded)) (List.length (filter visible witness)) &&
  match run cfg (init cfg) witness with
  | Some s => match outcome_of_state s with Some o' => outcome_eqb o' o | None => false end
  | None => false
  end.

(* ------------------------------------------------------------------------------------------------ *)
(* Reachable states: any finite sequence of enabled steps from the initial state (any interleaving). *)

Inductive reachable (cfg : config) : state -> Prop :=
| R_init : reachable cfg (init cfg)
| R_step : forall s l s', reachable cfg s -> exec cfg s l = Some s' -> reachable cfg s'.

(* pool_size = min(parallel, len(ids)) with parallel >= 1: no worker only if nothing was submitted *)
Definition wf_cfg (cfg : config) : bool :=
  match c_ids cfg with [] => true | _ => negb (Nat.eqb (c_pool cfg) 0) end.

(* where a submitted id can be *)
Definition got_list (g : option result) : list result := match g with Some r => [r] | None => [] end.
Definition outbox_results (l : list worker) : list result := flat_map w_out l.
Definition busy_ids (l : list worker) : list nat :=
  flat_map (fun w => match w_st w with Busy i => [i] | _ => [] end) l.
Definition pending_ids (q : list task) : list nat :=
  flat_map (fun t => match t with Inv i => [i] | Stop => [] end) q.

(* results that left a worker's task function and have not been handed to the caller *)
Definition in_flight (s : state) : list result := got_list (got s) ++ doneq s ++ outbox_results (ws s).

(* delivered (+) in flight (+) busy (+) pending *)
Definition accounted (s : state) : list nat :=
  map fst (delivered s) ++ map fst (in_flight s) ++ busy_ids (ws s) ++ pending_ids (taskq s).
