(* The patching pipeline instantiated with the shared row-pattern compiler
   (Model/Pattern.v): what annet.api._diff_and_patch computes without ACL.  No proofs. *)
From Coq Require Import List String Ascii Bool Arith ZArith.
From Annet Require Import Base.Str Base.Tree Model.Pattern Model.Rulebook Model.Diff Model.Order
     Model.Patch Model.Blocks.
Import ListNotations.
Open Scope string_scope.
Open Scope list_scope.

Record vendor := Vendor {
  v_reverse : string;     (* registry[vendor].reverse *)
  v_exit : string;        (* registry[vendor].exit *)
  v_family : family       (* formatter class *)
}.

Definition pm (pat row : string) : option (list string) := rule_match pat false row.
Definition psrc (pat : string) : string :=
  match rule_pat pat with Some p => regex_src p | None => "" end.
Definition prev (v : vendor) (pat : string) : string := reverse_row pat (v_reverse v).
Definition prreverse (v : vendor) (pat : string) (key : list string) : string :=
  format_template (make_reverse pat (v_reverse v)) key.

Definition p_make_diff (rs : rset) (old new : forest) : list dnode := make_diff pm rs old new.

Definition p_make_patch (v : vendor) (ordering : list orule) (p : pre) : presult :=
  make_patch pm psrc (prev v) (v_exit v) (prreverse v) p ordering.

Definition p_get_order (v : vendor) := get_order pm psrc (prev v) (v_exit v).
Definition p_order_config (v : vendor) := order_config pm psrc (prev v) (v_exit v) (v_reverse v).

(* _diff_and_patch(dev, old, new, None, None, False, rb): (stripped diff, patch tree) *)
Definition diff_and_patch (v : vendor) (rs : rset) (ordering : list orule) (old new : forest)
  : list dnode * presult :=
  let d := p_make_diff rs old new in
  (strip_unchanged d, p_make_patch v ordering (make_pre d)).

(* the pre-fix file front end: strip before make_pre (kept for the C16 refutation) *)
Definition file_diff_and_patch_stripped_first (v : vendor) (rs : rset) (ordering : list orule) (old new : forest)
  : list dnode * presult :=
  let d := strip_unchanged (p_make_diff rs old new) in
  (d, p_make_patch v ordering (make_pre d)).
