(* Model of annlib/patching.py: make_pre, make_patch, PatchTree.sort and of the six
   common %logic functions of annlib/rulebook/common.py.  No proofs.
   Not modelled: %multiline bodies, %comment / add_comments, vendor %logic functions,
   do_commit=False skipping of force_commit rows. *)
From Coq Require Import List String Ascii Bool Arith ZArith.
From Annet Require Import Base.Str Base.Tree Model.Rulebook Model.Diff Model.Order.
Import ListNotations.
Open Scope string_scope.
Open Scope list_scope.

(* pre: odict raw_rule -> {attrs, items: odict key -> {op: [ {row, children: pre} ]}}.
   The five buckets of a key are one list of (op, row, children) in insertion order. *)
Inductive pre := Pre (groups : list (string * attrs * list (list string * list (op * string * pre)))).
Definition pgroups (p : pre) := match p with Pre g => g end.

Definition pitem := (op * string * pre)%type.
Definition pkeys := list (list string * list pitem).
Definition pgroup := (string * attrs * pkeys)%type.

Fixpoint ins_key (key : list string) (it : pitem) (ks : pkeys) : pkeys :=
  match ks with
  | [] => [(key, [it])]
  | (k, its) :: r => if list_str_eqb k key then (k, its ++ [it]) :: r else (k, its) :: ins_key key it r
  end.

Fixpoint ins_group (raw : string) (a : attrs) (key : list string) (it : pitem) (gs : list pgroup) : list pgroup :=
  match gs with
  | [] => [(raw, a, [(key, [it])])]
  | (r, a0, ks) :: t =>
    if String.eqb r raw then (r, a0, ins_key key it ks) :: t
    else (r, a0, ks) :: ins_group raw a key it t
  end.

Fixpoint make_pre_n (d : dnode) : string * attrs * list string * pitem :=
  match d with
  | DN o row m kids =>
    (mi_raw m, mi_attrs m, mi_key m,
     (o, row, Pre (fold_left (fun gs e => let '(raw, a, key, it) := e in ins_group raw a key it gs)
                             (map make_pre_n kids) [])))
  end.
Definition make_pre (d : list dnode) : pre :=
  Pre (fold_left (fun gs e => let '(raw, a, key, it) := e in ins_group raw a key it gs)
                 (map make_pre_n d) []).

(* PatchTree: items (row, child or None, sort_key) *)
Definition skey := (znum * string * bool)%type.
Inductive ptree := PT (items : list (string * option ptree * skey)).
Definition pitems (p : ptree) := match p with PT i => i end.

Definition skey_leb (a b : skey) : bool :=
  let '(n1, r1, d1) := a in
  let '(n2, r2, d2) := b in
  match znum_compare n1 n2 with
  | Lt => true
  | Gt => false
  | Eq => match String.compare r1 r2 with
          | Lt => true
          | Gt => false
          | Eq => implb d1 d2
          end
  end.

(* what a logic function yields: (direct, row, sub_pre or None) with the children
   already turned into "ordering rules -> patch" *)
Inductive presult := POk (t : ptree) | PErr.     (* PErr: AssertionError "Too many … actions" *)
Definition ckpre := list orule -> presult.
Definition citem := (op * string * ckpre * bool (* children pre non-empty *))%type.

Section Logic.
  Variable rreverse : string -> list string -> string.  (* pattern text -> key -> the formatted reverse command *)
  Variable raw : string.                                (* the rule's pattern text *)
  Variable key : list string.

  Definition bucket (o : op) (its : list citem) : list citem :=
    filter (fun it => op_eqb (fst (fst (fst it))) o) its.

  Definition yielded := list (bool * string * option (ckpre * bool)).

  (* common.default on explicit buckets; None = AssertionError *)
  Definition default_b (added removed affected moved : list citem) : option yielded :=
    if Nat.ltb 1 (List.length added) || Nat.ltb 1 (List.length removed) ||
       Nat.ltb 1 (List.length affected) || Nat.ltb 1 (List.length moved) then None
    else match affected with
         | (_, row, ch, ne) :: _ => Some [(true, row, Some (ch, ne))]
         | [] =>
           match added, moved with
           | (_, row, ch, ne) :: _, _ => Some [(true, row, Some (ch, ne))]
           | [], (_, row, ch, ne) :: _ => Some [(true, row, Some (ch, ne))]
           | [], [] =>
             match removed with
             | _ :: _ => Some [(false, rreverse raw key, None)]
             | [] => Some []
             end
           end
         end.

  Definition run_logic (L : logic) (its : list citem) : option yielded :=
    let added := bucket Added its in
    let removed := bucket Removed its in
    let affected := bucket Affected its in
    let moved := bucket Moved its in
    match L with
    | LDefault => default_b added removed affected moved
    | LOrdered =>
      match default_b added removed affected moved with
      | None => None          (* the undo is yielded first, then default asserts *)
      | Some y => Some (match moved with _ :: _ => (false, rreverse raw key, None) :: y | [] => y end)
      end
    | LRewrite => match removed with [] => default_b added removed affected moved | _ => Some [] end
    | LPermanent =>
      match removed with
      | [] => default_b added removed affected moved
      | (_, _, _, ne) :: _ =>
        if ne then default_b added [] (affected ++ removed) moved else Some []
      end
    | LIgnoreChanges =>
      match added, removed with
      | _ :: _, _ :: _ => Some []
      | _, _ => default_b added removed affected moved
      end
    | LUndoRedo =>
      match added, removed, affected with
      | _ :: _, _ :: _, [] =>
        match default_b [] removed [] [], default_b added [] [] [] with
        | Some a, Some b => Some (a ++ b)
        | _, _ => None
        end
      | _, _, _ => default_b added removed affected moved
      end
    end.
End Logic.

Section MakePatch.
  Variable rmatch : string -> string -> option (list string).
  Variable rsrc : string -> string.
  Variable rrev : string -> string.
  Variable block_exit : string.
  Variable rreverse : string -> list string -> string.

  Definition sort_items (l : list (string * option ptree * skey)) :=
    stable_sort (fun a b => skey_leb (snd a) (snd b)) l.

  (* one level of make_patch, children already closures over the ordering rules *)
  Definition patch_level (groups : list (string * attrs * list (list string * list citem)))
             (ordering : list orule) : presult :=
    let step (acc : option (list (string * option ptree * skey))) (e : string * attrs * list string * list citem) :=
        let '(raw, a, key, its) := e in
        match acc with
        | None => None
        | Some out =>
          match run_logic rreverse (a_pat a) key (a_logic a) its with
          | None => None
          | Some ys =>
            fold_left
              (fun acc2 y =>
                 let '(direct, row, sub) := y in
                 match acc2 with
                 | None => None
                 | Some out2 =>
                   let '(order, odirect, ord') := get_order rmatch rsrc rrev block_exit ordering row direct (Some "patch") in
                   let children :=
                       match sub with
                       | Some (ch, true) => ch ord'
                       | _ => POk (PT [])
                       end in
                   match children with
                   | PErr => None
                   | POk ct =>
                     let sk : skey := (match order with ZFin z => ZFin (if odirect then z else Z.opp z) | ZInf => ZInf end,
                                       raw, odirect) in
                     let leaf := (match pitems ct with [] => negb (a_parent a) | _ => false end) || negb direct in
                     let it := if leaf then (row, None, sk) else (row, Some ct, sk) in
                     Some (out2 ++ it :: (if a_force_commit a then [("commit", None, sk)] else []))
                   end
                 end)
              ys (Some out)
          end
        end in
    let flat := flat_map (fun g => let '(raw, a, ks) := g in map (fun k => (raw, a, fst k, snd k)) ks) groups in
    match fold_left step flat (Some []) with
    | None => PErr
    | Some out => POk (PT (sort_items out))
    end.

  Fixpoint make_patch (p : pre) : list orule -> presult :=
    match p with
    | Pre groups =>
      patch_level
        (map (fun g : pgroup =>
                let '(raw, a, ks) := g in
                (raw, a, map (fun k : list string * list pitem =>
                                (fst k, map (fun it : pitem =>
                                               let '(o, row, ch) := it in
                                               (o, row, make_patch ch,
                                                match pgroups ch with [] => false | _ => true end)) (snd k))) ks))
             groups)
    end.
End MakePatch.

(* comparison of patch trees for the correspondence: rows, nesting (None vs block), order *)
Fixpoint ptree_eqb (a b : ptree) {struct a} : bool :=
  match a, b with
  | PT ia, PT ib =>
    (fix go (l m : list (string * option ptree * skey)) {struct l} : bool :=
       match l, m with
       | [], [] => true
       | (r, c, _) :: l', (r', c', _) :: m' =>
         String.eqb r r' &&
         match c, c' with
         | None, None => true
         | Some x, Some y => ptree_eqb x y
         | _, _ => false
         end && go l' m'
       | _, _ => false
       end) ia ib
  end.
