(* Extension of Model/Pattern.v (which stays as it is: other models import it).
   The *extended* rule language: besides
       literal words, `*`, `*/re/`, trailing `~`
   a rule word may be a one-word regular expression that binds nothing:
       LitRe re    e.g. `(ftp|FTP)`, `(?:permit|deny)`, `vlans?`, `[11|12]`
       TildeRe re  `~/re/`
   Model of annet.annlib.rbparser.syntax.compile_row_regexp on such rows, including two
   peculiarities of the code (both are reported as findings by the check):
     - when the row contains no `*` the plain groups of the row are not neutralised, so a
       word that is one capturing group `(a|b)` is captured into the key;
     - when the row contains `~/re/` no trailing word boundary is appended, so the last
       token only has to match a prefix of its word.
   Rows outside the language: parse_xpat = None (fail closed).
   No proofs in this file (Proofs/PatternXProofs.v). *)
From Coq Require Import List String Ascii Bool Arith NArith.
From Annet Require Import Base.Str Model.Pattern.
Import ListNotations.
Open Scope string_scope.
Open Scope list_scope.

Inductive xtok :=
| XLit (w : string)       (* a literal word *)
| XStar                   (* `*`      exactly one word, bound *)
| XStarRe (r : sre)       (* `*/re/`  exactly one word in L(re), bound *)
| XTilde                  (* `~`      (trailing) one or more words, bound as one string *)
| XLitRe (r : sre)        (* `re`     exactly one word in L(re), binds nothing *)
| XTildeRe (r : sre).     (* `~/re/`  exactly one word in L(re), binds nothing *)

Definition xpat := list xtok.

Definition embed_tok (t : tok) : xtok :=
  match t with Lit w => XLit w | Star => XStar | StarRe r => XStarRe r | Tilde => XTilde end.
Definition embed (p : pat) : xpat := map embed_tok p.

(* ------------------------------------------------------------------------------ *)
(* syntactic classes of one-word regexps                                           *)

(* some group of r is capturing *)
Fixpoint has_cap (r : sre) : bool :=
  match r with
  | SGrp cap a => cap || has_cap a
  | SCat a b | SAlt a b => has_cap a || has_cap b
  | SStar a | SPlus a | SOpt a => has_cap a
  | _ => false
  end.

(* the whole word is one capturing group *)
Definition is_capgrp (r : sre) : bool := match r with SGrp true _ => true | _ => false end.

(* no capturing group, or the whole word is one capturing group without inner ones:
   then groups() is predictable at word level *)
Definition caps_simple (r : sre) : bool :=
  negb (has_cap r) || match r with SGrp true a => negb (has_cap a) | _ => false end.

(* no alternation outside a group: the regex can be spliced into the row's regex *)
Fixpoint alt_closed (r : sre) : bool :=
  match r with
  | SAlt _ _ => false
  | SCat a b => alt_closed a && alt_closed b
  | SStar a | SPlus a | SOpt a => alt_closed a
  | _ => true
  end.

(* characters of a LitRe / TildeRe source: nothing the textual macro expansion or the
   reverse template would touch *)
Definition lre_char (c : ascii) : bool := negb (mem_ascii c (l_of "*~{}")).

Definition lre_ok (r : sre) : bool :=
  sre_ok r && alt_closed r && forallb lre_char (print_sre_l r).

Definition is_xstar (t : xtok) : bool := match t with XStar | XStarRe _ => true | _ => false end.
Definition is_xtildere (t : xtok) : bool := match t with XTildeRe _ => true | _ => false end.
Definition is_xtilde (t : xtok) : bool := match t with XTilde => true | _ => false end.
Definition is_xlit (t : xtok) : bool := match t with XLit _ => true | _ => false end.

(* "*" in row *)
Definition has_star (p : xpat) : bool := existsb is_xstar p.
(* "~/" in row *)
Definition has_tildere (p : xpat) : bool := existsb is_xtildere p.

Definition wf_xtok (t : xtok) : bool :=
  match t with
  | XLit w => plain_word w
  | XStar | XTilde => true
  | XStarRe r => sre_ok r
  | XLitRe r => lre_ok r && negb (plain_word (print_sre r))
  | XTildeRe r => lre_ok r
  end.

Fixpoint xtilde_last (p : xpat) : bool :=
  match p with
  | [] => true
  | [_] => true
  | t :: p' => negb (is_xtilde t) && xtilde_last p'
  end.

(* the text of the token that ends up inside the compiled regex *)
Definition xtok_body (t : xtok) : list ascii :=
  match t with
  | XLit w => l_of w
  | XStarRe r | XLitRe r | XTildeRe r => print_sre_l r
  | XStar | XTilde => []
  end.

Definition no_slash (s : list ascii) : bool := negb (mem_ascii "/"%char s).

(* the word a capturing token captures is predictable *)
Definition xtok_caps_ok (t : xtok) : bool :=
  match t with XLitRe r | XTildeRe r => caps_simple r | _ => true end.
Definition xtok_nocap (t : xtok) : bool :=
  match t with XLitRe r | XTildeRe r => negb (has_cap r) | _ => true end.

Definition xlast (p : xpat) : option xtok := match rev p with t :: _ => Some t | [] => None end.

(* rows with `~/re/`: re.sub(r"~/(((?!~/).)+)/", ...) is textual and greedy, so no other
   `/` may occur; `~` is not both trailing and in `~/re/`; and the last token (matched
   without a word boundary) must not need Python's backtracking order *)
Definition wf_tildere (p : xpat) : bool :=
  negb (has_tildere p)
  || (forallb (fun t => negb (is_xtilde t)) p
      && forallb (fun t => no_slash (xtok_body t)) p
      && match xlast p with
         | Some (XStarRe _) => false
         | Some t => has_star p || xtok_nocap t
         | None => false
         end).

Definition wf_xpat (p : xpat) : bool :=
  negb (match p with [] => true | _ => false end)
  && forallb wf_xtok p && xtilde_last p
  && wf_tildere p
  && (has_star p || forallb xtok_caps_ok p).

Definition print_xtok (t : xtok) : string :=
  match t with
  | XLit w => w
  | XStar => "*"
  | XStarRe r => "*/" ++ print_sre r ++ "/"
  | XTilde => "~"
  | XLitRe r => print_sre r
  | XTildeRe r => "~/" ++ print_sre r ++ "/"
  end.

Definition print_xpat (p : xpat) : string := join_with " " (map print_xtok p).

(* a rule word: first as a word of the plain language, else `~/re/`, else a bare regex *)
Definition parse_xtok (w : string) : option xtok :=
  match parse_tok w with
  | Some t => Some (embed_tok t)
  | None =>
    match l_of w with
    | a :: b :: body =>
      if Ascii.eqb a "~" && Ascii.eqb b "/" then
        match unsnoc body with
        | Some (src, z) =>
          if Ascii.eqb z "/" then
            match parse_sre_l src with Some r => Some (XTildeRe r) | None => None end
          else None
        | None => None
        end
      else match parse_sre_l (l_of w) with Some r => Some (XLitRe r) | None => None end
    | _ => match parse_sre_l (l_of w) with Some r => Some (XLitRe r) | None => None end
    end
  end.

Fixpoint parse_xtoks (ws : list string) : option xpat :=
  match ws with
  | [] => Some []
  | w :: r =>
    match parse_xtok w, parse_xtoks r with
    | Some t, Some p => Some (t :: p)
    | _, _ => None
    end
  end.

(* the result is always well formed and prints back to the very same text *)
Definition parse_xpat (s : string) : option xpat :=
  if wf_row s then
    match parse_xtoks (words s) with
    | Some p => if wf_xpat p && String.eqb (print_xpat p) s then Some p else None
    | None => None
    end
  else None.

(* ------------------------------------------------------------------------------ *)
(* Word-level semantics                                                            *)

(* some prefix of w is in L(r): regexp.match without a boundary after it *)
Fixpoint sre_run_pre (ic : bool) (r : sre) (w : list ascii) : bool :=
  nullable r ||
  match w with
  | [] => false
  | c :: w' => sre_run_pre ic (deriv ic c r) w'
  end.
Definition sre_iprefix (ic : bool) (r : sre) (w : string) : bool := sre_run_pre ic r (l_of w).

Fixpoint lprefix_ic (ic : bool) (p s : list ascii) : bool :=
  match p, s with
  | [], _ => true
  | a :: p', b :: s' => chr_eq ic a b && lprefix_ic ic p' s'
  | _ :: _, [] => false
  end.
Definition word_prefix (ic : bool) (w x : string) : bool := lprefix_ic ic (l_of w) (l_of x).

(* token t accepts word x; `loose`: only a prefix of x has to be matched *)
Definition xtok_ok (ic loose : bool) (t : xtok) (x : string) : bool :=
  match t with
  | XLit w => if loose then word_prefix ic w x else word_eq ic w x
  | XStar => true
  | XStarRe r => sre_imatch ic r x
  | XLitRe r | XTildeRe r => if loose then sre_iprefix ic r x else sre_imatch ic r x
  | XTilde => false
  end.

(* what t contributes to groups(); `cap`: plain groups are capturing *)
Definition xtok_bind (cap : bool) (t : xtok) (x : string) : list string :=
  match t with
  | XStar | XStarRe _ => [x]
  | XLitRe r | XTildeRe r => if cap && is_capgrp r then [x] else []
  | XLit _ | XTilde => []
  end.

(* cap: plain groups capture (no `*` in the row); nb: no trailing word boundary *)
Fixpoint xmatch_words (cap nb : bool) (p : xpat) (ic : bool) (ws : list string) : option (list string) :=
  match p with
  | [] => Some []
  | XTilde :: p' =>
    match p', ws with
    | [], _ :: _ => Some [join_with " " ws]
    | _, _ => None
    end
  | t :: p' =>
    match ws with
    | x :: ws' =>
      let loose := nb && match p' with [] => true | _ => false end in
      if xtok_ok ic loose t x
      then option_map (app (xtok_bind cap t x)) (xmatch_words cap nb p' ic ws')
      else None
    | [] => None
    end
  end.

(* compile_row_regexp(print_xpat p, IGNORECASE if ic).match(row) -> Some groups() / None *)
Definition xpmatch (p : xpat) (ic : bool) (row : string) : option (list string) :=
  match p with
  | [] => None
  | _ => xmatch_words (negb (has_star p)) (has_tildere p) p ic (words row)
  end.

(* number of placeholders *)
Definition is_xhole (t : xtok) : bool :=
  match t with XStar | XStarRe _ | XTilde => true | _ => false end.
Definition xnholes (p : xpat) : nat := List.length (filter is_xhole p).
(* number of words that are one plain capturing group *)
Definition xtok_capgrp (t : xtok) : bool :=
  match t with XLitRe r | XTildeRe r => is_capgrp r | _ => false end.
Definition xncaps (p : xpat) : nat := List.length (filter xtok_capgrp p).

(* rows on which the two peculiarities do not show *)
Definition quirk_free (p : xpat) : bool :=
  (has_star p || negb (existsb xtok_capgrp p))
  && (negb (has_tildere p) || match xlast p with Some XStar => true | _ => false end).

Definition xrule_pat (rule_row : string) : option xpat := parse_xpat (rule_strip_ic rule_row).

Definition xrule_match (rule_row : string) (ignore_case : bool) (row : string) : option (list string) :=
  match xrule_pat rule_row with
  | Some p => xpmatch p (rule_ic rule_row ignore_case) row
  | None => None
  end.

(* ------------------------------------------------------------------------------ *)
(* Reverse forms (the text-level functions reverse_row / make_reverse of Pattern.v apply
   unchanged; this is their token-level reading)                                   *)

Definition reverse_xpat (p : xpat) (prefix : string) : xpat :=
  match p with
  | XLit w :: ((_ :: _) as p') => if String.eqb w prefix then p' else XLit prefix :: p
  | _ => XLit prefix :: p
  end.

(* ------------------------------------------------------------------------------ *)
(* Source text of the compiled regexp                                              *)

Definition xtok_src (star : bool) (t : xtok) : string :=
  match t with
  | XLit w => w
  | XStar => "([^\s]+)"
  | XStarRe r => "(" ++ print_sre (noncap r) ++ ")"
  | XTilde => "(.+)"
  | XLitRe r | XTildeRe r => print_sre (if star then noncap r else r)
  end.

Definition xends_tilde (p : xpat) : bool := match xlast p with Some XTilde => true | _ => false end.

(* compile_row_regexp(print_xpat p).pattern *)
Definition xregex_src (p : xpat) : string :=
  "^" ++ join_with "\s+" (map (xtok_src (has_star p)) p)
      ++ (if xends_tilde p || has_tildere p then "" else "(?:\s|$)").

(* ------------------------------------------------------------------------------ *)
(* Sample words of L(r), for the generator of the correspondence run (a few members
   per alternative; soundness is proved in PatternXProofs for the record, the check
   evaluates model and implementation on whatever comes out)                       *)

Definition printable : list ascii := map ascii_of_nat (seq 33 94).
Definition cand_chars : list ascii := l_of "ab019zAZ_-/.:x" ++ printable.
Definition pick_chars (f : ascii -> bool) (n : nat) : list ascii :=
  firstn n (nodup ascii_dec (filter f cand_chars)).

Definition cross2 (A B : list (list ascii)) : list (list ascii) :=
  flat_map (fun x => map (app x) (firstn 2 B)) A.

Fixpoint sre_enum (r : sre) : list (list ascii) :=
  match r with
  | SEps => [[]]
  | SChr c | SEsc c => [[c]]
  | SAny => [["a"%char]]
  | SCls k => map (fun c => [c]) (pick_chars (cls_has k) 2)
  | SSet neg items => map (fun c => [c]) (pick_chars (set_has false neg items) 3)
  | SGrp _ a => sre_enum a
  | SCat a b => firstn 16 (cross2 (sre_enum a) (sre_enum b))
  | SAlt a b => sre_enum a ++ sre_enum b
  | SStar a => [] :: firstn 2 (sre_enum a)
  | SPlus a => firstn 2 (sre_enum a) ++ map (fun w => w ++ w) (firstn 1 (sre_enum a))
  | SOpt a => [] :: firstn 2 (sre_enum a)
  end.

Definition sre_samples (r : sre) : list string :=
  map s_of (filter (fun w => match w with [] => false | _ => true end) (firstn 16 (sre_enum r))).

(* per token: sample words ([] for `*` and `~`: the caller fills them in) *)
Definition xtok_samples (t : xtok) : list string :=
  match t with
  | XLit w => [w]
  | XStar | XTilde => []
  | XStarRe r | XLitRe r | XTildeRe r => sre_samples r
  end.

Definition xrule_samples (rule_row : string) : option (list (list string)) :=
  option_map (map xtok_samples) (xrule_pat rule_row).
