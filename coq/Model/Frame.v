(* C20.  The objects that outlive one call of annet.api._diff_and_patch, made explicit.

   A Gallina function cannot alias or mutate, so the shared Python objects are a store:

     * the compiled patching rulebook (lru_cache of compile_patching_text / provider cache):
       its rule tree is immutable, the attribute dictionary of every rule is a *cell*
       holding the fields that %logic functions of the repository assign to
       (rule["reverse"], rule["force_commit"], rule["comment"]; Gen/Src_frames.v lists the
       writers found in the source) and attrs["context"], which a vendor %diff_logic function
       (juniper.comment_processor) writes into through match["attrs"];
     * the compiled ACLs (lru_cache of compile_acl_text): immutable rule tree, one scratch
       cell attrs["match"] per rule, written by _find_acl_matches at every match;
     * the caller's old and new configuration trees (apply_diff_rb pops the rows no rule
       knows from whatever it is handed).

   Every statement of annlib/patching.py that writes to an object it did not create is a
   write to that store here, UNLESS the defensive copy of that call site is present.  Which
   copies are present is a parameter (record frames); the value for the current source is
   generated (Gen/Src_frames.v, harness/translators/tr_frames.py).

   The pure computations (make_diff, make_pre, get_order, order_config, the six common
   logics) are the ones of Model/{Rulebook,Diff,Order,Patch,Pipeline}.v.  No proofs here. *)
From Coq Require Import List String Ascii Bool Arith ZArith.
From Annet Require Import Base.Str Base.Tree Model.Pattern Model.Rulebook Model.Diff Model.Order
     Model.Patch Model.Blocks Model.Pipeline.
Import ListNotations.
Open Scope string_scope.
Open Scope list_scope.

(* ------------------------------------------------------------------------------------ *)
(* 1. Call-site facts                                                                    *)

Record frames := Frames {
  (* make_diff: what reaches apply_diff_rb / call_diff_logic is copy.deepcopy(old|new) *)
  fr_diff_copy_old : bool;
  fr_diff_copy_new : bool;
  (* apply_diff_rb removes (pop / del) the rows without a rule from its 1st / 2nd argument *)
  fr_diff_pops_old : bool;
  fr_diff_pops_new : bool;
  (* _select_match: match["attrs"] is copy.deepcopy(f_rule["attrs"]) *)
  fr_select_copy : bool;
  (* make_patch: the `rule` handed to attrs["logic"] is a deepcopy taken per (rule, key) *)
  fr_patch_copy : bool;
  (* _find_acl_matches stores match.groupdict() into the shared rule's attrs["match"] *)
  fr_acl_match_write : bool;
  (* compiled objects are shared between calls with the same text (lru_cache / provider cache) *)
  fr_cache_patching : bool;
  fr_cache_acl : bool
}.

Definition all_copies : frames := Frames true true true true true true true true true.

(* every write to an object the function did not create has its defensive copy *)
Definition frames_ok (F : frames) : bool :=
  implb (fr_diff_pops_old F) (fr_diff_copy_old F) &&
  implb (fr_diff_pops_new F) (fr_diff_copy_new F) &&
  fr_select_copy F && fr_patch_copy F.

(* %logic functions of the repository that assign to their rule argument, as found by the
   translator: dotted name, fields written *)
Definition rule_writer := (string * list string)%type.

(* ------------------------------------------------------------------------------------ *)
(* 2. Compiled patching rulebook: immutable tree + cells                                 *)

Record cell := Cell {
  c_reverse : string;          (* attrs["reverse"]: the "{}" template of the removal command *)
  c_force_commit : bool;       (* attrs["force_commit"] *)
  c_comment : list string;     (* attrs["comment"] *)
  c_context : list string      (* marks a %diff_logic function left in attrs["context"] *)
}.
Definition dcell : cell := Cell "" false [] [].

Definition cell_eqb (a b : cell) : bool :=
  String.eqb (c_reverse a) (c_reverse b) && Bool.eqb (c_force_commit a) (c_force_commit b) &&
  list_str_eqb (c_comment a) (c_comment b) && list_str_eqb (c_context a) (c_context b).

(* the rule-writing logics that are modelled *)
Inductive wlogic :=
| WDefaultInsteadUndo     (* annet.annlib.rulebook.common.default_instead_undo *)
| WUndoCommit             (* annet.rulebook.huawei.bgp.undo_commit *)
| WSshKey                 (* annet.rulebook.cisco.misc.ssh_key (writes, then restores) *)
| WStamp.                 (* harness/impl/c20_rulebook/c20x.stamp: a non-idempotent writer *)

Definition wlogic_eqb (a b : wlogic) : bool :=
  match a, b with
  | WDefaultInsteadUndo, WDefaultInsteadUndo | WUndoCommit, WUndoCommit | WSshKey, WSshKey | WStamp, WStamp => true
  | _, _ => false
  end.
Definition owlogic_eqb (a b : option wlogic) : bool :=
  match a, b with Some x, Some y => wlogic_eqb x y | None, None => true | _, _ => false end.

Definition wlogic_name (w : wlogic) : string :=
  match w with
  | WDefaultInsteadUndo => "common.default_instead_undo"
  | WUndoCommit => "huawei.bgp.undo_commit"
  | WSshKey => "cisco.misc.ssh_key"
  | WStamp => "c20x.stamp"
  end.
Definition modelled_writers : list string :=
  map wlogic_name [WDefaultInsteadUndo; WUndoCommit; WSshKey].
Definition modelled_fields : list string := ["reverse"; "force_commit"; "comment"].
(* fields of match["attrs"] that %diff_logic functions of the repository write (juniper.comment_processor) *)
Definition modelled_match_fields : list string := ["context"].

(* rule source: a prule of Model/Rulebook.v plus the writer logic (None: the plain logic
   a_logic of the attributes), the %comment list, and the mark its %diff_logic function
   writes into match["attrs"]["context"] of added/removed rows (None: it writes nothing) *)
Inductive srule := SRule (raw : string) (ign : bool) (a : attrs) (w : option wlogic) (cm : list string)
                         (dm : option string) (kl kg : list srule).
Definition srset := (list srule * list srule)%type.

(* the attribute dictionary a rule points to: a cell of the compiled rulebook, or an
   object of its own (merge_dicts of two unequal rule dictionaries builds a new one) *)
Inductive aref := ALoc (l : nat) | AVal (c : cell).

Inductive hrule := HRule (raw : string) (ign : bool) (a : attrs) (w : option wlogic) (dm : option string)
                         (r : aref) (kl kg : list hrule).
Definition hrset := (list hrule * list hrule)%type.
Definition h_raw (h : hrule) := match h with HRule raw _ _ _ _ _ _ _ => raw end.
Definition h_ign (h : hrule) := match h with HRule _ i _ _ _ _ _ _ => i end.
Definition h_attrs (h : hrule) := match h with HRule _ _ a _ _ _ _ _ => a end.
Definition h_w (h : hrule) := match h with HRule _ _ _ w _ _ _ _ => w end.
Definition h_dm (h : hrule) := match h with HRule _ _ _ _ d _ _ _ => d end.
Definition h_ref (h : hrule) := match h with HRule _ _ _ _ _ r _ _ => r end.
Definition h_kl (h : hrule) := match h with HRule _ _ _ _ _ _ kl _ => kl end.
Definition h_kg (h : hrule) := match h with HRule _ _ _ _ _ _ _ kg => kg end.

Definition deref (cs : list cell) (r : aref) : cell :=
  match r with ALoc l => nth l cs dcell | AVal c => c end.

Fixpoint set_nth {A} (n : nat) (x : A) (l : list A) : list A :=
  match l, n with
  | [], _ => []
  | _ :: t, O => x :: t
  | y :: t, S k => y :: set_nth k x t
  end.

(* _compile_patching: cells are numbered in the order the rules are compiled — a rule,
   its local children, its global children; local rules before global rules *)
Fixpoint compile_r (rev : string) (s : srule) (n : nat) {struct s} : hrule * list cell :=
  match s with
  | SRule raw ign a w cm dm kl kg =>
    let c := if ign then dcell else Cell (make_reverse (a_pat a) rev) (a_force_commit a) cm [] in
    let go := fix go (l : list srule) (n : nat) {struct l} : list hrule * list cell :=
                match l with
                | [] => ([], [])
                | x :: t =>
                  let hc := compile_r rev x n in
                  let rest := go t (n + List.length (snd hc)) in
                  (fst hc :: fst rest, snd hc ++ snd rest)
                end in
    let L := go kl (S n) in
    let G := go kg (S n + List.length (snd L)) in
    (HRule raw ign a w dm (ALoc n) (fst L) (fst G), c :: snd L ++ snd G)
  end.
Fixpoint compile_l (rev : string) (l : list srule) (n : nat) : list hrule * list cell :=
  match l with
  | [] => ([], [])
  | x :: t =>
    let hc := compile_r rev x n in
    let rest := compile_l rev t (n + List.length (snd hc)) in
    (fst hc :: fst rest, snd hc ++ snd rest)
  end.
Definition compile (rev : string) (s : srset) : hrset * list cell :=
  let L := compile_l rev (fst s) 0 in
  let G := compile_l rev (snd s) (List.length (snd L)) in
  ((fst L, fst G), snd L ++ snd G).

(* the immutable part, as the rule sets of Model/Rulebook.v (what make_diff reads) *)
Fixpoint to_prule (h : hrule) : prule :=
  match h with HRule raw ign a _ _ _ kl kg => PRule raw ign a (map to_prule kl) (map to_prule kg) end.
Definition to_rset (h : hrset) : rset := (map to_prule (fst h), map to_prule (snd h)).

Fixpoint hdepth (h : hrule) : nat :=
  match h with
  | HRule _ _ _ _ _ _ kl kg =>
    S (Nat.max ((fix go (l : list hrule) := match l with [] => 0 | x :: t => Nat.max (hdepth x) (go t) end) kl)
               ((fix go (l : list hrule) := match l with [] => 0 | x :: t => Nat.max (hdepth x) (go t) end) kg))
  end.
Definition hsdepth (l : list hrule) : nat := fold_right (fun r a => Nat.max (hdepth r) a) 0 l.

(* merge_dicts on rule dictionaries that keep their identity: equal dictionaries give the
   first one; unequal ones a new dictionary whose scalar attributes are the later one's and
   whose lists are concatenated *)
Section HMatch.
  Variable cs : list cell.

  Fixpoint hmerge (fuel : nat) (a b : list hrule) : list hrule :=
    match fuel with
    | O => a
    | S f =>
      fold_left
        (fun acc r =>
           (fix ins (l : list hrule) : list hrule :=
              match l with
              | [] => [r]
              | x :: t =>
                if String.eqb (h_raw x) (h_raw r)
                then (let same := attrs_eqb (h_attrs x) (h_attrs r) && owlogic_eqb (h_w x) (h_w r) &&
                                  cell_eqb (deref cs (h_ref x)) (deref cs (h_ref r)) in
                      HRule (h_raw x) (h_ign r) (h_attrs r) (h_w r) (h_dm r)
                            (if same then h_ref x
                             else AVal (Cell (c_reverse (deref cs (h_ref r))) (c_force_commit (deref cs (h_ref r)))
                                             (c_comment (deref cs (h_ref x)) ++ c_comment (deref cs (h_ref r)))
                                             (c_context (deref cs (h_ref r)))))
                            (hmerge f (h_kl x) (h_kl r)) (hmerge f (h_kg x) (h_kg r))) :: t
                else x :: ins t
              end) acc)
        b a
    end.
  Definition hmerge_rs (a b : list hrule) : list hrule :=
    hmerge (S (Nat.max (hsdepth a) (hsdepth b))) a b.

  Fixpoint hfind_matches (row : string) (l : list (hrule * bool)) : option (list (hrule * bool)) :=
    match l with
    | [] => Some []
    | (r, is_global) :: rest =>
      match pm (a_pat (h_attrs r)) row with
      | None => hfind_matches row rest
      | Some _ => if h_ign r then None else option_map (cons (r, negb is_global)) (hfind_matches row rest)
      end
    end.

  (* children rules of a row (_match_row_to_rules + _select_match), identities kept *)
  Definition hchildren (row : string) (rs : hrset) : hrset :=
    match hfind_matches row (map (fun r => (r, false)) (fst rs) ++ map (fun r => (r, true)) (snd rs)) with
    | None | Some [] => ([], [])
    | Some (((f, f_cr) :: _) as ms) =>
      let '(lc, gc) :=
        if f_cr then
          fold_left (fun (acc : list hrule * list hrule) (m : hrule * bool) =>
                       if snd m then (hmerge_rs (fst acc) (h_kl (fst m)), hmerge_rs (snd acc) (h_kg (fst m))) else acc)
                    ms ([], [])
        else ([], []) in
      (lc, hmerge_rs gc (snd rs))
    end.
End HMatch.

Definition hfind (raw : string) (rs : hrset) : option hrule :=
  find (fun h => String.eqb (h_raw h) raw) (fst rs ++ snd rs).

(* ------------------------------------------------------------------------------------ *)
(* 3. %logic functions on a rule dictionary                                             *)

(* s.replace(a, b), a non-empty *)
Fixpoint lreplace (a b : list ascii) (skip : nat) (s : list ascii) : list ascii :=
  match s with
  | [] => []
  | c :: r =>
    match skip with
    | S k => lreplace a b k r
    | O => if lprefix a s then b ++ lreplace a b (List.length a - 1) r else c :: lreplace a b 0 r
    end
  end.
Definition str_replace (a b s : string) : string := s_of (lreplace (l_of a) (l_of b) 0 (l_of s)).

Section Logic.
  (* K: what a diff item carries as children (a pre); ne: "children is not empty" *)
  Variable K : Type.
  Definition xitem := (op * string * K * bool)%type.
  (* (direct, row, children), and rule["force_commit"], rule["comment"] as make_patch reads
     them when it receives the item *)
  Definition xyield := (bool * string * option (K * bool) * bool * list string)%type.

  Definition xbucket (o : op) (its : list xitem) : list xitem :=
    filter (fun it => op_eqb (fst (fst (fst it))) o) its.

  (* common.default reading rule["reverse"] from the dictionary content c; None = AssertionError *)
  Definition xdefault (c : cell) (key : list string) (added removed affected moved : list xitem)
    : option (list (bool * string * option (K * bool))) :=
    if Nat.ltb 1 (List.length added) || Nat.ltb 1 (List.length removed) ||
       Nat.ltb 1 (List.length affected) || Nat.ltb 1 (List.length moved) then None
    else match affected with
         | (_, row, ch, ne) :: _ => Some [(true, row, Some (ch, ne))]
         | [] =>
           match added, moved with
           | (_, row, ch, ne) :: _, _ => Some [(true, row, Some (ch, ne))]
           | [], (_, row, ch, ne) :: _ => Some [(true, row, Some (ch, ne))]
           | [], [] =>
             match removed with
             | _ :: _ => Some [(false, format_template (c_reverse c) key, None)]
             | [] => Some []
             end
           end
         end.

  Definition tag (c : cell) (y : bool * string * option (K * bool)) : xyield :=
    (y, c_force_commit c, c_comment c).

  (* the six logics of annlib/rulebook/common.py that do not write (as in Model/Patch.v) *)
  Definition xplain (L : logic) (c : cell) (key : list string) (its : list xitem)
    : option (list (bool * string * option (K * bool))) :=
    let added := xbucket Added its in
    let removed := xbucket Removed its in
    let affected := xbucket Affected its in
    let moved := xbucket Moved its in
    match L with
    | LDefault => xdefault c key added removed affected moved
    | LOrdered =>
      match xdefault c key added removed affected moved with
      | None => None
      | Some y => Some (match moved with _ :: _ => (false, format_template (c_reverse c) key, None) :: y | [] => y end)
      end
    | LRewrite => match removed with [] => xdefault c key added removed affected moved | _ => Some [] end
    | LPermanent =>
      match removed with
      | [] => xdefault c key added removed affected moved
      | (_, _, _, ne) :: _ => if ne then xdefault c key added [] (affected ++ removed) moved else Some []
      end
    | LIgnoreChanges =>
      match added, removed with
      | _ :: _, _ :: _ => Some []
      | _, _ => xdefault c key added removed affected moved
      end
    | LUndoRedo =>
      match added, removed, affected with
      | _ :: _, _ :: _, [] =>
        match xdefault c key [] removed [] [], xdefault c key added [] [] [] with
        | Some a, Some b => Some (a ++ b)
        | _, _ => None
        end
      | _, _, _ => xdefault c key added removed affected moved
      end
    end.

  (* One call attrs["logic"](rule=<dictionary with content c>, key, diff): the items it
     yields (None: AssertionError inside common.default) and the content of the dictionary
     when the generator is exhausted or raises.  All writes of the modelled writers happen
     before the first item that carries children is yielded. *)
  Definition run_x (w : option wlogic) (L : logic) (c : cell) (key : list string) (its : list xitem)
    : option (list xyield) * cell :=
    let added := xbucket Added its in
    let removed := xbucket Removed its in
    let affected := xbucket Affected its in
    let moved := xbucket Moved its in
    match w with
    | None => (option_map (map (tag c)) (xplain L c key its), c)
    | Some WDefaultInsteadUndo =>
      let c1 := match removed with
                | [] => c
                | _ => Cell (str_replace "no" "default" (c_reverse c)) (c_force_commit c) (c_comment c) (c_context c)
                end in
      (option_map (map (tag c1)) (xdefault c1 key added removed affected moved), c1)
    | Some WUndoCommit =>
      let first := match removed with
                   | [] => []
                   | _ => [((false, c_reverse c, None), true, c_comment c)]
                   end in
      let c1 := Cell (c_reverse c) false (c_comment c) (c_context c) in
      (option_map (fun ys => first ++ map (tag c1) ys) (xdefault c1 key added removed affected moved), c1)
    | Some WSshKey =>
      let first := match added with
                   | [(_, row, _, _)] =>
                     if String.eqb row "ip ssh version 2"
                     then [((false, "crypto key generate rsa general-keys modulus 2048", None),
                            c_force_commit c, ["!!suppress_errors!!"; "!!timeout=240!!"])]
                     else []
                   | _ => []
                   end in
      (option_map (fun ys => first ++ map (tag c) ys) (xdefault c key added removed affected moved), c)
    | Some WStamp =>
      let c1 := Cell (c_reverse c ++ " +")%string (negb (c_force_commit c)) (c_comment c ++ ["!!stamp!!"]) (c_context c) in
      (option_map (map (tag c1)) (xdefault c1 key added removed affected moved), c1)
    end.
End Logic.

(* ------------------------------------------------------------------------------------ *)
(* 4. make_patch with the rule dictionaries in the store                                *)

Fixpoint pre_depth (p : pre) : nat :=
  match p with
  | Pre gs =>
    S ((fix g1 (l : list pgroup) : nat :=
          match l with
          | [] => 0
          | (_, _, ks) :: t =>
            Nat.max ((fix g2 (l : pkeys) : nat :=
                        match l with
                        | [] => 0
                        | (_, its) :: t =>
                          Nat.max ((fix g3 (l : list pitem) : nat :=
                                      match l with
                                      | [] => 0
                                      | (_, _, ch) :: t => Nat.max (pre_depth ch) (g3 t)
                                      end) its) (g2 t)
                        end) ks) (g1 t)
          end) gs)
  end.

Definition pre_nonempty (p : pre) : bool := match pgroups p with [] => false | _ => true end.

Definition patch_row (add_comments : bool) (row : string) (comment : list string) : string :=
  match add_comments, comment with
  | true, _ :: _ => (row ++ " " ++ join_with " " comment)%string
  | _, _ => row
  end.

Definition pitem_t := (string * option ptree * skey)%type.

Section MakePatchH.
  Variable F : frames.
  Variable v : vendor.
  Variable add_comments : bool.

  (* state of the loops of make_patch: items so far (None after an AssertionError), cells *)
  Definition mstate := (option (list pitem_t) * list cell)%type.

  (* `attrs`: the dictionary that make_patch hands to the logic as `rule`, seen from the
     dictionary g of the pre group (pre[raw_rule]["attrs"] = match["attrs"] of the first row) *)
  Definition write_back (g : aref) (c_out : cell) (cs : list cell) : aref * list cell :=
    if fr_patch_copy F then (g, cs)
    else match g with
         | ALoc l => (g, set_nth l c_out cs)
         | AVal _ => (AVal c_out, cs)
         end.

  (* one level of make_patch; `rec` is make_patch on the children of an item *)
  Section Level.
    Variable rec : pre -> hrset -> list orule -> list cell -> presult * list cell.

    Definition do_yield (raw : string) (a : attrs) (hrs : hrset) (ordering : list orule)
               (st : mstate) (y : xyield pre) : mstate :=
      let '((direct, row, sub), fc, comment) := y in
      match st with
      | (None, _) => st
      | (Some out, cs) =>
        let '(order, odirect, ord') := p_get_order v ordering row direct (Some "patch") in
        let '(children, cs1) :=
            match sub with
            | Some (ch, true) => rec ch (hchildren cs row hrs) ord' cs
            | _ => (POk (PT []), cs)
            end in
        match children with
        | PErr => (None, cs1)
        | POk ct =>
          let sk : skey := (match order with ZFin z => ZFin (if odirect then z else Z.opp z) | ZInf => ZInf end,
                            raw, odirect) in
          let leaf := (match pitems ct with [] => negb (a_parent a) | _ => false end) || negb direct in
          let prow := patch_row add_comments row comment in
          let it := if leaf then (prow, None, sk) else (prow, Some ct, sk) in
          (Some (out ++ it :: (if fc then [("commit", None, sk)] else [])), cs1)
        end
      end.

    (* one (rule, key): g is the dictionary of the pre group, pre[raw_rule]["attrs"] *)
    Definition do_key (raw : string) (a : attrs) (w : option wlogic) (hrs : hrset) (ordering : list orule)
               (gs : aref * mstate) (k : list string * list pitem) : aref * mstate :=
      let '(g, st) := gs in
      match st with
      | (None, _) => gs
      | (Some out, cs) =>
        let its := map (fun it : pitem => let '(o, row, ch) := it in (o, row, ch, pre_nonempty ch)) (snd k) in
        let '(ys, c_out) := run_x pre w (a_logic a) (deref cs g) (fst k) its in
        let '(g', cs') := write_back g c_out cs in
        match ys with
        | None => (g', (None, cs'))
        | Some ys => (g', fold_left (do_yield raw a hrs ordering) ys (Some out, cs'))
        end
      end.

    (* the rule object the rows of a group were matched with: its writer logic and its
       attribute dictionary *)
    Definition group_rule (raw : string) (a : attrs) (hrs : hrset) : option wlogic * aref :=
      match hfind raw hrs with
      | Some h => (h_w h, h_ref h)
      | None => (None, AVal (Cell (make_reverse (a_pat a) (v_reverse v)) (a_force_commit a) [] []))
      end.

    (* match["attrs"] as built by _select_match for the first row of the group *)
    Definition group_dict (r0 : aref) (cs : list cell) : aref :=
      if fr_select_copy F then AVal (deref cs r0) else r0.

    Definition do_group (hrs : hrset) (ordering : list orule) (st : mstate) (grp : pgroup) : mstate :=
      let '(raw, a, ks) := grp in
      match st with
      | (None, _) => st
      | (Some _, cs) =>
        let wr := group_rule raw a hrs in
        snd (fold_left (do_key raw a (fst wr) hrs ordering) ks (group_dict (snd wr) cs, st))
      end.

    Definition mp_level (p : pre) (hrs : hrset) (ordering : list orule) (cs : list cell)
      : presult * list cell :=
      match fold_left (do_group hrs ordering) (pgroups p) (Some [], cs) with
      | (None, cs') => (PErr, cs')
      | (Some out, cs') => (POk (PT (sort_items out)), cs')
      end.
  End Level.

  Fixpoint mp (n : nat) : pre -> hrset -> list orule -> list cell -> presult * list cell :=
    match n with
    | O => fun _ _ _ cs => (POk (PT []), cs)
    | S n' => mp_level (mp n')
    end.

  Definition make_patch_h (p : pre) (hrs : hrset) (ordering : list orule) (cs : list cell)
    : presult * list cell :=
    mp (pre_depth p) p hrs ordering cs.
End MakePatchH.

Fixpoint dndepth (d : dnode) : nat :=
  match d with
  | DN _ _ _ k => S ((fix go (l : list dnode) : nat := match l with [] => 0 | x :: l' => Nat.max (dndepth x) (go l') end) k)
  end.
Definition ddepth (d : list dnode) : nat := S (fold_right (fun x a => Nat.max (dndepth x) a) 0 d).

(* ------------------------------------------------------------------------------------ *)
(* 4b. %diff_logic functions that write into match["attrs"] (call_diff_logic, after
   apply_diff_rb has matched every row): the mark goes into the dictionary _select_match
   returned — the rule's own dictionary when it made no copy *)

Definition add_ctx (m : string) (c : cell) : cell :=
  Cell (c_reverse c) (c_force_commit c) (c_comment c) (c_context c ++ [m]).

Section DiffMarks.
  Variable F : frames.

  Definition mark_cell (hrs : hrset) (d : dnode) (cs : list cell) : list cell :=
    match hfind (mi_raw (d_mi d)) hrs with
    | Some h =>
      match h_dm h, h_ref h with
      | Some m, ALoc l =>
        if (op_eqb (d_op d) Added || op_eqb (d_op d) Removed) && negb (fr_select_copy F)
        then set_nth l (add_ctx m (nth l cs dcell)) cs else cs
      | _, _ => cs
      end
    | None => cs
    end.

  Fixpoint dmarks (n : nat) (hrs : hrset) (cs : list cell) (d : dnode) : list cell :=
    match n with
    | O => cs
    | S n' =>
      let cs1 := mark_cell hrs d cs in
      fold_left (dmarks n' (hchildren cs1 (d_row d) hrs)) (d_kids d) cs1
    end.

  Definition diff_marks (d : list dnode) (hrs : hrset) (cs : list cell) : list cell :=
    fold_left (dmarks (ddepth d) hrs) d cs.
End DiffMarks.

(* ------------------------------------------------------------------------------------ *)
(* 5. Compiled ACLs: immutable tree + scratch cell attrs["match"]                        *)

Definition gdict := list (string * string).          (* match.groupdict() *)
Inductive asrule := ASRule (raw pat : string) (ign : bool) (cd : list bool) (prio : nat) (kl kg : list asrule).
Definition asrset := (list asrule * list asrule)%type.
Inductive arule := ARule (raw pat : string) (ign : bool) (cd : list bool) (prio : nat) (l : option nat)
                         (kl kg : list arule).
Definition arset := (list arule * list arule)%type.
Definition acells := list (option gdict).

Definition ar_raw (r : arule) := match r with ARule raw _ _ _ _ _ _ _ => raw end.
Definition ar_pat (r : arule) := match r with ARule _ p _ _ _ _ _ _ => p end.
Definition ar_ign (r : arule) := match r with ARule _ _ i _ _ _ _ _ => i end.
Definition ar_cd (r : arule) := match r with ARule _ _ _ c _ _ _ _ => c end.
Definition ar_prio (r : arule) := match r with ARule _ _ _ _ p _ _ _ => p end.
Definition ar_loc (r : arule) := match r with ARule _ _ _ _ _ l _ _ => l end.
Definition ar_kl (r : arule) := match r with ARule _ _ _ _ _ _ kl _ => kl end.
Definition ar_kg (r : arule) := match r with ARule _ _ _ _ _ _ _ kg => kg end.

Fixpoint acompile_r (s : asrule) (n : nat) {struct s} : arule * nat :=
  match s with
  | ASRule raw pat ign cd prio kl kg =>
    let go := fix go (l : list asrule) (n : nat) {struct l} : list arule * nat :=
                match l with
                | [] => ([], n)
                | x :: t => let hc := acompile_r x n in
                            let rest := go t (snd hc) in
                            (fst hc :: fst rest, snd rest)
                end in
    let L := go kl (S n) in
    let G := go kg (snd L) in
    (ARule raw pat ign cd prio (Some n) (fst L) (fst G), snd G)
  end.
Fixpoint acompile_l (l : list asrule) (n : nat) : list arule * nat :=
  match l with
  | [] => ([], n)
  | x :: t => let hc := acompile_r x n in
              let rest := acompile_l t (snd hc) in
              (fst hc :: fst rest, snd rest)
  end.
Definition acompile (s : asrset) : arset * acells :=
  let L := acompile_l (fst s) 0 in
  let G := acompile_l (snd s) (snd L) in
  ((fst L, fst G), repeat None (snd G)).

Fixpoint ardepth (r : arule) : nat :=
  match r with
  | ARule _ _ _ _ _ _ kl kg =>
    S (Nat.max ((fix go (l : list arule) := match l with [] => 0 | x :: t => Nat.max (ardepth x) (go t) end) kl)
               ((fix go (l : list arule) := match l with [] => 0 | x :: t => Nat.max (ardepth x) (go t) end) kg))
  end.
Definition arsdepth (l : list arule) : nat := fold_right (fun r a => Nat.max (ardepth r) a) 0 l.

(* merge_dicts on ACL rules: lists (cant_delete) are concatenated, scalars are the later one's.
   (Equal dictionaries are returned as they are; for `all(cant_delete)` l ++ l and l agree.) *)
Fixpoint amerge (fuel : nat) (a b : list arule) : list arule :=
  match fuel with
  | O => a
  | S f =>
    fold_left
      (fun acc r =>
         (fix ins (l : list arule) : list arule :=
            match l with
            | [] => [r]
            | x :: t =>
              if String.eqb (ar_raw x) (ar_raw r)
              then ARule (ar_raw x) (ar_pat r) (ar_ign r) (ar_cd x ++ ar_cd r) (ar_prio r)
                         (match ar_loc x, ar_loc r with
                          | Some i, Some j => if Nat.eqb i j then Some i else None
                          | _, _ => None
                          end)
                         (amerge f (ar_kl x) (ar_kl r)) (amerge f (ar_kg x) (ar_kg r)) :: t
              else x :: ins t
            end) acc)
      b a
  end.
Definition amerge_rs (a b : list arule) : list arule :=
  amerge (S (Nat.max (arsdepth a) (arsdepth b))) a b.

(* a filter-map over a list that threads a state (the scratch cells) *)
Fixpoint smapf {A B S : Type} (f : A -> S -> option B * S) (l : list A) (s : S) : list B * S :=
  match l with
  | [] => ([], s)
  | a :: t =>
    let r := f a s in
    let rest := smapf f t (snd r) in
    (match fst r with Some b => b :: fst rest | None => fst rest end, snd rest)
  end.

Fixpoint tdepth (t : tree) : nat :=
  match t with
  | T k => S ((fix go (l : forest) : nat := match l with [] => 0 | (_, c) :: l' => Nat.max (tdepth c) (go l') end) k)
  end.
Definition fdepth (f : forest) : nat := tdepth (T f).
Section Acl.
  Variable F : frames.
  Variable rev : string.                          (* registry[vendor].reverse *)
  (* named groups of a rule pattern on a row (match.groupdict()); the plain rule language
     of Model/Pattern.v has none *)
  Variable gd : string -> string -> gdict.

  (* one candidate of _find_acl_matches: metric, rule, is_cr_allowed, is_reverse *)
  Definition acand := (nat * nat * arule * bool * bool)%type.

  Definition write_match (r : arule) (m : gdict) (cs : acells) : acells :=
    if fr_acl_match_write F then
      match ar_loc r with Some l => set_nth l (Some m) cs | None => cs end
    else cs.

  Fixpoint acl_scan (is_rev : bool) (row : string) (l : list (arule * bool)) (cs : acells) : list acand * acells :=
    match l with
    | [] => ([], cs)
    | (r, is_global) :: rest =>
      let pat := if is_rev then reverse_row (ar_pat r) rev else ar_pat r in
      match pm pat row with
      | Some _ =>
        let cs1 := write_match r (gd pat row) cs in
        let res := acl_scan is_rev row rest cs1 in
        ((ar_prio r, shared_chars row (psrc pat), r, negb is_global && negb is_rev && negb (ar_ign r), is_rev)
           :: fst res, snd res)
      | None => acl_scan is_rev row rest cs
      end
    end.

  Definition acand_ge (a b : acand) : bool :=
    let '(p1, w1, _, _, _) := a in
    let '(p2, w2, _, _, _) := b in
    Nat.ltb p2 p1 || (Nat.eqb p1 p2 && Nat.leb w2 w1).

  (* match_row_to_acl (exclusive = False): Some (cant_delete, is_reverse) of the selected
     rule and the children rules; the cells after the scan *)
  Definition acl_match (row : string) (rs : arset) (cs : acells)
    : option (list bool * bool * arset) * acells :=
    let lg := map (fun r => (r, false)) (fst rs) ++ map (fun r => (r, true)) (snd rs) in
    let d := acl_scan false row lg cs in
    let r := acl_scan true row lg (snd d) in
    let ms := stable_sort acand_ge (fst d ++ fst r) in
    (match ms with
     | [] => None
     | (_, _, f, f_cr, f_rev) :: _ =>
       if ar_ign f then None
       else
         let '(lc, gc) :=
             if f_cr then
               fold_left (fun (acc : list arule * list arule) (m : acand) =>
                            let '(_, _, x, cr, _) := m in
                            if cr then (amerge_rs (fst acc) (ar_kl x), amerge_rs (snd acc) (ar_kg x)) else acc)
                         ms ([], [])
             else ([], []) in
         Some (ar_cd f, f_rev, (lc, amerge_rs gc (snd rs)))
     end, snd r).

  (* apply_acl(config, rules): one row with its subtree; fuel = depth of the tree *)
  Fixpoint apply_acl_n (n : nat) (rs : arset) (e : string * tree) (cs : acells) : option (string * tree) * acells :=
    match n with
    | O => (None, cs)
    | S n' =>
      let m := acl_match (fst e) rs cs in
      match fst m with
      | Some (cd, is_rev, crs) =>
        if is_rev && forallb (fun b => b) cd then (None, snd m)
        else let sub := smapf (apply_acl_n n' crs) (Tree.kids (snd e)) (snd m) in
             (Some (fst e, T (fst sub)), snd sub)
      | None => (None, snd m)
      end
    end.
  Definition apply_acl (f : forest) (rs : arset) (cs : acells) : forest * acells :=
    smapf (apply_acl_n (fdepth f) rs) f cs.

  (* apply_acl_diff(diff, rules) *)
  Fixpoint apply_acl_diff_n (n : nat) (rs : arset) (d : dnode) (cs : acells) : option dnode * acells :=
    match n with
    | O => (None, cs)
    | S n' =>
      let am := acl_match (d_row d) rs cs in
      match fst am with
      | Some (cd, _, crs) =>
        let o' := if op_eqb (d_op d) Removed && forallb (fun b => b) cd then Affected else d_op d in
        let sub := smapf (apply_acl_diff_n n' crs) (d_kids d) (snd am) in
        (Some (DN o' (d_row d) (d_mi d) (fst sub)), snd sub)
      | None => (None, snd am)
      end
    end.
  Definition apply_acl_diff (d : list dnode) (rs : arset) (cs : acells) : list dnode * acells :=
    smapf (apply_acl_diff_n (ddepth d) rs) d cs.
End Acl.

(* ------------------------------------------------------------------------------------ *)
(* 6. Jobs, the store, one call of _diff_and_patch, a sequence of calls                 *)

Record job := Job {
  j_vendor : vendor;
  j_rb_key : string;                 (* cache key of the patching rulebook: (text, vendor) *)
  j_rules : srset;
  j_ordering : list orule;
  j_acl : option (string * asrset);  (* cache key, ACL source *)
  j_facl : option (string * asrset); (* filter ACL (make_diff only) *)
  j_old : forest;
  j_new : forest;
  j_add_comments : bool
}.

Record store := Store {
  s_rb : list (string * list cell);
  s_acl : list (string * acells)
}.
Definition empty_store : store := Store [] [].

Fixpoint lookup {A} (k : string) (l : list (string * A)) : option A :=
  match l with
  | [] => None
  | (k', x) :: t => if String.eqb k' k then Some x else lookup k t
  end.
Fixpoint upsert {A} (k : string) (x : A) (l : list (string * A)) : list (string * A) :=
  match l with
  | [] => [(k, x)]
  | (k', y) :: t => if String.eqb k' k then (k', x) :: t else (k', y) :: upsert k x t
  end.

(* what the caller observes of one call *)
Record obs := Obs {
  ob_diff : list dnode;           (* the stripped diff *)
  ob_patch : presult;             (* the patch tree, PErr = AssertionError *)
  ob_ordered : forest;            (* Orderer.order_config(new) after the call *)
  ob_old_after : forest;          (* the caller's old / new objects after the call *)
  ob_new_after : forest;
  ob_cells_after : list cell      (* the compiled patching rulebook after the call *)
}.

Section Job.
  Variable F : frames.
  Variable gd : string -> string -> gdict.

  Definition job_compiled (j : job) : hrset * list cell := compile (v_reverse (j_vendor j)) (j_rules j).

  (* the rule dictionaries the call finds: the cached ones, or freshly compiled ones *)
  Definition job_cells (s : store) (j : job) : list cell :=
    if fr_cache_patching F then
      match lookup (j_rb_key j) (s_rb s) with Some c => c | None => snd (job_compiled j) end
    else snd (job_compiled j).

  Definition acl_cells (s : store) (a : option (string * asrset)) : acells :=
    match a with
    | None => []
    | Some (k, src) =>
      if fr_cache_acl F then
        match lookup k (s_acl s) with Some c => c | None => snd (acompile src) end
      else snd (acompile src)
    end.

  (* apply_acl on old and new: (old', new', scratch cells).  apply_acl builds new trees, so
     what make_diff receives are the caller's own objects only when there is no ACL *)
  Definition acl_stage (j : job) (ac : acells) : forest * forest * acells :=
    match j_acl j with
    | Some (_, src) =>
      let A := fst (acompile src) in
      let o := apply_acl F (v_reverse (j_vendor j)) gd (j_old j) A ac in
      let n := apply_acl F (v_reverse (j_vendor j)) gd (j_new j) A (snd o) in
      (fst o, fst n, snd n)
    | None => (j_old j, j_new j, ac)
    end.

  (* make_diff's loop over [acl_rules, filter_acl_rules]: (diff, acl cells, filter-acl cells) *)
  Definition filter_stage (j : job) (d0 : list dnode) (ac fc : acells) : list dnode * acells * acells :=
    let r1 := match j_acl j with
              | Some (_, src) => apply_acl_diff F (v_reverse (j_vendor j)) gd d0 (fst (acompile src)) ac
              | None => (d0, ac)
              end in
    let r2 := match j_facl j with
              | Some (_, src) => apply_acl_diff F (v_reverse (j_vendor j)) gd (fst r1) (fst (acompile src)) fc
              | None => (fst r1, fc)
              end in
    (fst r2, snd r1, snd r2).

  Definition callers_trees (j : job) : bool := match j_acl j with None => true | Some _ => false end.

  (* the caller's old / new after make_diff: apply_diff_rb has popped the rows no rule knows
     from the very objects it was given *)
  Definition old_after (j : job) : forest :=
    if callers_trees j && fr_diff_pops_old F && negb (fr_diff_copy_old F)
    then erase_f (annot_f pm (to_rset (fst (job_compiled j))) (j_old j)) else j_old j.
  Definition new_after (j : job) : forest :=
    if callers_trees j && fr_diff_pops_new F && negb (fr_diff_copy_new F)
    then erase_f (annot_f pm (to_rset (fst (job_compiled j))) (j_new j)) else j_new j.

  (* _diff_and_patch(device, old, new, acl_rules, filter_acl_rules, add_comments) followed by
     Orderer(rb["ordering"], vendor).order_config(new), on given dictionaries:
     (observation, rule dictionaries, acl cells, filter-acl cells) afterwards *)
  Definition run_core (j : job) (cs : list cell) (ac fc : acells) : obs * list cell * acells * acells :=
    let v := j_vendor j in
    let hrs := fst (job_compiled j) in
    let a := acl_stage j ac in
    let d0 := raw_diff pm (to_rset hrs) (fst (fst a)) (snd (fst a)) in
    let f := filter_stage j d0 (snd a) fc in
    let d := mark_unchanged (fst (fst f)) in
    let cs1 := diff_marks F d0 hrs cs in
    let mpr := make_patch_h F v (j_add_comments j) (make_pre d) hrs (j_ordering j) cs1 in
    (Obs (strip_unchanged d) (fst mpr) (p_order_config v (j_ordering j) (new_after j))
         (old_after j) (new_after j) (snd mpr),
     snd mpr, snd (fst f), snd f).

  Definition run_job (s : store) (j : job) : obs * store :=
    let r := run_core j (job_cells s j) (acl_cells s (j_acl j)) (acl_cells s (j_facl j)) in
    let o := fst (fst (fst r)) in
    let cs' := snd (fst (fst r)) in
    let ac' := snd (fst r) in
    let fc' := snd r in
    let rb' := if fr_cache_patching F then upsert (j_rb_key j) cs' (s_rb s) else s_rb s in
    let put (a : option (string * asrset)) (c : acells) (l : list (string * acells)) :=
        match a with
        | Some (k, _) => if fr_cache_acl F then upsert k c l else l
        | None => l
        end in
    (o, Store rb' (put (j_facl j) fc' (put (j_acl j) ac' (s_acl s)))).

  Fixpoint run_jobs (s : store) (js : list job) : list obs * store :=
    match js with
    | [] => ([], s)
    | j :: t =>
      let r := run_job s j in
      let rest := run_jobs (snd r) t in
      (fst r :: fst rest, snd rest)
    end.
End Job.

(* the plain rule language has no named groups *)
Definition gd_plain (pat row : string) : gdict := [].
