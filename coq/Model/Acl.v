(* INTERFACE STABLE *)
(* Model of ACL filtering.
     annet/annlib/rbparser/acl.py : compile_acl_text, _compile_acl, _merge_toplevel,
                                    _PARAMS_SCHEME (defaults and uniters), _make_reverse
     annet/annlib/patching.py     : apply_acl, match_row_to_acl (incl. the `exclusive` check),
                                    _find_acl_matches, _select_match, _rules_local_global,
                                    _normalize_row_for_acl, apply_acl_diff
     annet/annlib/lib.py          : merge_dicts on dictionaries of compiled ACL rules
   The row matcher is the shared pattern compiler of Model/Pattern.v (rule_match, regex_src,
   reverse_row), instantiated exactly as Model/Pipeline.v does for patching.
   No proofs in this file (Proofs/AclProofs.v). *)
From Coq Require Import List String Ascii Bool Arith.
From Annet Require Import Base.Str Base.Tree Model.Pattern Model.Order.
Import ListNotations.
Open Scope string_scope.
Open Scope list_scope.

(* ------------------------------------------------------------------------------ *)
(* ACL text, structured: one item per line of the text, children nested           *)

(* raw  : the text line (stripped) — the key under which the text parser files it
   row  : the rule row (the part before the first %param, blanks normalised)
   ign  : the line started with "!"
   glob : %global;  cd : %cant_delete (None = not given);  prio : %prio (0 = default);
   gens : %generator_names ([] = default) *)
Inductive aitem :=
  AItem (raw row : string) (ign glob : bool) (cd : option (list bool)) (prio : nat)
        (gens : list string) (kids : list aitem).
Definition acl := list aitem.

Definition ai_raw (i : aitem) := match i with AItem r _ _ _ _ _ _ _ => r end.
Definition ai_row (i : aitem) := match i with AItem _ r _ _ _ _ _ _ => r end.
Definition ai_ign (i : aitem) := match i with AItem _ _ b _ _ _ _ _ => b end.
Definition ai_glob (i : aitem) := match i with AItem _ _ _ b _ _ _ _ => b end.
Definition ai_cdo (i : aitem) := match i with AItem _ _ _ _ c _ _ _ => c end.
Definition ai_prio (i : aitem) := match i with AItem _ _ _ _ _ p _ _ => p end.
Definition ai_gens (i : aitem) := match i with AItem _ _ _ _ _ _ g _ => g end.
Definition ai_kids (i : aitem) := match i with AItem _ _ _ _ _ _ _ k => k end.

Fixpoint ai_depth (i : aitem) : nat :=
  match i with
  | AItem _ _ _ _ _ _ _ k =>
    S ((fix go (l : list aitem) := match l with [] => 0 | x :: t => Nat.max (ai_depth x) (go t) end) k)
  end.
Definition acl_depth (a : acl) : nat := fold_right (fun i n => Nat.max (ai_depth i) n) 0 a.

(* the text of two ACLs one after the other: A + "\n" + B *)
Definition acl_concat (a b : acl) : acl := a ++ b.

(* distinct keys in order of first occurrence (insertion order of a Python dict) *)
Fixpoint first_keys (seen l : list string) : list string :=
  match l with
  | [] => []
  | k :: t => if existsb (String.eqb k) seen then first_keys seen t
              else k :: first_keys (k :: seen) t
  end.

(* tabparser.parse_to_tree on the ACL text: lines with the same text under the same parent
   are one node, their children are filed under it in order *)
Fixpoint parse_items (fuel : nat) (items : list aitem) : list aitem :=
  match fuel with
  | O => []
  | S f =>
    flat_map (fun k =>
                match filter (fun i => String.eqb (ai_raw i) k) items with
                | [] => []
                | (i0 :: _) as grp =>
                  [AItem k (ai_row i0) (ai_ign i0) (ai_glob i0) (ai_cdo i0) (ai_prio i0) (ai_gens i0)
                         (parse_items f (flat_map ai_kids grp))]
                end)
             (first_keys [] (map ai_raw items))
  end.

(* ------------------------------------------------------------------------------ *)
(* Compiled rules                                                                   *)

(* id : rule_id = the rule row (pattern text; direct_regexp = compile(id),
        reverse_regexp = compile(reverse_row id prefix))
   cd : attrs.cant_delete; prio; gens : attrs.generator_names
   kl kg : children.local / children.global ([] [] for a %global rule: children = None) *)
Inductive arule := ARule (id : string) (cd : list bool) (prio : nat) (gens : list string) (kl kg : list arule).
Definition ar_id (r : arule) := match r with ARule i _ _ _ _ _ => i end.
Definition ar_cd (r : arule) := match r with ARule _ c _ _ _ _ => c end.
Definition ar_prio (r : arule) := match r with ARule _ _ p _ _ _ => p end.
Definition ar_gens (r : arule) := match r with ARule _ _ _ g _ _ => g end.
Definition ar_kl (r : arule) := match r with ARule _ _ _ _ k _ => k end.
Definition ar_kg (r : arule) := match r with ARule _ _ _ _ _ k => k end.

(* {"local": odict, "global": odict} *)
Definition aset := (list arule * list arule)%type.

Fixpoint ar_depth (r : arule) : nat :=
  match r with
  | ARule _ _ _ _ kl kg =>
    S (Nat.max ((fix go (l : list arule) := match l with [] => 0 | x :: t => Nat.max (ar_depth x) (go t) end) kl)
               ((fix go (l : list arule) := match l with [] => 0 | x :: t => Nat.max (ar_depth x) (go t) end) kg))
  end.
Definition al_depth (l : list arule) : nat := fold_right (fun r a => Nat.max (ar_depth r) a) 0 l.

Fixpoint blist_eqb (a b : list bool) : bool :=
  match a, b with
  | [], [] => true
  | x :: a', y :: b' => Bool.eqb x y && blist_eqb a' b'
  | _, _ => false
  end.

Fixpoint arule_eqb (a b : arule) {struct a} : bool :=
  match a, b with
  | ARule i c p g kl kg, ARule i' c' p' g' kl' kg' =>
    String.eqb i i' && blist_eqb c c' && Nat.eqb p p' && list_str_eqb g g'
    && (fix go (l m : list arule) {struct l} : bool :=
          match l, m with
          | [], [] => true
          | x :: l', y :: m' => arule_eqb x y && go l' m'
          | _, _ => false
          end) kl kl'
    && (fix go (l m : list arule) {struct l} : bool :=
          match l, m with
          | [], [] => true
          | x :: l', y :: m' => arule_eqb x y && go l' m'
          | _, _ => false
          end) kg kg'
  end.
Fixpoint alist_eqb (l m : list arule) : bool :=
  match l, m with
  | [], [] => true
  | x :: l', y :: m' => arule_eqb x y && alist_eqb l' m'
  | _, _ => false
  end.
Definition aset_eqb (a b : aset) : bool := alist_eqb (fst a) (fst b) && alist_eqb (snd a) (snd b).

(* _PARAMS_SCHEME["cant_delete"]["default"] *)
Definition cd_default (row : string) : list bool := [startswith "interface" row].
Definition ai_cd (i : aitem) : list bool :=
  match ai_cdo i with Some l => l | None => cd_default (ai_row i) end.
(* _merge_toplevel's rule_id *)
Definition ai_id (i : aitem) : string := (if ai_ign i then "!" else "") ++ ai_row i.

(* _compile_acl(trees) where `items` is the concatenation of the trees' items in order:
   _merge_toplevel unites the items with the same rule_id (global: or, cant_delete and
   generator_names: concatenation, prio: max; children trees collected), then every united
   rule is compiled; an ignore rule raises NotImplementedError (None); the children of a
   %global rule are not compiled at all *)
Fixpoint compile_items (fuel : nat) (items : list aitem) : option aset :=
  match fuel with
  | O => Some ([], [])
  | S f =>
    fold_left
      (fun (acc : option aset) (k : string) =>
         match acc with
         | None => None
         | Some (loc, glo) =>
           let grp := filter (fun i => String.eqb (ai_id i) k) items in
           if existsb ai_ign grp then None
           else
             let cd := flat_map ai_cd grp in
             let prio := fold_left (fun m i => Nat.max m (ai_prio i)) grp 0 in
             let gens := flat_map ai_gens grp in
             if existsb ai_glob grp then Some (loc, glo ++ [ARule k cd prio gens [] []])
             else match compile_items f (flat_map ai_kids grp) with
                  | None => None
                  | Some (kl, kg) => Some (loc ++ [ARule k cd prio gens kl kg], glo)
                  end
         end)
      (first_keys [] (map ai_id items)) (Some ([], []))
  end.

(* compile_acl_text(text, vendor) for the text the items stand for.  The vendor only
   contributes the reverse prefix and the juniper row normalisation, both used at matching. *)
Definition compile_acl (a : acl) : option aset :=
  compile_items (S (acl_depth a)) (parse_items (S (acl_depth a)) a).

(* merge_dicts(a, b) on odicts of compiled rules.  Keys of a in order, then the new keys of
   b; a key in both is merged recursively: equal values are kept, otherwise lists are
   concatenated (cant_delete, generator_names), scalars taken from b (prio). *)
Definition ins_rule (mrg : arule -> arule -> arule) (acc : list arule) (r : arule) : list arule :=
  (fix ins (l : list arule) : list arule :=
     match l with
     | [] => [r]
     | x :: t => if String.eqb (ar_id x) (ar_id r) then mrg x r :: t else x :: ins t
     end) acc.

Fixpoint merge_al (fuel : nat) (a b : list arule) : list arule :=
  match fuel with
  | O => a
  | S f =>
    if alist_eqb a b then a
    else fold_left
           (ins_rule (fun x r =>
              if arule_eqb x r then x
              else
                let same := blist_eqb (ar_cd x) (ar_cd r) && Nat.eqb (ar_prio x) (ar_prio r)
                            && list_str_eqb (ar_gens x) (ar_gens r) in
                ARule (ar_id x)
                      (if same then ar_cd x else ar_cd x ++ ar_cd r)
                      (ar_prio r)
                      (if same then ar_gens x else ar_gens x ++ ar_gens r)
                      (merge_al f (ar_kl x) (ar_kl r)) (merge_al f (ar_kg x) (ar_kg r))))
           b a
  end.
Definition merge_as (a b : list arule) : list arule :=
  merge_al (S (Nat.max (al_depth a) (al_depth b))) a b.

(* ------------------------------------------------------------------------------ *)
(* Matching a row                                                                  *)

Section AclMatch.
  Variable rmatch : string -> string -> option (list string).   (* pattern text -> row -> key *)
  Variable rsrc : string -> string.          (* pattern text -> source of the compiled regexp *)
  Variable rrev : string -> string.          (* pattern text -> its reverse form (acl._make_reverse) *)
  Variable norm : string -> string.          (* _normalize_row_for_acl *)

  (* one element of _find_acl_matches' list: the rule, is_cr_allowed, is_reverse, and the
     metric (prio, |set(row) & set(pattern)|) — len(row) is the same for all of them *)
  Record amatch := AM { am_rule : arule; am_cr : bool; am_rev : bool; am_prio : nat; am_w : nat }.

  Definition find_one (row : string) (rev is_global : bool) (r : arule) : list amatch :=
    let pat := if rev then rrev (ar_id r) else ar_id r in
    match rmatch pat (norm row) with
    | Some _ => [AM r (negb is_global && negb rev) rev (ar_prio r) (shared_chars row (rsrc pat))]
    | None => []
    end.

  (* a goes before b in res.sort(key=metric, reverse=True): the sort is stable *)
  Definition metric_geb (a b : amatch) : bool :=
    Nat.ltb (am_prio b) (am_prio a) || (Nat.eqb (am_prio a) (am_prio b) && Nat.leb (am_w b) (am_w a)).

  Definition acl_candidates (row : string) (rs : aset) : list amatch :=
    flat_map (find_one row false false) (fst rs) ++ flat_map (find_one row false true) (snd rs) ++
    flat_map (find_one row true false) (fst rs) ++ flat_map (find_one row true true) (snd rs).

  Definition find_acl_matches (row : string) (rs : aset) : list amatch :=
    stable_sort metric_geb (acl_candidates row rs).

  (* gen_cant_delete of match_row_to_acl: generator name -> conjunction of its flags,
     in order of first appearance *)
  Definition excl_step (acc : list (string * bool)) (nf : string * bool) : list (string * bool) :=
    if existsb (fun p => String.eqb (fst p) (fst nf)) acc
    then map (fun p => if String.eqb (fst p) (fst nf) then (fst p, snd p && snd nf) else p) acc
    else acc ++ [nf].
  Definition excl_names (ms : list amatch) : list string :=
    map fst (filter (fun p => negb (snd p))
                    (fold_left excl_step
                               (flat_map (fun m => combine (ar_gens (am_rule m)) (ar_cd (am_rule m))) ms) [])).

  (* _select_match: the first match governs; children rules of every cr-allowed match are
     merged if the first one is cr-allowed; the globals in force are inherited *)
  Definition select_children (ms : list amatch) (rs : aset) : aset :=
    let '(lc, gc) :=
      match ms with
      | f :: _ =>
        if am_cr f then
          fold_left (fun (acc : list arule * list arule) (m : amatch) =>
                       if am_cr m then (merge_as (fst acc) (ar_kl (am_rule m)),
                                        merge_as (snd acc) (ar_kg (am_rule m)))
                       else acc) ms ([], [])
        else ([], [])
      | [] => ([], [])
      end in
    (lc, merge_as gc (snd rs)).

  Inductive mres :=
  | MNone                                   (* (None, None) *)
  | MErr (gens : list string)               (* AclNotExclusiveError("generators: ...") *)
  | MSome (m : amatch) (crs : aset).

  Definition match_row_to_acl (row : string) (rs : aset) (exclusive : bool) : mres :=
    match find_acl_matches row rs with
    | [] => MNone
    | (f :: _) as ms =>
      let bad := if exclusive then excl_names ms else [] in
      if Nat.ltb 1 (List.length bad) then MErr bad
      else MSome f (select_children ms rs)
    end.

  (* the row is matched but not passed: reverse form of a rule all of whose cant_delete
     flags are set (all([]) is True) *)
  Definition drops (m : amatch) : bool := am_rev m && forallb (fun b => b) (ar_cd (am_rule m)).

  Inductive aerr :=
  | EUncovered (path : list string)                        (* AclError(" / ".join(path)) *)
  | ENotExclusive (path : list string) (gens : list string).   (* AclNotExclusiveError *)

  (* apply_acl(config, rules, fatal_acl, exclusive, _path=path) *)
  Fixpoint apply_acl_t (rs : aset) (fatal excl : bool) (path : list string) (t : tree) {struct t}
    : forest + aerr :=
    match t with
    | T kids =>
      (fix go (l : forest) : forest + aerr :=
         match l with
         | [] => inl []
         | (row, c) :: l' =>
           match match_row_to_acl row rs excl with
           | MErr g => inr (ENotExclusive (path ++ [row]) g)
           | MNone => if fatal then inr (EUncovered (path ++ [row])) else go l'
           | MSome m crs =>
             if drops m then go l'
             else match apply_acl_t crs fatal excl (path ++ [row]) c with
                  | inr e => inr e
                  | inl c' => match go l' with
                              | inr e => inr e
                              | inl r => inl ((row, T c') :: r)
                              end
                  end
           end
         end) kids
    end.
  Definition apply_acl (rs : aset) (fatal excl : bool) (path : list string) (f : forest) : forest + aerr :=
    apply_acl_t rs fatal excl path (T f).

  (* would a row with this path (from the top) be passed by apply_acl (lenient mode)? *)
  Fixpoint acl_covers_path (rs : aset) (path : list string) : bool :=
    match path with
    | [] => true
    | row :: p =>
      match match_row_to_acl row rs false with
      | MSome m crs => negb (drops m) && acl_covers_path crs p
      | _ => false
      end
    end.

  (* the rule set in force below `path` (None if the path is not covered) *)
  Fixpoint acl_rules_at (rs : aset) (path : list string) : option aset :=
    match path with
    | [] => Some rs
    | row :: p =>
      match match_row_to_acl row rs false with
      | MSome m crs => if drops m then None else acl_rules_at crs p
      | _ => None
      end
    end.
End AclMatch.

(* ------------------------------------------------------------------------------ *)
(* Instantiation with the shared pattern compiler                                  *)

(* reverse = registry[vendor].reverse; juniper = (vendor == "juniper") *)
Record avendor := AVendor { av_reverse : string; av_juniper : bool }.

(* the same three functions Model/Pipeline.v calls pm, psrc, prev *)
Definition acl_pm (pat row : string) : option (list string) := rule_match pat false row.
Definition acl_psrc (pat : string) : string :=
  match rule_pat pat with Some p => regex_src p | None => "" end.
Definition acl_prev (v : avendor) (pat : string) : string := reverse_row pat (av_reverse v).

Definition jun_inactive_pfx : string := "inactive: ".
(* lib.jun_activate for vendor juniper, identity otherwise *)
Definition acl_norm (v : avendor) (row : string) : string :=
  if av_juniper v && startswith jun_inactive_pfx row
  then substring (String.length jun_inactive_pfx) (String.length row - String.length jun_inactive_pfx) row
  else row.

Definition p_match_row_to_acl (v : avendor) := match_row_to_acl acl_pm acl_psrc (acl_prev v) (acl_norm v).
Definition p_apply_acl (v : avendor) (rs : aset) (fatal excl : bool) (f : forest) : forest + aerr :=
  apply_acl acl_pm acl_psrc (acl_prev v) (acl_norm v) rs fatal excl [] f.
Definition p_acl_covers_path (v : avendor) := acl_covers_path acl_pm acl_psrc (acl_prev v) (acl_norm v).
Definition p_acl_rules_at (v : avendor) := acl_rules_at acl_pm acl_psrc (acl_prev v) (acl_norm v).

(* apply_acl(tree, compile_acl_text(text, vendor), fatal_acl, exclusive) *)
Inductive acl_outcome :=
| OTree (f : forest)
| OUncovered (path : list string)
| ONotExclusive (path : list string) (gens : list string)
| OCompileError.                               (* NotImplementedError: ignore rule in an ACL *)

Definition run_acl (v : avendor) (a : acl) (fatal excl : bool) (f : forest) : acl_outcome :=
  match compile_acl a with
  | None => OCompileError
  | Some rs =>
    match p_apply_acl v rs fatal excl f with
    | inl r => OTree r
    | inr (EUncovered p) => OUncovered p
    | inr (ENotExclusive p g) => ONotExclusive p g
    end
  end.

(* every rule row of the ACL is in the modelled pattern language, directly and reversed *)
Fixpoint acl_rows_ok (v : avendor) (fuel : nat) (a : acl) : bool :=
  match fuel with
  | O => true
  | S f =>
    forallb (fun i => match rule_pat (ai_row i), rule_pat (acl_prev v (ai_row i)) with
                      | Some _, Some _ => acl_rows_ok v f (ai_kids i)
                      | _, _ => false
                      end) a
  end.
Definition acl_in_language (v : avendor) (a : acl) : bool := acl_rows_ok v (S (acl_depth a)) a.

(* same names, ignoring order and repetitions *)
Definition names_eqb (a b : list string) : bool :=
  forallb (fun x => existsb (String.eqb x) b) a && forallb (fun x => existsb (String.eqb x) a) b.

Definition outcome_eqb (a b : acl_outcome) : bool :=
  match a, b with
  | OTree f, OTree g => forest_eqb f g
  | OUncovered p, OUncovered q => list_str_eqb p q
  | ONotExclusive p g, ONotExclusive q h => list_str_eqb p q && names_eqb g h
  | OCompileError, OCompileError => true
  | _, _ => false
  end.
