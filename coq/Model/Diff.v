(* Model of annlib/patching.py: make_diff, apply_diff_rb (through Rulebook.annot),
   mark_unchanged, strip_unchanged and annlib/rulebook/common.py: call_diff_logic,
   base_diff, default_diff, ordered_diff, rewrite_diff.  No proofs.
   Not modelled: %ignore_case re-keying (_ignore_case), multiline_diff, vendor
   %diff_logic functions. *)
From Coq Require Import List String Bool Arith.
From Annet Require Import Base.Str Base.Tree Model.Rulebook.
Import ListNotations.
Open Scope string_scope.
Open Scope list_scope.

(* DiffItem(op, row, children, diff_pre) *)
Inductive dnode := DN (o : op) (row : string) (m : minfo) (kids : list dnode).
Definition diff := list dnode.
Definition d_op (d : dnode) := match d with DN o _ _ _ => o end.
Definition d_row (d : dnode) := match d with DN _ r _ _ => r end.
Definition d_mi (d : dnode) := match d with DN _ _ m _ => m end.
Definition d_kids (d : dnode) := match d with DN _ _ _ k => k end.

Definition mi_dlogic (m : minfo) : dlogic := a_dlogic (mi_attrs m).

(* first-seen order of the diff logics of a level: old rows first, then new rows *)
Fixpoint uniq_dl (l : list dlogic) (seen : list dlogic) : list dlogic :=
  match l with
  | [] => []
  | x :: r => if existsb (dlogic_eqb x) seen then uniq_dl r seen else x :: uniq_dl r (x :: seen)
  end.

Fixpoint afind (row : string) (f : aforest) (i : nat) : option (nat * atree) :=
  match f with
  | [] => None
  | (r, _, sub) :: f' => if String.eqb r row then Some (i, sub) else afind row f' (S i)
  end.

(* everything below a removed row is removed (call_diff_logic(subtree, old[row], {}, …)),
   grouped by diff logic in first-seen order *)
Fixpoint removed_t (t : atree) : list dnode :=
  match t with
  | AT kids =>
    let all := (fix go (l : aforest) : list (dlogic * dnode) :=
                  match l with
                  | [] => []
                  | (row, mi, sub) :: l' => (mi_dlogic mi, DN Removed row mi (removed_t sub)) :: go l'
                  end) kids in
    flat_map (fun L => map snd (filter (fun x => dlogic_eqb (fst x) L) all))
             (uniq_dl (map fst all) [])
  end.

(* a row of `new` with the (already recursive) function computing its children's diff
   from: the old children, the op handed down (pops[-1]), "inside a rewrite" *)
Definition ckid := (string * minfo * (aforest -> op -> bool -> list dnode))%type.

Fixpoint interleave (news : list dnode) (rem : list (nat * dnode)) (i : nat) : list dnode :=
  match news with
  | [] => map snd rem
  | d :: ns =>
    match rem with
    | (j, r) :: rem' => if Nat.eqb j i then d :: r :: interleave ns rem' (S i)
                        else d :: interleave ns rem (S i)
    | [] => d :: interleave ns [] (S i)
    end
  end.

Section BaseDiff.
  Variable old_g : aforest.
  Variable pop : op.            (* parent_op = pops[-1] *)
  Variable inrw : bool.         (* "rewrite" marker present in pops *)
  Variable mta : bool.          (* moved_to_affected *)

  Fixpoint scan_new (l : list ckid) (i : nat) (dis : bool) : list dnode :=
    match l with
    | [] => []
    | (row, mi, f) :: l' =>
      match afind row old_g 0 with
      | None => DN Added row mi (f [] Added inrw) :: scan_new l' (S i) true
      | Some (j, oldsub) =>
        if dis || negb (Nat.eqb i j)
        then let o := if mta then pop else Moved in
             DN o row mi (f (akids oldsub) o inrw) :: scan_new l' (S i) true
        else DN pop row mi (f (akids oldsub) pop inrw) :: scan_new l' (S i) false
      end
    end.

  Fixpoint removed_rows (l : aforest) (newrows : list string) (i : nat) : list (nat * dnode) :=
    match l with
    | [] => []
    | (row, mi, sub) :: l' =>
      if existsb (String.eqb row) newrows then removed_rows l' newrows (S i)
      else (i, DN Removed row mi (removed_t sub)) :: removed_rows l' newrows (S i)
    end.

  Definition base_diff (new_g : list ckid) : list dnode :=
    interleave (scan_new new_g 0 false)
               (removed_rows old_g (map (fun k => fst (fst k)) new_g) 0) 0.
End BaseDiff.

Fixpoint all_affected_n (d : dnode) : bool :=
  match d with DN o _ _ k => op_eqb o Affected && forallb all_affected_n k end.
Definition all_affected (d : list dnode) : bool := forallb all_affected_n d.

Fixpoint aff_to_moved_n (d : dnode) : dnode :=
  match d with DN o row m k => DN (if op_eqb o Affected then Moved else o) row m (map aff_to_moved_n k) end.
Definition aff_to_moved (d : list dnode) : list dnode := map aff_to_moved_n d.

Definition run_dlogic (L : dlogic) (old_g : aforest) (new_g : list ckid) (pop : op) (inrw : bool) : list dnode :=
  match L with
  | DDefault => base_diff old_g pop inrw true new_g
  | DOrdered => base_diff old_g pop inrw false new_g
  | DRewrite =>
    let d := base_diff old_g pop true false new_g in
    if inrw then d else if all_affected d then [] else aff_to_moved d
  end.

(* call_diff_logic for one level *)
Definition diff_level (old : aforest) (new : list ckid) (pop : op) (inrw : bool) : list dnode :=
  let dl_old := map (fun k => mi_dlogic (snd (fst k))) old in
  let dl_new := map (fun k : ckid => mi_dlogic (snd (fst k))) new in
  flat_map (fun L =>
              run_dlogic L (filter (fun k => dlogic_eqb (mi_dlogic (snd (fst k))) L) old)
                           (filter (fun k : ckid => dlogic_eqb (mi_dlogic (snd (fst k))) L) new) pop inrw)
           (uniq_dl (dl_old ++ dl_new) []).

Fixpoint diff_t (nt : atree) : aforest -> op -> bool -> list dnode :=
  match nt with
  | AT nkids =>
    let ck := (fix go (l : aforest) : list ckid :=
                 match l with
                 | [] => []
                 | (row, mi, sub) :: l' => (row, mi, diff_t sub) :: go l'
                 end) nkids in
    fun old pop inrw => diff_level old ck pop inrw
  end.

Fixpoint mark_unchanged_n (d : dnode) : dnode :=
  match d with
  | DN o row m k =>
    if op_eqb o Affected
    then let k' := map mark_unchanged_n k in
         DN (if forallb (fun x => op_eqb (d_op x) Unchanged) k' then Unchanged else Affected) row m k'
    else DN o row m k
  end.
Definition mark_unchanged (d : list dnode) : list dnode := map mark_unchanged_n d.

Fixpoint strip_unchanged_n (d : dnode) : list dnode :=
  match d with
  | DN o row m k => if op_eqb o Unchanged then [] else [DN o row m (flat_map strip_unchanged_n k)]
  end.
Definition strip_unchanged (d : list dnode) : list dnode := flat_map strip_unchanged_n d.

Section MakeDiff.
  Variable rmatch : string -> string -> option (list string).
  (* call_diff_logic(apply_diff_rb(old,new,rb), old, new) before ACL filtering and marking *)
  Definition raw_diff (rs : rset) (old new : forest) : list dnode :=
    diff_t (annot rmatch rs (T new)) (annot_f rmatch rs old) Affected false.
  (* make_diff(old, new, rb, []) *)
  Definition make_diff (rs : rset) (old new : forest) : list dnode :=
    mark_unchanged (raw_diff rs old new).
End MakeDiff.

(* boolean equality, for the correspondence *)
Definition attrs_eqb (a b : attrs) : bool :=
  String.eqb (a_pat a) (a_pat b) && logic_eqb (a_logic a) (a_logic b) && dlogic_eqb (a_dlogic a) (a_dlogic b) &&
  Bool.eqb (a_parent a) (a_parent b) && Bool.eqb (a_force_commit a) (a_force_commit b).
Definition mi_eqb (a b : minfo) : bool :=
  String.eqb (mi_raw a) (mi_raw b) && list_str_eqb (mi_key a) (mi_key b).
Fixpoint dnode_eqb (a b : dnode) {struct a} : bool :=
  match a, b with
  | DN o r m k, DN o' r' m' k' =>
    op_eqb o o' && String.eqb r r' && mi_eqb m m' &&
    (fix go (l l' : list dnode) {struct l} : bool :=
       match l, l' with
       | [], [] => true
       | x :: t, y :: t' => dnode_eqb x y && go t t'
       | _, _ => false
       end) k k'
  end.
Fixpoint diff_eqb (a b : list dnode) : bool :=
  match a, b with
  | [], [] => true
  | x :: t, y :: t' => dnode_eqb x y && diff_eqb t t'
  | _, _ => false
  end.
