(* Second extension of the rule language (Model/Pattern.v and Model/PatternX.v stay as they
   are).  Besides the words of PatternX a rule row may contain
       YGlue re suf    `*/re/suf`   one word: a word of L(re) glued to the literal suf;
                                    binds the L(re) part          (`*/(ip|ipv6)/-prefix`)
   and may END in one special word:
       ETilde          `~`          (PatternX's trailing tilde, for rows with new words)
       EDots w         `w...`       the next word starts with w; no word boundary, nothing bound
       ELitTilde w     `w~`         the next word starts with w; binds the rest of the row text
                                    after w (at least one character)       (`name:~`)
       ERest a plus    `*/a.*/`, `*/a.+/`   the rest of the row text has a prefix in L(a)
                                    (followed by one more character for `.+`); binds the whole
                                    rest of the row: `.` crosses blanks     (`*/Tunnel.*/`)
       EEndLit w       `w$`         the next word is w and it is the last word of the row
       EEndRe r        `*/r$/`      the next word is in L(r), is the last word, and is bound
   Model of annet.annlib.rbparser.syntax.compile_row_regexp on such rows.  A row that PatternX
   covers is handled by PatternX (yproj / conservativity); the new forms are accepted only
   without `~/re/` words and without the un-neutralised-group peculiarity, so that the word
   level meaning is exact.  Rows outside the language: parse_ypat = None (fail closed).
   Domain of the rows matched: wf_row (printable words, single blanks; no newline).
   No proofs in this file (Proofs/PatternYProofs.v). *)
From Coq Require Import List String Ascii Bool Arith NArith.
From Annet Require Import Base.Str Model.Pattern Model.PatternX.
Import ListNotations.
Open Scope string_scope.
Open Scope list_scope.

Inductive ytok :=
| YX (t : xtok)
| YGlue (r : sre) (suf : string).

Inductive yend :=
| EPlain
| ETilde
| EDots (w : string)
| ELitTilde (w : string)
| ERest (a : sre) (plus : bool)
| EEndLit (w : string)
| EEndRe (r : sre).

Record ypat := YPat { y_toks : list ytok; y_end : yend }.

Definition yembed (p : xpat) : ypat := YPat (map YX p) EPlain.

(* the PatternX pattern this is, if it uses no new form *)
Fixpoint yproj_toks (ts : list ytok) : option xpat :=
  match ts with
  | [] => Some []
  | YX t :: r => option_map (cons t) (yproj_toks r)
  | YGlue _ _ :: _ => None
  end.
Definition yproj (p : ypat) : option xpat :=
  match y_end p with EPlain => yproj_toks (y_toks p) | _ => None end.

(* ------------------------------------------------------------------------------ *)
(* well-formedness                                                                 *)

Definition is_nil {A} (l : list A) : bool := match l with [] => true | _ => false end.

(* a regex that may cross blanks: in the parser's subset, printable, not empty *)
Definition sre_ok_b (r : sre) : bool :=
  let t := print_sre_l r in
  negb (is_nil t) && forallb is_graph t
  && match parse_sre_l t with Some r' => sre_eqb r' r | None => false end.

Definition wf_ytok (t : ytok) : bool :=
  match t with
  | YX t' => wf_xtok t' && negb (is_xtildere t') && negb (is_xtilde t')
  | YGlue r suf => sre_ok r && plain_word suf && no_slash (l_of suf)
  end.

Definition wf_yend (e : yend) : bool :=
  match e with
  | EPlain | ETilde => true
  | EDots w | ELitTilde w | EEndLit w => plain_word w
  | ERest a _ => sre_ok_b a && alt_closed a
  | EEndRe r => sre_ok r && alt_closed r
  end.

(* "*" in row *)
Definition ytok_star (t : ytok) : bool := match t with YX t' => is_xstar t' | YGlue _ _ => true end.
Definition yend_star (e : yend) : bool := match e with ERest _ _ | EEndRe _ => true | _ => false end.
Definition ystar (p : ypat) : bool := existsb ytok_star (y_toks p) || yend_star (y_end p).

Definition ytok_nocap (t : ytok) : bool := match t with YX t' => xtok_nocap t' | YGlue _ _ => true end.

Definition wf_ynew (p : ypat) : bool :=
  negb (is_nil (y_toks p) && match y_end p with EPlain => true | _ => false end)
  && forallb wf_ytok (y_toks p) && wf_yend (y_end p)
  && (ystar p || forallb ytok_nocap (y_toks p)).

Definition wf_ypat (p : ypat) : bool :=
  match yproj p with Some xp => wf_xpat xp | None => wf_ynew p end.

(* ------------------------------------------------------------------------------ *)
(* printer                                                                         *)

Definition print_ytok (t : ytok) : string :=
  match t with
  | YX t' => print_xtok t'
  | YGlue r suf => ("*/" ++ print_sre r ++ "/" ++ suf)%string
  end.

Definition print_yend (e : yend) : list string :=
  match e with
  | EPlain => []
  | ETilde => ["~"]
  | EDots w => [(w ++ "...")%string]
  | ELitTilde w => [(w ++ "~")%string]
  | ERest a plus => [("*/" ++ print_sre a ++ (if plus then ".+/" else ".*/"))%string]
  | EEndLit w => [(w ++ "$")%string]
  | EEndRe r => [("*/" ++ print_sre r ++ "$/")%string]
  end.

Definition ypat_words (p : ypat) : list string := map print_ytok (y_toks p) ++ print_yend (y_end p).
Definition print_ypat (p : ypat) : string := join_with " " (ypat_words p).

(* ------------------------------------------------------------------------------ *)
(* parser                                                                          *)

(* s = a ++ [c] ++ b with no c in b *)
Fixpoint split_last (c : ascii) (s : list ascii) : option (list ascii * list ascii) :=
  match s with
  | [] => None
  | x :: r =>
    match split_last c r with
    | Some (a, b) => Some (x :: a, b)
    | None => if Ascii.eqb x c then Some ([], r) else None
    end
  end.

(* s = a ++ suf *)
Definition strip_suffix (suf s : list ascii) : option (list ascii) :=
  if lprefix (rev suf) (rev s) then Some (firstn (List.length s - List.length suf) s) else None.

Definition parse_ytok (w : string) : option ytok :=
  match parse_xtok w with
  | Some t => Some (YX t)
  | None =>
    match l_of w with
    | a :: b :: body =>
      if Ascii.eqb a "*" && Ascii.eqb b "/" then
        match split_last "/" body with
        | Some (src, suf) =>
          match parse_sre_l src with Some r => Some (YGlue r (s_of suf)) | None => None end
        | None => None
        end
      else None
    | _ => None
    end
  end.

Fixpoint parse_ytoks (ws : list string) : option (list ytok) :=
  match ws with
  | [] => Some []
  | w :: r =>
    match parse_ytok w, parse_ytoks r with
    | Some t, Some p => Some (t :: p)
    | _, _ => None
    end
  end.

Definition parse_star_body (w : list ascii) (suf : string) : option sre :=
  match w with
  | a :: b :: body =>
    if Ascii.eqb a "*" && Ascii.eqb b "/" then
      match strip_suffix (l_of suf) body with Some src => parse_sre_l src | None => None end
    else None
  | _ => None
  end.

(* the special last word of a row, if it is one *)
Definition parse_yend (w : string) : option yend :=
  let l := l_of w in
  if String.eqb w "~" then Some ETilde
  else match strip_suffix (l_of "...") l with
  | Some x => Some (EDots (s_of x))
  | None =>
  match parse_star_body l ".*/" with
  | Some a => Some (ERest a false)
  | None =>
  match parse_star_body l ".+/" with
  | Some a => Some (ERest a true)
  | None =>
  match parse_star_body l "$/" with
  | Some r => Some (EEndRe r)
  | None =>
  match strip_suffix (l_of "~") l with
  | Some x => Some (ELitTilde (s_of x))
  | None =>
  match strip_suffix (l_of "$") l with
  | Some x => Some (EEndLit (s_of x))
  | None => None
  end end end end end end.

Fixpoint unsnoc_w (ws : list string) : option (list string * string) :=
  match ws with
  | [] => None
  | [w] => Some ([], w)
  | w :: r => match unsnoc_w r with Some (i, l) => Some (w :: i, l) | None => None end
  end.

Definition parse_ynew (ws : list string) : option ypat :=
  match unsnoc_w ws with
  | Some (init, lastw) =>
    match parse_yend lastw with
    | Some e => option_map (fun ts => YPat ts e) (parse_ytoks init)
    | None => option_map (fun ts => YPat ts EPlain) (parse_ytoks ws)
    end
  | None => None
  end.

(* the result is always well formed and prints back to the very same text; a row of the
   PatternX language is read as PatternX reads it *)
Definition parse_ypat (s : string) : option ypat :=
  match parse_xpat s with
  | Some xp => Some (yembed xp)
  | None =>
    if wf_row s then
      match parse_ynew (words s) with
      | Some p =>
        if match yproj p with Some _ => false | None => true end
           && wf_ynew p && String.eqb (print_ypat p) s then Some p else None
      | None => None
      end
    else None
  end.

(* ------------------------------------------------------------------------------ *)
(* Word-level semantics of the new forms                                           *)

(* some proper prefix of w is in L(r): r, then at least one more character *)
Fixpoint sre_run_pre1 (ic : bool) (r : sre) (w : list ascii) : bool :=
  match w with
  | [] => false
  | c :: w' => nullable r || sre_run_pre1 ic (deriv ic c r) w'
  end.

(* x = u ++ v, u in L(r), v = suf (up to case when ic): Some [u] *)
Definition glue_match (ic : bool) (r : sre) (suf : string) (x : string) : option (list string) :=
  let lx := l_of x in
  let n := List.length lx - List.length (l_of suf) in
  if Nat.leb (List.length (l_of suf)) (List.length lx)
     && sre_run ic r (firstn n lx) && word_eq ic suf (s_of (skipn n lx))
  then Some [s_of (firstn n lx)] else None.

Definition ytok_match (ic : bool) (t : ytok) (x : string) : option (list string) :=
  match t with
  | YX t' => if xtok_ok ic false t' x then Some (xtok_bind false t' x) else None
  | YGlue r suf => glue_match ic r suf x
  end.

Definition yend_match (ic : bool) (e : yend) (ws : list string) : option (list string) :=
  match e with
  | EPlain => Some []
  | ETilde => match ws with [] => None | _ => Some [join_with " " ws] end
  | EDots w => match ws with x :: _ => if word_prefix ic w x then Some [] else None | [] => None end
  | ELitTilde w =>
    match ws with
    | [] => None
    | _ =>
      let t := l_of (join_with " " ws) in
      let n := List.length (l_of w) in
      if word_eq ic w (s_of (firstn n t)) && Nat.ltb n (List.length t)
      then Some [s_of (skipn n t)] else None
    end
  | ERest a plus =>
    match ws with
    | [] => None
    | _ =>
      let t := join_with " " ws in
      if (if plus then sre_run_pre1 ic a (l_of t) else sre_run_pre ic a (l_of t))
      then Some [t] else None
    end
  | EEndLit w => match ws with [x] => if word_eq ic w x then Some [] else None | _ => None end
  | EEndRe r => match ws with [x] => if sre_imatch ic r x then Some [x] else None | _ => None end
  end.

Fixpoint ymatch_toks (ic : bool) (e : yend) (p : list ytok) (ws : list string) : option (list string) :=
  match p with
  | [] => yend_match ic e ws
  | t :: p' =>
    match ws with
    | x :: ws' =>
      match ytok_match ic t x with
      | Some b => option_map (app b) (ymatch_toks ic e p' ws')
      | None => None
      end
    | [] => None
    end
  end.

(* compile_row_regexp(print_ypat p, IGNORECASE if ic).match(row) -> Some groups() / None *)
Definition ypmatch (p : ypat) (ic : bool) (row : string) : option (list string) :=
  match yproj p with
  | Some xp => xpmatch xp ic row
  | None => ymatch_toks ic (y_end p) (y_toks p) (words row)
  end.

Definition yrule_pat (rule_row : string) : option ypat := parse_ypat (rule_strip_ic rule_row).

Definition yrule_match (rule_row : string) (ignore_case : bool) (row : string) : option (list string) :=
  match yrule_pat rule_row with
  | Some p => ypmatch p (rule_ic rule_row ignore_case) row
  | None => None
  end.

(* number of key entries *)
Definition ytok_hole (t : ytok) : bool := match t with YX t' => is_xhole t' | YGlue _ _ => true end.
Definition yend_holes (e : yend) : nat :=
  match e with ETilde | ELitTilde _ | ERest _ _ | EEndRe _ => 1 | _ => 0 end.
Definition ynholes (p : ypat) : nat := List.length (filter ytok_hole (y_toks p)) + yend_holes (y_end p).

(* ------------------------------------------------------------------------------ *)
(* Reverse form, token level (the text-level reverse_row / make_reverse of Pattern.v apply
   unchanged)                                                                      *)

Definition reverse_ypat (p : ypat) (prefix : string) : ypat :=
  match y_toks p with
  | YX (XLit w) :: ts =>
    if String.eqb w prefix && negb (is_nil ts && is_nil (print_yend (y_end p)))
    then YPat ts (y_end p) else YPat (YX (XLit prefix) :: y_toks p) (y_end p)
  | _ => YPat (YX (XLit prefix) :: y_toks p) (y_end p)
  end.

(* ------------------------------------------------------------------------------ *)
(* sample words per rule word, for the generator of the correspondence run         *)

Definition ytok_samples (t : ytok) : list string :=
  match t with
  | YX t' => xtok_samples t'
  | YGlue r suf => map (fun u => (u ++ suf)%string) (sre_samples r)
  end.

Definition yend_samples (e : yend) : list (list string) :=
  match e with
  | EPlain => []
  | ETilde => [[]]
  | EDots w => [[w; (w ++ "x")%string; (w ++ "=on")%string]]
  | ELitTilde w => [[(w ++ "foo")%string; (w ++ "1")%string; w]]
  | ERest a _ => [map (fun u => (u ++ "9")%string) (sre_samples a) ++ sre_samples a]
  | EEndLit w => [[w]]
  | EEndRe r => [sre_samples r]
  end.

Definition yrule_samples (rule_row : string) : option (list (list string)) :=
  option_map (fun p => map ytok_samples (y_toks p) ++ yend_samples (y_end p)) (yrule_pat rule_row).
