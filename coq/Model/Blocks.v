(* Model of annlib/tabparser.py formatters on patches: blocks_and_context for the
   block-exit families, _indent_blocks, patch(), cmd_paths (path stack) and the
   Juniper/Nokia path flattening.  No proofs.
   Not modelled: RouterOS flattening, Juniper comments/annotate and "[ a b ]" list
   expansion (rows ending in "]" are outside the modelled domain). *)
From Coq Require Import List String Ascii Bool Arith.
From Annet Require Import Base.Str Base.Tree Model.Order Model.Patch.
Import ListNotations.
Open Scope string_scope.
Open Scope list_scope.

Inductive elem := Row (s : string) | BBegin | BEnd.

Inductive family :=
| FCommon                                   (* CommonFormatter, OptixtransFormatter *)
| FBlockExit (exit : string)                (* Nexus, B4com, Aruba, Arista *)
| FHuawei
| FCisco
| FAsr
| FJuniper (set_prefix : string) (nokia : bool)   (* Juniper, Ribbon / Nokia *)
| FRos.

Definition wrap (s : string) : list elem := [BBegin; Row s; BEnd].

Definition any_prefix (ps : list string) (s : string) : bool := existsb (fun p => startswith p s) ps.

Definition huawei_no_exit := ["rsa peer-public-key"; "dsa peer-public-key"; "public-key-code begin"].

(* block_exit(context): parent row, row of the block just closed, next sibling row *)
Definition exit_stmt (f : family) (parent row : string) (next : option string) : list elem :=
  let dflt (ex : string) (noex : list string) :=
      if negb (is_empty row) && negb (any_prefix noex row) then wrap ex else [] in
  match f with
  | FCommon | FJuniper _ _ | FRos => []
  | FBlockExit ex => dflt ex []
  | FHuawei =>
    if startswith "xpl route-filter" row then wrap "end-filter"
    else if startswith "xpl" row then wrap "end-list"
    else if startswith "xpl route-filter" parent then
      if (startswith "if" row || startswith "elseif" row) && endswith "then" row &&
         (match next with None => true | Some _ => false end)
      then [Row "endif"]
      else if String.eqb row "else" then [Row "endif"] else []
    else dflt "quit" huawei_no_exit
  | FCisco =>
    if startswith "address-family" row then wrap "exit-address-family" else dflt "exit" []
  | FAsr =>
    if any_prefix ["prefix-set"; "as-path-set"; "community-set"] row then wrap "end-set"
    else if startswith "if" row && endswith "then" row then wrap "endif"
    else if startswith "route-policy" row then wrap "end-policy"
    else dflt "exit" []
  end.

(* blocks_and_context(patch, is_patch=True) as a flat stream *)
Fixpoint blocks (f : family) (parent : string) (t : ptree) {struct t} : list elem :=
  match t with
  | PT items =>
    (fix go (l : list (string * option ptree * skey)) : list elem :=
       match l with
       | [] => []
       | (row, child, _) :: l' =>
         Row row ::
         match child with
         | Some ct =>
           BBegin :: blocks f row ct ++ BEnd ::
           exit_stmt f parent row (match l' with (n, _, _) :: _ => if is_empty n then None else Some n | [] => None end)
         | None => []
         end ++ go l'
       end) items
  end.

(* _indent_blocks + _filtered_block_marks: (level, row) *)
Fixpoint indent_lines (s : list elem) (level : nat) : list (nat * string) :=
  match s with
  | [] => []
  | BBegin :: r => indent_lines r (S level)
  | BEnd :: r => indent_lines r (pred level)
  | Row x :: r => (level, x) :: indent_lines r level
  end.

(* CommonFormatter.cmd_paths: path stack; returns the odict keys in insertion order
   (a repeated path keeps its first position) *)
Fixpoint path_stack (s : list elem) (path : list string) (acc : list (list string)) : list (list string) :=
  match s with
  | [] => acc
  | BBegin :: r => path_stack r (path ++ [last path ""]) acc
  | BEnd :: r => path_stack r (removelast path) acc
  | Row x :: r =>
    let path' := removelast path ++ [x] in
    path_stack r path' (if existsb (list_str_eqb path') acc then acc else acc ++ [path'])
  end.

(* Juniper / Nokia flattening (without comments and [ ] expansion) *)
Definition lstrip_word (w s : string) : string :=   (* key.replace(w, "", 1).strip() for key starting with w *)
  strip (substring (String.length w) (String.length s - String.length w) s).

Fixpoint jun_paths (set_prefix : string) (nokia : bool) (prev : list string) (t : ptree) {struct t}
  : list (list string) :=
  match t with
  | PT items =>
    (fix go (l : list (string * option ptree * skey)) : list (list string) :=
       match l with
       | [] => []
       | (key, child, _) :: l' =>
         match child with
         | Some ((PT (_ :: _)) as ct) => jun_paths set_prefix nokia (prev ++ [strip key]) ct
         | _ =>
           let cmd := fun (head : list string) (rest : string) =>
                        [[join_with " " (head ++ prev ++ [rest])]] in
           if startswith "delete" key then
             (if nokia then cmd [set_prefix; "delete"] (lstrip_word "delete" key)
              else cmd ["delete"] (lstrip_word "delete" key))
           else if negb nokia && startswith "activate" key then cmd ["activate"] (lstrip_word "activate" key)
           else if negb nokia && startswith "deactivate" key then cmd ["deactivate"] (lstrip_word "deactivate" key)
           else cmd [set_prefix] (strip key)
         end ++ go l'
       end) items
  end.

(* odict semantics of NokiaFormatter.cmd_paths: a repeated command keeps its first position *)
Fixpoint dedup_paths (l acc : list (list string)) : list (list string) :=
  match l with
  | [] => acc
  | p :: r => dedup_paths r (if existsb (list_str_eqb p) acc then acc else acc ++ [p])
  end.

Definition cmd_paths (f : family) (t : ptree) : list (list string) :=
  match f with
  | FJuniper sp nokia => let ps := jun_paths sp nokia [] t in if nokia then dedup_paths ps [] else ps
  | _ => path_stack (blocks f "" t) [] []
  end.
