(* Model of the formatters' join / split of annet/annlib/tabparser.py, per formatter family:
     plain indentation  CommonFormatter.join (_blocks, _indent_blocks) - pc, optixtrans, huawei, h3c, cisco,
                        nexus, iosxr, arista, aruba, b4com (BlockExitFormatter emits exits only for patches)
     braces             JuniperFormatter.join/_formatted_blocks - juniper, ribbon, nokia
     RouterOS           RosFormatter.join/blocks_and_context/_formatted_blocks
   and of every vendor's split as a transformation of the list of lines, composed with the offside parser
   of Model/Offside.v (parse_to_tree).  The vendor table comes from Gen/Src_vendors.v.  No proofs here. *)
From Coq Require Import List String Ascii Bool Arith ZArith.
From Annet Require Import Base.Str Base.Tree Model.Offside Gen.Src_vendors.
Import ListNotations.
Open Scope string_scope.
Open Scope list_scope.
Local Infix "+++" := String.append (right associativity, at level 60).

(* ---------- small string helpers ---------- *)

Definition nls : string := String nl EmptyString.

Fixpoint drop_prefix (p s : string) : option string :=
  match p, s with
  | EmptyString, _ => Some s
  | String a p', String b s' => if Ascii.eqb a b then drop_prefix p' s' else None
  | String _ _, EmptyString => None
  end.

(* s = u ++ suf  ->  Some u *)
Fixpoint drop_suffix (suf s : string) : option string :=
  if String.eqb s suf then Some EmptyString
  else match s with
       | EmptyString => None
       | String c r => match drop_suffix suf r with Some u => Some (String c u) | None => None end
       end.

(* str.endswith *)
Definition ends_with (suf s : string) : bool :=
  match drop_suffix suf s with Some _ => true | None => false end.

Fixpoint contains (p s : string) : bool :=
  String.prefix p s || match s with EmptyString => false | String _ r => contains p r end.

Fixpoint replace_char (c : ascii) (by_ : string) (s : string) : string :=
  match s with
  | EmptyString => EmptyString
  | String a r => if Ascii.eqb a c then by_ +++ replace_char c by_ r else String a (replace_char c by_ r)
  end.

Fixpoint remove_first (x : string) (l : list string) : list string :=
  match l with
  | [] => []
  | y :: r => if String.eqb x y then r else y :: remove_first x r
  end.

Definition str_in (x : string) (l : list string) : bool := existsb (String.eqb x) l.

(* ---------- the block stream: CommonFormatter.blocks_and_context (is_patch=False) ---------- *)

Inductive tok := Row (s : string) | BB | BE.

Definition is_leaf (t : tree) : bool := match t with T [] => true | _ => false end.

Fixpoint blocks_t (t : tree) : list tok :=
  match t with
  | T k => (fix go (l : forest) : list tok :=
              match l with
              | [] => []
              | (r, c) :: l' => (Row r :: (if is_leaf c then [] else BB :: blocks_t c ++ [BE])) ++ go l'
              end) k
  end.
Definition blocks (f : forest) : list tok := blocks_t (T f).

(* CommonFormatter._indent_blocks *)
Fixpoint indent_blocks (ind : string) (lvl : nat) (l : list tok) : list tok :=
  match l with
  | [] => []
  | BB :: r => BB :: indent_blocks ind (S lvl) r
  | BE :: r => BE :: indent_blocks ind (pred lvl) r
  | Row s :: r => Row (repeat_str ind lvl +++ s) :: indent_blocks ind lvl r
  end.

(* _filtered_block_marks *)
Fixpoint rows_only (l : list tok) : list string :=
  match l with
  | [] => []
  | Row s :: r => s :: rows_only r
  | _ :: r => rows_only r
  end.

(* CommonFormatter.join *)
Definition join_plain (ind : string) (f : forest) : string :=
  join_with nls (rows_only (indent_blocks ind 0 (blocks f))).

(* ---------- braces: JuniperFormatter._formatted_blocks ---------- *)

Record brace := { b_begin : string; b_end : string; b_stmt : string; b_cbegin : string; b_cend : string }.

Definition leaf_suffix (b : brace) (s : string) : string :=
  if ends_with (b_cend b) s then EmptyString else b_stmt b.

Definition pending (line : option tok) (f : string -> string) : list string :=
  match line with Some (Row s) => [f s] | _ => [] end.

Fixpoint fmt_brace (b : brace) (ind : string) (level : nat) (line : option tok) (l : list tok) : list string :=
  match l with
  | [] => pending line (fun s => s +++ b_stmt b)
  | BB :: r => pending line (fun s => s +++ b_begin b) ++ fmt_brace b ind (S level) (Some BB) r
  | BE :: r => pending line (fun s => s +++ leaf_suffix b s) ++
               (repeat_str ind (pred level) +++ b_end b) :: fmt_brace b ind (pred level) (Some BE) r
  | Row n :: r => pending line (fun s => s +++ leaf_suffix b s) ++ fmt_brace b ind level (Some (Row n)) r
  end.

Definition is_row_with (p : string -> bool) (t : tok) : bool := match t with Row s => p s | _ => false end.

(* JuniperFormatter.join; None = the row is a "/* json */" comment row (Comment.loads; not modelled) *)
Definition join_brace (b : brace) (ind : string) (f : forest) : option string :=
  if existsb (is_row_with (startswith (b_cbegin b))) (blocks f) then None
  else Some (join_with nls (fmt_brace b ind 0 None (indent_blocks ind 0 (blocks f)))).

(* ---------- RouterOS: RosFormatter.blocks_and_context / _formatted_blocks ---------- *)

(* the chain of FormatterContext.current rows, innermost first ([] = context is None) *)
Definition ros_sel (v : ros_ctx) (ctx : list string) : option string :=
  match v, ctx with
  | RosCtxSelf, c :: _ => if is_empty c then None else Some c
  | RosCtxParent, _ :: c :: _ => if is_empty c then None else Some c
  | _, _ => None
  end.

Definition ros_open (prev : option string) : list tok := match prev with Some p => [Row p; BB] | None => [] end.
Definition ros_close (prev : option string) : list tok := match prev with Some _ => [BE] | None => [] end.

(* the loop over the items of one level.  itertools.groupby: consecutive leaf rows form one group (inrun = the
   previous item was a leaf of the same group); consecutive blocks with equal children would be grouped too, which
   is not observable.  rec = blocks_and_context on a child with its new context chain. *)
Definition ros_go (rec : list string -> tree -> list tok) (v : ros_ctx) (ctx : list string) :=
  fix go (l : forest) (prev : option string) (inrun : bool) {struct l} : list tok :=
    match l with
    | [] => if inrun then ros_close prev else []
    | (r, c) :: l' =>
      if is_leaf c then (if inrun then [] else ros_open prev) ++ Row r :: go l' prev true
      else (if inrun then ros_close prev else []) ++
           let prow := match ros_sel v ctx with Some p => p +++ " " +++ r | None => r end in
           let prev' := match ros_sel v ctx with Some p => Some p | None => prev end in
           Row prow :: BB :: rec (prow :: ctx) c ++ BE :: go l' prev' false
    end.

Fixpoint blocks_ros (v : ros_ctx) (ctx : list string) (t : tree) {struct t} : list tok :=
  match t with
  | T k => ros_go (blocks_ros v) v ctx k None false
  end.

Fixpoint fmt_ros (bb : string) (flush : bool) (line : option tok) (l : list tok) : list string :=
  match l with
  | [] => if flush then pending line (fun s => s) else []
  | BB :: r => pending line (fun s => bb +++ strip s) ++ fmt_ros bb flush (Some BB) r
  | x :: r => pending line (fun s => s) ++ fmt_ros bb flush (Some x) r
  end.

Definition join_ros (v : ros_ctx) (flush : bool) (bb ind : string) (f : forest) : string :=
  join_with nls (fmt_ros bb flush None (indent_blocks ind 0 (blocks_ros v [] (T f)))).

(* ---------- splits ---------- *)

(* BlockExitFormatter.split_remove_spaces: re.sub(r"(?<=\S)\ {2,}(?=\S)", " ", text) acts inside lines only
   (a newline is whitespace).  before = the character in front of the pending run of blanks is not
   whitespace; pending = length of the run. *)
Fixpoint collapse_aux (s : string) (before : bool) (pend : nat) : string :=
  match s with
  | EmptyString => repeat_str " " pend
  | String c r =>
    if Ascii.eqb c sp then collapse_aux r before (S pend)
    else (if before && Nat.leb 2 pend && negb (is_ws c) then " " else repeat_str " " pend)
           +++ String c (collapse_aux r (negb (is_ws c)) 0)
  end.
Definition collapse_spaces (s : string) : string := collapse_aux s false 0.

Definition split_spaces (text : string) : list string := map collapse_spaces (split_lines text).

Definition split_startswith (ws : list string) (text : string) : list string :=
  filter (fun x => negb (existsb (fun w => startswith w (strip x)) ws)) (split_spaces text).

Definition split_endswith (ws : list string) (text : string) : list string :=
  filter (fun x => negb (existsb (fun w => ends_with w x) ws)) (split_spaces text).

(* CiscoFormatter.split/_split_indent: lines after a row with a non-default block exit are shifted right by
   one blank until that exit word is met *)
Definition cisco_step (bexit : string) (tbl : list (list string * string)) (st : Z * list string) (line : string)
  : Z * list string :=
  let '(indent, exits) := st in
  let s := strip line in
  if str_in s exits then ((indent - 1)%Z, remove_first s exits)
  else match find (fun e => existsb (fun p => startswith p s) (fst e)) tbl with
       | Some (_, w) => if String.eqb w bexit then st else ((indent + 1)%Z, exits ++ [w])
       | None => st
       end.

Fixpoint cisco_lines (bexit : string) (tbl : list (list string * string)) (st : Z * list string) (l : list string)
  : list string :=
  match l with
  | [] => []
  | x :: r => (repeat_str " " (Z.to_nat (fst st)) +++ x) :: cisco_lines bexit tbl (cisco_step bexit tbl st x) r
  end.

Definition split_cisco (bexit : string) (tbl : list (list string * string)) (text : string) : list string :=
  cisco_lines bexit tbl (0%Z, [bexit]) (split_spaces text).

(* JuniperFormatter.sub_regexs, for the five patterns
     bb\s*be$   bb(\t# .+)?$   se$   \s*be(\t# .+)?$   eol.*$
   with literal bb, be, se, eol (bb and be end/start with a non-blank character) *)
Record subre := { r_bb : string; r_be : string; r_se : string; r_eol : string }.

Definition tab_comment : string := String tab "# ".

Definition expected_patterns (p : subre) : list string :=
  [ r_bb p +++ "\s*" +++ r_be p +++ "$";
    r_bb p +++ "(" +++ tab_comment +++ ".+)?$";
    r_se p +++ "$";
    "\s*" +++ r_be p +++ "(" +++ tab_comment +++ ".+)?$";
    r_eol p +++ ".*$" ].

Definition opt_comment_tail (rest : string) : bool :=
  is_empty rest || (startswith tab_comment rest && Nat.ltb (String.length tab_comment) (String.length rest)).

Definition re1 (p : subre) (s : string) : string :=
  match drop_suffix (r_be p) s with
  | Some s1 => match drop_suffix (r_bb p) (rstrip s1) with Some s2 => s2 | None => s end
  | None => s
  end.

Definition here2 (p : subre) (s : string) : bool :=
  match drop_prefix (r_bb p) s with Some rest => opt_comment_tail rest | None => false end.
Fixpoint re2 (p : subre) (s : string) : string :=
  if here2 p s then EmptyString
  else match s with EmptyString => EmptyString | String c r => String c (re2 p r) end.

Definition re3 (p : subre) (s : string) : string :=
  if is_empty (r_se p) then s else match drop_suffix (r_se p) s with Some s1 => s1 | None => s end.

Definition here4 (p : subre) (s : string) : bool :=
  match drop_prefix (r_be p) s with Some rest => opt_comment_tail rest | None => false end.
Fixpoint re4 (p : subre) (s : string) (ws : string) : string :=
  if here4 p s then EmptyString
  else match s with
       | EmptyString => ws
       | String c r => if is_ws c then re4 p r (ws +++ String c EmptyString) else ws +++ String c (re4 p r EmptyString)
       end.

Fixpoint re5 (p : subre) (s : string) : string :=
  if startswith (r_eol p) s then EmptyString
  else match s with EmptyString => EmptyString | String c r => String c (re5 p r) end.

Definition sub_regexs (p : subre) (s : string) : string := re5 p (re4 p (re3 p (re2 p (re1 p s))) EmptyString).

(* comment_regexp.match(line): blanks, then the comment opener, then a closer somewhere behind it *)
Definition is_comment_line (cb ce : string) (s : string) : bool :=
  let s' := lstrip s in
  negb (String.eqb s' s) &&
  match drop_prefix cb s' with Some rest => contains ce rest | None => false end.

(* JuniperFormatter.split; None = a comment line followed by another line (annotation rewriting, not modelled) *)
Fixpoint juniper_lines (p : subre) (cb ce : string) (l : list string) : option (list string) :=
  match l with
  | [] => Some []
  | x :: r =>
    let y := sub_regexs p x in
    if is_comment_line cb ce y && negb (match r with [] => true | _ => false end) then None
    else match juniper_lines p cb ce r with
         | Some out => Some (if is_empty y then out else y :: out)
         | None => None
         end
  end.

Definition split_juniper (p : subre) (cb ce : string) (text : string) : option (list string) :=
  juniper_lines p cb ce (split_char nl text).

(* NokiaFormatter.split: keep what is inside the last top-level "configure" block *)
Fixpoint nokia_scan (w : string) (l : list string) (i : nat) (start finish : option nat) : option nat * option nat :=
  match l with
  | [] => (start, finish)
  | x :: r =>
    if startswith "#" x then nokia_scan w r (S i) start finish
    else if String.eqb x w then nokia_scan w r (S i) (Some (S i)) finish
    else if Nat.eqb (String.length x) (String.length (lstrip x)) then
      nokia_scan w r (S i) start (match start, finish with Some _, None => Some i | _, _ => finish end)
    else nokia_scan w r (S i) start finish
  end.

Definition nokia_cut (w : string) (l : list string) : list string :=
  let '(start, finish) := nokia_scan w l 0 None None in
  let s := match start with Some s => s | None => 0 end in
  let f := match finish with Some f => f | None => List.length l end in
  skipn s (firstn f l).

(* RosFormatter.split without the _splitter_* post-processing; None = a section that has one *)
Definition ros_gpath (line : string) : string :=
  replace_char "-"%char "_" (replace_char " "%char "_" (replace_char "/"%char "_splitter_" line)).

Fixpoint ros_words (ind : string) (ws : list string) (level : nat) : list string * nat :=
  match ws with
  | [] => ([], level)
  | g :: r => let '(out, lv) := ros_words ind r (S level) in
              ((repeat_str ind level +++ replace_char "/"%char EmptyString g) :: out, lv)
  end.

Fixpoint ros_lines (ind : string) (special : list string) (l : list string) (level : nat) : option (list string) :=
  match l with
  | [] => Some []
  | x :: r =>
    if startswith "/" x then
      if str_in (ros_gpath x) special then None
      else let '(out, lv) := ros_words ind (words x) 0 in
           match ros_lines ind special r lv with Some rest => Some (out ++ rest) | None => None end
    else
      let row := if Nat.ltb 0 level then strip x else x in
      match ros_lines ind special r level with
      | Some rest => Some ((repeat_str ind level +++ row) :: rest)
      | None => None
      end
  end.

Definition split_ros (ind : string) (special : list string) (text : string) : option (list string) :=
  match ros_lines ind special (split_char nl text) 0 with
  | Some l => Some (filter (fun x => negb (is_empty x)) l)
  | None => None
  end.

(* ---------- formatter families read off the vendor table ---------- *)

Inductive splitk :=
| SkCommon
| SkSpaces
| SkStartswith (ws : list string)
| SkEndswith (ws : list string)
| SkCisco (bexit : string) (tbl : list (list string * string)).

Inductive fam :=
| FPlain (sk : splitk)
| FBrace (b : brace) (p : subre) (wrapper : option string)
| FRos (bb : string).

(* the literals JuniperFormatter.__init__ builds its patterns from *)
Definition juniper_subre : subre := {| r_bb := " {"; r_be := "}"; r_se := ";"; r_eol := "; ##" |}.

Fixpoint list_eqb (a b : list string) : bool :=
  match a, b with
  | [], [] => true
  | x :: a', y :: b' => String.eqb x y && list_eqb a' b'
  | _, _ => false
  end.

Definition policy_of (c : string) : option splitk :=
  match find (fun e => String.eqb (fst (fst e)) c) policy_end_splits with
  | Some (_, k, ws) =>
    if String.eqb k "strip_startswith" then Some (SkStartswith ws)
    else if String.eqb k "endswith" then Some (SkEndswith ws)
    else None
  | None => None
  end.

Definition plain_split (v : vendor) : option splitk :=
  let c := v_split v in
  if String.eqb c "CommonFormatter" then Some SkCommon
  else if str_in c spaces_only_splits then Some SkSpaces
  else if String.eqb c "CiscoFormatter" then Some (SkCisco (v_block_exit v) cisco_exits)
  else policy_of c.

(* None = the table names a class/shape this model does not know (fail closed) *)
Definition family (v : vendor) : option fam :=
  if String.eqb (v_join v) "CommonFormatter" && String.eqb (v_blocks v) "CommonFormatter" &&
     (String.eqb (v_ctx v) "CommonFormatter" || String.eqb (v_ctx v) "BlockExitFormatter") &&
     is_empty (v_fmt v)
  then match plain_split v with Some sk => Some (FPlain sk) | None => None end
  else if String.eqb (v_join v) "JuniperFormatter" && String.eqb (v_blocks v) "JuniperFormatter" &&
          String.eqb (v_ctx v) "CommonFormatter" && String.eqb (v_fmt v) "JuniperFormatter" &&
          list_eqb (v_patterns v) (expected_patterns juniper_subre)
  then let b := {| b_begin := v_block_begin v; b_end := v_block_end v; b_stmt := v_stmt_end v;
                   b_cbegin := juniper_comment_begin; b_cend := juniper_comment_end |} in
       if String.eqb (v_split v) "JuniperFormatter" then Some (FBrace b juniper_subre None)
       else if String.eqb (v_split v) "NokiaFormatter" then Some (FBrace b juniper_subre (Some nokia_wrapper))
       else None
  else if String.eqb (v_join v) "RosFormatter" && String.eqb (v_blocks v) "CommonFormatter" &&
          String.eqb (v_ctx v) "RosFormatter" && String.eqb (v_fmt v) "RosFormatter" &&
          String.eqb (v_split v) "RosFormatter"
  then Some (FRos (v_block_begin v))
  else None.

Definition eff_indent (v : vendor) (ind : string) : string :=
  match v_indent v with Some s => s | None => ind end.

(* ---------- join, split and parse per family ---------- *)

(* join: None = the implementation raises (Juniper comment rows) *)
Definition join_f (fm : fam) (ind : string) (f : forest) : option string :=
  match fm with
  | FPlain _ => Some (join_plain ind f)
  | FBrace b _ _ => join_brace b ind f
  | FRos bb => Some (join_ros ros_section_ctx ros_final_flush bb ind f)
  end.

Definition split_plain (sk : splitk) (text : string) : list string :=
  match sk with
  | SkCommon => split_lines text
  | SkSpaces => split_spaces text
  | SkStartswith ws => split_startswith ws text
  | SkEndswith ws => split_endswith ws text
  | SkCisco bexit tbl => split_cisco bexit tbl text
  end.

(* split: None = outside the modelled part of split *)
Definition split_f (fm : fam) (ind : string) (text : string) : option (list string) :=
  match fm with
  | FPlain sk => Some (split_plain sk text)
  | FBrace b p w =>
    match split_juniper p (b_cbegin b) (b_cend b) text with
    | Some l => Some (match w with Some w => nokia_cut w l | None => l end)
    | None => None
    end
  | FRos _ => split_ros ind ros_splitters text
  end.

(* parse_to_tree(text, fmt.split) with the default comments *)
Definition parse_f (fm : fam) (ind : string) (text : string) : option result :=
  match split_f fm ind text with
  | Some l => Some (parse_lines default_comments l)
  | None => None
  end.

(* ---------- what a correspondence case observes ---------- *)

Inductive outcome :=
| OJoinRaises                                                  (* join(tree) raised *)
| ORound (text : string) (parsed : result) (rejoined : option string)
      (* join text; parse_to_tree outcome; join(parsed tree) when parsing succeeded and join did not raise *)
| OUnmodelled.

Definition run_family (fm : fam) (ind : string) (f : forest) : outcome :=
  match join_f fm ind f with
  | None => OJoinRaises
  | Some text =>
    match parse_f fm ind text with
    | None => OUnmodelled
    | Some (Ok g) => ORound text (Ok g) (join_f fm ind g)
    | Some (Err n r) => ORound text (Err n r) None
    end
  end.

Definition find_vendor (name : string) : option vendor :=
  find (fun v => String.eqb (v_name v) name) vendors.

Definition run_vendor (name ind : string) (f : forest) : outcome :=
  match find_vendor name with
  | Some v => match family v with
              | Some fm => run_family fm (eff_indent v ind) f
              | None => OUnmodelled
              end
  | None => OUnmodelled
  end.

Definition opt_str_eqb (a b : option string) : bool :=
  match a, b with
  | Some x, Some y => String.eqb x y
  | None, None => true
  | _, _ => false
  end.

Definition outcome_eqb (a b : outcome) : bool :=
  match a, b with
  | OJoinRaises, OJoinRaises => true
  | ORound t p r, ORound t' p' r' => String.eqb t t' && result_eqb p p' && opt_str_eqb r r'
  | OUnmodelled, OUnmodelled => true
  | _, _ => false
  end.
