(* Model of annet.mesh.basemodel: Merger classes, _merge and merge.  No proofs here.

   A model object (BaseMeshModel instance) is the association list of its *set*
   attributes (vars(obj)); an attribute that is absent is Special.NOT_SET.  The
   class is represented by its schema: the list field -> merger that
   BaseMeshModel.__init_subclass__ stores in _field_mergers (same order).  The
   schema of a nested model (Merge()) is attached to the merger, i.e. the model is
   monomorphic: the runtime class of a nested value is the declared one. *)
From Coq Require Import List String Ascii Bool Arith ZArith.
Import ListNotations.
Open Scope string_scope.
Open Scope list_scope.

(* ---- values ------------------------------------------------------------------ *)

(* scalars; ARec is a value of a (frozen) dataclass such as BFDTimers, compared by
   its fields, carried as its canonical text *)
Inductive atom :=
| AInt (z : Z)
| ABool (b : bool)
| AStr (s : string)
| ANone
| ARec (s : string).

Definition atom_eqb (a b : atom) : bool :=
  match a, b with
  | AInt x, AInt y => Z.eqb x y
  | ABool x, ABool y => Bool.eqb x y
  | AStr x, AStr y => String.eqb x y
  | ANone, ANone => true
  | ARec x, ARec y => String.eqb x y
  | _, _ => false
  end.

Inductive value :=
| VAtom (a : atom)
| VList (l : list atom)                  (* list / tuple *)
| VSet (l : list atom)                   (* set *)
| VDict (l : list (string * value))      (* dict with str keys *)
| VObj (l : list (string * value)).      (* nested BaseMeshModel: its set attributes *)

Definition entries := list (string * value).

Inductive merger :=
| MForbidChange                          (* default when a field has no Annotated merger *)
| MForbid
| MUseFirst
| MUseLast
| MConcat
| MUnite
| MMerge (sch : list (string * merger))  (* Merge(): recursive merge() of a nested model *)
| MDictMerge (m : merger).               (* DictMerge(value_merger) *)

Definition schema := list (string * merger).

Inductive err :=
| EForbidden                             (* MergeForbiddenError *)
| EType.                                 (* TypeError/AttributeError on ill-typed operands *)

Inductive res (A : Type) :=
| Ok (a : A)
| Err (e : err).
Arguments Ok {A} a.
Arguments Err {A} e.

(* ---- association lists --------------------------------------------------------- *)

Fixpoint lookup {A : Type} (k : string) (l : list (string * A)) : option A :=
  match l with
  | [] => None
  | (k', v) :: r => if String.eqb k k' then Some v else lookup k r
  end.

Definition mem {A : Type} (k : string) (l : list (string * A)) : bool :=
  match lookup k l with Some _ => true | None => false end.

Definition keys {A : Type} (l : list (string * A)) : list string := map fst l.

(* ---- Python == on the values single-valued mergers see --------------------------- *)

Fixpoint atoms_eqb (a b : list atom) : bool :=
  match a, b with
  | [], [] => true
  | x :: a', y :: b' => atom_eqb x y && atoms_eqb a' b'
  | _, _ => false
  end.

Definition amem (x : atom) (l : list atom) : bool := existsb (atom_eqb x) l.
Definition subset (a b : list atom) : bool := forallb (fun x => amem x b) a.

(* x == y.  Nested models define no __eq__ (identity comparison): two distinct model
   objects are never equal; dict values do not occur under single-valued mergers in the
   modelled domain. *)
Definition value_eqb (x y : value) : bool :=
  match x, y with
  | VAtom a, VAtom b => atom_eqb a b
  | VList a, VList b => atoms_eqb a b
  | VSet a, VSet b => subset a b && subset b a
  | _, _ => false
  end.

(* x | y on sets *)
Definition union (a b : list atom) : list atom :=
  a ++ filter (fun x => negb (amem x a)) b.

(* ---- merge --------------------------------------------------------------------- *)

Section Entries.
  (* rec = the recursive call; mof f = merger of attribute/key f (None: f is not a field
     of the class: the value of x stays, the value of y is not looked at);
     fy = attributes of the second operand *)
  Variable rec : merger -> value -> value -> res value.
  Variable mof : string -> option merger.
  Variable fy : entries.

  (* Merger.__call__ for an attribute that is set in x *)
  Definition merge_one (f : string) (vx : value) : res value :=
    match mof f with
    | None => Ok vx
    | Some m =>
      match lookup f fy with
      | None => Ok vx                     (* y is NOT_SET: return x *)
      | Some vy => rec m vx vy
      end
    end.

  Fixpoint merge_old (fx : entries) : res entries :=
    match fx with
    | [] => Ok []
    | (f, vx) :: r =>
      match merge_one f vx with
      | Err e => Err e
      | Ok v =>
        match merge_old r with
        | Err e => Err e
        | Ok r' => Ok ((f, v) :: r')
        end
      end
    end.
End Entries.

(* attributes set only in y (x is NOT_SET: return y) *)
Definition merge_new (mof : string -> option merger) (fx fy : entries) : entries :=
  filter (fun p => match mof (fst p) with
                   | Some _ => negb (mem (fst p) fx)
                   | None => false
                   end) fy.

(* merger(name, x, y) with both x and y set *)
Fixpoint merge_val (m : merger) (x y : value) {struct x} : res value :=
  match m with
  | MForbidChange => if value_eqb x y then Ok x else Err EForbidden
  | MForbid => Err EForbidden
  | MUseFirst => Ok x
  | MUseLast => Ok y
  | MConcat =>
    match x, y with
    | VList a, VList b => Ok (VList (a ++ b))
    | _, _ => Err EType
    end
  | MUnite =>
    match x, y with
    | VSet a, VSet b => Ok (VSet (union a b))
    | _, _ => Err EType
    end
  | MMerge sch =>
    match x, y with
    | VObj fx, VObj fy =>
      match merge_old merge_val (fun f => lookup f sch) fy fx with
      | Err e => Err e
      | Ok l => Ok (VObj (l ++ merge_new (fun f => lookup f sch) fx fy))
      end
    | _, _ => Err EType
    end
  | MDictMerge vm =>
    match x, y with
    | VDict fx, VDict fy =>
      match merge_old merge_val (fun _ => Some vm) fy fx with
      | Err e => Err e
      | Ok l => Ok (VDict (l ++ merge_new (fun _ => Some vm) fx fy))
      end
    | _, _ => Err EType
    end
  end.

(* _merge(a, b) for a of a class with schema sch *)
Definition merge (sch : schema) (a b : entries) : res entries :=
  match merge_val (MMerge sch) (VObj a) (VObj b) with
  | Ok (VObj r) => Ok r
  | Ok _ => Err EType
  | Err e => Err e
  end.

(* merge(first, *others): left fold *)
Fixpoint merge_all (sch : schema) (first : entries) (others : list entries) : res entries :=
  match others with
  | [] => Ok first
  | b :: r =>
    match merge sch first b with
    | Ok ab => merge_all sch ab r
    | Err e => Err e
    end
  end.

(* ---- equality of results -------------------------------------------------------- *)

(* multiset equality of atom lists *)
Definition acount (x : atom) (l : list atom) : nat :=
  List.length (filter (atom_eqb x) l).
Definition perm_eqb (a b : list atom) : bool :=
  Nat.eqb (List.length a) (List.length b) &&
  forallb (fun x => Nat.eqb (acount x a) (acount x b)) a.

Section EqEntries.
  Variable rec : merger -> value -> value -> bool.
  Variable mof : string -> merger.
  Variable fy : entries.
  Fixpoint sub_entries (fx : entries) : bool :=
    match fx with
    | [] => true
    | (f, vx) :: r =>
      match lookup f fy with
      | Some vy => rec (mof f) vx vy
      | None => false
      end && sub_entries r
    end.
End EqEntries.

Definition field_merger (m : merger) (f : string) : merger :=
  match m with
  | MMerge sch => match lookup f sch with Some mf => mf | None => MForbidChange end
  | _ => MForbidChange
  end.

Definition dict_merger (m : merger) : merger :=
  match m with MDictMerge vm => vm | _ => MForbidChange end.

(* Equality of two merge results for a field merged by m: objects and dicts as finite
   maps (attribute order is irrelevant), sets by membership, lists element by element --
   except, when cm = true, lists produced by Concat, which are compared as multisets. *)
Fixpoint veqb (cm : bool) (m : merger) (x y : value) {struct x} : bool :=
  match x, y with
  | VObj fx, VObj fy =>
    sub_entries (veqb cm) (field_merger m) fy fx && forallb (fun p => mem (fst p) fx) fy
  | VDict fx, VDict fy =>
    sub_entries (veqb cm) (fun _ => dict_merger m) fy fx && forallb (fun p => mem (fst p) fx) fy
  | VList a, VList b =>
    match m with
    | MConcat => if cm then perm_eqb a b else atoms_eqb a b
    | _ => atoms_eqb a b
    end
  | _, _ => value_eqb x y
  end.

Definition res_eqb (cm : bool) (sch : schema) (a b : res entries) : bool :=
  match a, b with
  | Ok x, Ok y => veqb cm (MMerge sch) (VObj x) (VObj y)
  | Err e, Err e' => match e, e' with EForbidden, EForbidden => true | EType, EType => true | _, _ => false end
  | _, _ => false
  end.

(* ---- domain --------------------------------------------------------------------- *)

Fixpoint nodupb (l : list string) : bool :=
  match l with
  | [] => true
  | x :: r => negb (existsb (String.eqb x) r) && nodupb r
  end.

(* no UseFirst/UseLast anywhere: the mergers whose result depends on operand order by
   design *)
Fixpoint order_free (m : merger) : bool :=
  match m with
  | MUseFirst | MUseLast => false
  | MMerge sch => (fix go (l : list (string * merger)) : bool :=
                     match l with [] => true | (_, mf) :: r => order_free mf && go r end) sch
  | MDictMerge vm => order_free vm
  | _ => true
  end.

Section WfEntries.
  Variable rec : merger -> value -> bool.
  Variable mof : string -> option merger.
  Fixpoint wf_entries (fx : entries) : bool :=
    match fx with
    | [] => true
    | (f, vx) :: r =>
      match mof f with Some m => rec m vx | None => false end && wf_entries r
    end.
End WfEntries.

(* well-typed value for a field merged by m: keys unique, every attribute is a field of
   the class, containers where the merger needs them *)
Fixpoint wf_val (m : merger) (x : value) {struct x} : bool :=
  match m, x with
  | MMerge sch, VObj fx =>
    nodupb (keys fx) && wf_entries wf_val (fun f => lookup f sch) fx
  | MMerge _, _ => false
  | MDictMerge vm, VDict fx =>
    nodupb (keys fx) && wf_entries wf_val (fun _ => Some vm) fx
  | MDictMerge _, _ => false
  | MConcat, VList _ => true
  | MConcat, _ => false
  | MUnite, VSet _ => true
  | MUnite, _ => false
  | _, VAtom _ => true
  | _, VList _ => true
  | _, VSet _ => true
  | _, _ => false
  end.

Definition wf_obj (sch : schema) (a : entries) : bool :=
  nodupb (keys sch) && wf_val (MMerge sch) (VObj a).
