(* C15 — MeshRulesRegistry with include() and match_short_name (annet/mesh/registry.py:
   _normalize_host, include, lookup_direct / lookup_indirect).  No proofs here.
   Model/Mesh.v treats a registry as ONE flat rule list with an abstract relation
   `matches : rule id -> left name -> right name -> bool`.  Here the registry is the tree the code builds:
   every registry normalises the host names IT matches with (short name = text before the first dot) and
   passes the ORIGINAL names on to the registries it includes; a matched pair carries the original names. *)
From Coq Require Import List String Bool Arith Ascii.
From Annet Require Import Model.Merge Model.Mesh.
Import ListNotations.
Open Scope string_scope.
Open Scope list_scope.

(* host.split(".", maxsplit=1)[0] *)
Fixpoint short_name (s : string) : string :=
  match s with
  | EmptyString => EmptyString
  | String c r => if Ascii.eqb c "."%char then EmptyString else String c (short_name r)
  end.

(* MeshRulesRegistry._normalize_host *)
Definition normalize (short : bool) (h : string) : string := if short then short_name h else h.

(* MeshRulesRegistry(match_short_name), its own direct (or indirect) rules, self.nested in include() order *)
Inductive registry := Registry (short : bool) (rules : list rule) (nested : list registry).

Section Nested.
  (* rule.matcher.match_pair(left, right) is not None, on the two strings it is GIVEN *)
  Variable raw : nat -> string -> string -> bool.

  (* the loop of lookup_direct / lookup_indirect over the registry's own rules *)
  Definition own_lookup (short : bool) (rules : list rule) (device : string) (neighbors : list string) : list matched :=
    flat_map (fun nb =>
      flat_map (fun r =>
        (if raw (r_id r) (normalize short device) (normalize short nb) then [Matched r true device nb] else []) ++
        (if raw (r_id r) (normalize short nb) (normalize short device) then [Matched r false nb device] else []))
        rules) neighbors.

  (* ... followed by  for registry in self.nested: found.extend(registry.lookup_direct(device, neighbors)) *)
  Fixpoint lookup_nested (g : registry) (device : string) (neighbors : list string) : list matched :=
    match g with
    | Registry sh rules nested =>
      own_lookup sh rules device neighbors ++ flat_map (fun g' => lookup_nested g' device neighbors) nested
    end.

  (* the flat view: every rule with the flag of the registry it was registered in, in pre-order *)
  Fixpoint flatten (g : registry) : list (bool * rule) :=
    match g with
    | Registry sh rules nested => map (pair sh) rules ++ flat_map flatten nested
    end.

  Definition lookup_flat (rs : list (bool * rule)) (device : string) (neighbors : list string) : list matched :=
    flat_map (fun nb =>
      flat_map (fun br : bool * rule =>
        (if raw (r_id (snd br)) (normalize (fst br) device) (normalize (fst br) nb)
         then [Matched (snd br) true device nb] else []) ++
        (if raw (r_id (snd br)) (normalize (fst br) nb) (normalize (fst br) device)
         then [Matched (snd br) false nb device] else []))
        rs) neighbors.
End Nested.
