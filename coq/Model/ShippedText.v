(* From the TEXT of a rulebook to the rule sets of the models: the part of
     annet.annlib.rbparser.syntax  (_parse_tree_with_params, _parse_raw_rule, _fill_and_validate)
     annet.rulebook.patching._compile_patching, annet.annlib.rbparser.ordering._compile_ordering,
     annet.rulebook.deploying._compile_deploying (structure only)
   that turns the tree of raw rule lines (what tabparser.parse_to_tree hands to syntax.parse_text)
   into  Rulebook.rset / list Order.orule.  The row of a line is PatternT.raw_row (the model of
   _parse_raw_rule proved in Proofs/PatternTProofs.v); this file adds the %params and the tree walk.

   What the six-constructor [logic] / three-constructor [dlogic] of Model/Rulebook.v cannot say is
   kept, never dropped: every rule carries its full parsed record [sinfo] (logic and diff_logic as the
   dotted names of the text, %multiline, %ignore_case, %comment ...), and the projection to [prule]
   gives a rule with such a feature the attributes ([opaque_logic], [opaque_dlogic]) that lie OUTSIDE
   the domain of every pipeline theorem (P_C01.allow_eval is false for them), so a theorem instantiated
   with a shipped rulebook says nothing about rows such a rule governs; [s_opaque] tells which ones.
   No proofs in this file. *)
From Coq Require Import List String Ascii Bool Arith.
From Annet Require Import Base.Str Model.Pattern Model.PatternX Model.PatternY Model.PatternT
     Model.Rulebook Model.Order.
Import ListNotations.
Open Scope string_scope.
Open Scope list_scope.

(* one raw rule line (a key of the tabparser tree: continuation lines already joined) and the lines
   indented below it *)
Inductive rawline := RL (raw : string) (kids : list rawline).
Definition rl_raw (l : rawline) := match l with RL r _ => r end.
Definition rl_kids (l : rawline) := match l with RL _ k => k end.

Fixpoint rl_count (l : rawline) : nat :=
  match l with RL _ k => S ((fix go (x : list rawline) := match x with [] => 0 | a :: t => rl_count a + go t end) k) end.
Definition rls_count (l : list rawline) : nat := fold_right (fun a n => rl_count a + n) 0 l.

(* ------------------------------------------------------------------ %params *)

Fixpoint span (f : ascii -> bool) (s : string) : string * string :=
  match s with
  | EmptyString => (EmptyString, EmptyString)
  | String c r => if f c then let '(a, b) := span f r in (String c a, b) else (EmptyString, s)
  end.

(* the findall of _parse_raw_rule: a blank, a percent sign, an identifier, optionally `=` and a run of
   non-blanks; an empty value is replaced by the text 1; matches do not overlap, the scan resumes
   after the value *)
Fixpoint scan_params (n : nat) (s : string) : list (string * string) :=
  match n with
  | O => []
  | S n' =>
    match s with
    | String a ((String b ((String c _) as r2)) as r1) =>
      if is_ws a && Ascii.eqb b "%" && ident_start c then
        let '(name, rest) := span is_wordc r2 in
        match rest with
        | String "="%char rest' =>
          let '(v, rest'') := span (fun x => negb (is_ws x)) rest' in
          (name, if is_empty v then "1" else v) :: scan_params n' rest''
        | _ => (name, "1") :: scan_params n' rest
        end
      else scan_params n' r1
    | _ => []
    end
  end.
Definition params_of (raw : string) : list (string * string) := scan_params (S (String.length raw)) raw.

(* the dict built from the findall list: the last occurrence of a key wins *)
Fixpoint pget (k : string) (ps : list (string * string)) : option string :=
  match ps with
  | [] => None
  | (k', v) :: t => match pget k t with Some x => Some x | None => if String.eqb k k' then Some v else None end
  end.

(* valkit valid_bool: lower-cased, one of 1/true/yes, 0/false/no; anything else raises *)
Definition valid_bool (v : string) : option bool :=
  let l := lower_str v in
  if String.eqb l "1" || String.eqb l "true" || String.eqb l "yes" then Some true
  else if String.eqb l "0" || String.eqb l "false" || String.eqb l "no" then Some false
  else None.
Definition pbool (k : string) (ps : list (string * string)) : option bool :=
  match pget k ps with Some v => valid_bool v | None => Some false end.
(* valid_string_list on a value without blanks: split at commas, empty pieces dropped *)
Definition pstrlist (k : string) (ps : list (string * string)) : option (list string) :=
  match pget k ps with
  | Some v => Some (filter (fun x => negb (is_empty x)) (split_char ","%char v))
  | None => None
  end.

(* ------------------------------------------------------------------ one line *)

Inductive linekind := LSkip | LContext | LIgnore (row : string) | LNormal (row : string).

(* _parse_tree_with_params on one key: row, then `!` (ignore; an empty rest drops the line with
   everything below it) or %context= (changes the context of the following lines; not a rule) *)
Definition line_kind (raw : string) : linekind :=
  let row := raw_row raw in
  if startswith "!" row then
    let r := strip (match row with String _ t => t | EmptyString => EmptyString end) in
    if is_empty r then LSkip else LIgnore r
  else if startswith "%context=" row then LContext
  else LNormal row.

(* ------------------------------------------------------------------ patching *)

Record sinfo := SInfo {
  s_raw : string; s_row : string; s_ign : bool; s_glob : bool;
  s_logic : string;            (* dotted name after the %ordered / %rewrite rewriting *)
  s_dlogic : string;           (* dotted name after the %ordered / %rewrite / %multiline rewriting *)
  s_parent : bool; s_multiline : bool; s_force_commit : bool; s_ic : bool;
  s_has_kids : bool
}.
Inductive srule := SRule (i : sinfo) (kl kg : list srule).
Definition sr_info (r : srule) := match r with SRule i _ _ => i end.
Definition sr_kl (r : srule) := match r with SRule _ kl _ => kl end.
Definition sr_kg (r : srule) := match r with SRule _ _ kg => kg end.

(* vendor constants of the registry: reverse word, diff(False), diff(True) *)
Record vconst := VConst { vc_reverse : string; vc_diff : string; vc_diff_ordered : string }.

Definition opt_bind {A B} (o : option A) (f : A -> option B) : option B :=
  match o with Some a => f a | None => None end.

(* odict assignment tree[raw_rule] = ... : a repeated key keeps its first position, last value *)
Fixpoint sput (r : srule) (l : list srule) : list srule :=
  match l with
  | [] => [r]
  | x :: t => if String.eqb (s_raw (sr_info x)) (s_raw (sr_info r)) then r :: t else x :: sput r t
  end.

Section Patching.
  Variable vc : vconst.

  Definition info_of (raw row : string) (ign : bool) (ps : list (string * string)) (has_kids : bool) : option sinfo :=
    opt_bind (pbool "global" ps) (fun glob =>
    opt_bind (pbool "multiline" ps) (fun multiline =>
    opt_bind (pbool "ordered" ps) (fun ordered =>
    opt_bind (pbool "rewrite" ps) (fun rewrite =>
    opt_bind (pbool "parent" ps) (fun parent =>
    opt_bind (pbool "force_commit" ps) (fun fc =>
    opt_bind (pbool "ignore_case" ps) (fun ic =>
    let logic0 := match pget "logic" ps with Some v => v | None => "common.default" end in
    let dlogic0 := match pget "diff_logic" ps with Some v => v | None => vc_diff vc end in
    let ic' := ic || rule_has_ic row in
    if ign then
      Some (SInfo raw row true glob "" dlogic0 has_kids false false ic' has_kids)
    else
      let '(logic, dlogic) :=
          if ordered then ("common.ordered", vc_diff_ordered vc)
          else if rewrite then ("common.rewrite", "common.rewrite_diff")
          else if multiline then (logic0, "common.multiline_diff")
          else (logic0, dlogic0) in
      Some (SInfo raw row false glob logic dlogic (parent || has_kids) multiline fc ic' has_kids)))))))).

  (* _parse_tree_with_params + _compile_patching: (local, global), None = a validator raises *)
  Fixpoint compile_line (l : rawline) : option (option srule) :=
    match l with
    | RL raw kids =>
      let walk :=
          (fix go (ks : list rawline) (acc : list srule * list srule) : option (list srule * list srule) :=
             match ks with
             | [] => Some acc
             | k :: t =>
               match compile_line k with
               | None => None
               | Some None => go t acc
               | Some (Some r) =>
                 go t (if s_glob (sr_info r) then (fst acc, sput r (snd acc)) else (sput r (fst acc), snd acc))
               end
             end) in
      let has_kids :=
          existsb (fun k => match line_kind (rl_raw k) with LIgnore _ | LNormal _ => true | _ => false end) kids in
      match line_kind raw with
      | LSkip | LContext => Some None
      | LIgnore row =>
        opt_bind (info_of raw row true (params_of raw) has_kids) (fun i => Some (Some (SRule i [] [])))
      | LNormal row =>
        opt_bind (info_of raw row false (params_of raw) has_kids) (fun i =>
          if s_glob i then
            (* children of a %global rule are parsed (a bad %param there still raises) and not compiled *)
            opt_bind (walk kids ([], [])) (fun _ => Some (Some (SRule i [] [])))
          else opt_bind (walk kids ([], [])) (fun c => Some (Some (SRule i (fst c) (snd c)))))
      end
    end.

  Fixpoint compile_lines (ks : list rawline) (acc : list srule * list srule) : option (list srule * list srule) :=
    match ks with
    | [] => Some acc
    | k :: t =>
      match compile_line k with
      | None => None
      | Some None => compile_lines t acc
      | Some (Some r) =>
        compile_lines t (if s_glob (sr_info r) then (fst acc, sput r (snd acc)) else (sput r (fst acc), snd acc))
      end
    end.
  Definition compile_srules (ks : list rawline) : option (list srule * list srule) := compile_lines ks ([], []).
End Patching.

(* ------------------------------------------------------------------ projection to Rulebook.rset *)

(* the %logic names of annlib/rulebook/common.py the models know; alias: vendor functions that only
   delegate to one of them (Gen/Src_rules.v, read from the source) *)
Definition logic_of_name (alias : list (string * string)) (n : string) : option logic :=
  let n' := match find (fun p => String.eqb (fst p) n) alias with Some p => snd p | None => n end in
  if String.eqb n' "common.default" then Some LDefault
  else if String.eqb n' "common.ordered" then Some LOrdered
  else if String.eqb n' "common.rewrite" then Some LRewrite
  else if String.eqb n' "common.permanent" then Some LPermanent
  else if String.eqb n' "common.ignore_changes" then Some LIgnoreChanges
  else if String.eqb n' "common.undo_redo" then Some LUndoRedo
  else None.
Definition dlogic_of_name (n : string) : option dlogic :=
  if String.eqb n "common.default_diff" then Some DDefault
  else if String.eqb n "common.ordered_diff" then Some DOrdered
  else if String.eqb n "common.rewrite_diff" then Some DRewrite
  else None.

(* attributes standing for "not one of the modelled functions": outside P_C01.allow_eval *)
Definition opaque_logic : logic := LOrdered.
Definition opaque_dlogic : dlogic := DOrdered.

Section Project.
  Variable alias : list (string * string).
  (* is the row pattern inside the modelled rule language? *)
  Variable pat_ok : string -> bool.

  (* why a rule is opaque (empty list: fully modelled) *)
  Definition s_opaque (i : sinfo) : list string :=
    (if s_ign i then [] else
       (match logic_of_name alias (s_logic i) with Some _ => [] | None => ["logic"] end) ++
       (match dlogic_of_name (s_dlogic i) with Some _ => [] | None => ["diff_logic"] end) ++
       (if s_multiline i then ["multiline"] else [])) ++
    (if s_ic i then ["ignore_case"] else []) ++
    (if pat_ok (s_row i) then [] else ["pattern"]).

  Definition attrs_of (i : sinfo) : attrs :=
    if s_ign i then Attrs (s_row i) LDefault DDefault (s_parent i) false
    else
      let op := match s_opaque i with [] => false | _ => true end in
      Attrs (s_row i)
            (if op then opaque_logic else match logic_of_name alias (s_logic i) with Some l => l | None => opaque_logic end)
            (if op then opaque_dlogic else match dlogic_of_name (s_dlogic i) with Some d => d | None => opaque_dlogic end)
            (s_parent i) (s_force_commit i).

  Fixpoint to_prule (r : srule) : prule :=
    match r with
    | SRule i kl kg => PRule (s_raw i) (s_ign i) (attrs_of i) (map to_prule kl) (map to_prule kg)
    end.
  Definition to_rset (c : list srule * list srule) : rset := (map to_prule (fst c), map to_prule (snd c)).

  Fixpoint sr_flat (r : srule) : list sinfo :=
    match r with
    | SRule i kl kg => i :: flat_map sr_flat kl ++ flat_map sr_flat kg
    end.
  Definition srs_flat (c : list srule * list srule) : list sinfo := flat_map sr_flat (fst c) ++ flat_map sr_flat (snd c).
End Project.

(* ------------------------------------------------------------------ ordering *)

Fixpoint oput (r : orule) (l : list orule) : list orule :=
  match l with
  | [] => [r]
  | x :: t => if String.eqb (o_raw x) (o_raw r) then r :: t else x :: oput r t
  end.

(* _compile_ordering: normal lines only; None = a validator raises *)
Fixpoint compile_oline (l : rawline) : option (option orule) :=
  match l with
  | RL raw kids =>
    let walk :=
        (fix go (ks : list rawline) (acc : list orule) : option (list orule) :=
           match ks with
           | [] => Some acc
           | k :: t =>
             match compile_oline k with
             | None => None
             | Some None => go t acc
             | Some (Some r) => go t (oput r acc)
             end
           end) in
    let ps := params_of raw in
    match line_kind raw with
    | LSkip | LContext => Some None
    | LIgnore _ =>
      (* parsed with its children (validators run), not compiled *)
      opt_bind (pbool "order_reverse" ps) (fun _ => opt_bind (pbool "global" ps) (fun _ =>
      opt_bind (walk kids []) (fun _ => Some None)))
    | LNormal row =>
      opt_bind (pbool "order_reverse" ps) (fun orev => opt_bind (pbool "global" ps) (fun glob =>
      opt_bind (walk kids []) (fun ks => Some (Some (ORule raw row orev glob (pstrlist "scope" ps) ks)))))
    end
  end.
Fixpoint compile_olines (ks : list rawline) (acc : list orule) : option (list orule) :=
  match ks with
  | [] => Some acc
  | k :: t =>
    match compile_oline k with
    | None => None
    | Some None => compile_olines t acc
    | Some (Some r) => compile_olines t (oput r acc)
    end
  end.
Definition compile_ordering (ks : list rawline) : option (list orule) := compile_olines ks [].

Fixpoint o_flat (r : orule) : list orule :=
  match r with ORule _ _ _ _ _ kids => r :: flat_map o_flat kids end.
Definition os_flat (l : list orule) : list orule := flat_map o_flat l.

(* ------------------------------------------------------------------ deploying (structure only) *)

Inductive dline := DLine (raw row : string) (params : list (string * string)) (kids : list dline).
Fixpoint dput (r : dline) (l : list dline) : list dline :=
  match l with
  | [] => [r]
  | (DLine raw' _ _ _ as x) :: t =>
    if String.eqb raw' (match r with DLine raw _ _ _ => raw end) then r :: t else x :: dput r t
  end.
(* _compile_deploying: normal lines that are not `ignore:` / `dialog:` messages *)
Fixpoint compile_dline (l : rawline) : option dline :=
  match l with
  | RL raw kids =>
    match line_kind raw with
    | LNormal row =>
      if startswith "ignore:" row || startswith "dialog:" row then None
      else Some (DLine raw row (params_of raw)
                       (fold_left (fun acc k => match compile_dline k with Some d => dput d acc | None => acc end) kids []))
    | _ => None
    end
  end.
Definition compile_deploying (ks : list rawline) : list dline :=
  fold_left (fun acc k => match compile_dline k with Some d => dput d acc | None => acc end) ks [].
