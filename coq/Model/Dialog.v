(* C09: the messages of a deploy rule — `dialog: question ::: answer` and `ignore: text`.
   Model of annet/annlib/rbparser/deploying.py:MakeMessageMatcher (the question / ignore text as
   a predicate on what the device printed) and of annet/deploy.py:RulebookQuestionHandler.__call__
   (first dialog whose question matches gives the answer).
     - a text not written as /re/: _simplify_text(text) in _simplify_text(content), where
       _simplify_text drops every whitespace character and lowercases;
     - a text written as /re/: re.compile(text[1:-1].strip(), re.I).match(content) — a match of a
       PREFIX of the content.  The regular expression may contain blanks: it is read as the words
       between single blanks, each word a one-word regexp of Model/Pattern.v (parse_sre_l) without
       an alternation outside a group, joined by literal blanks.  Anything else (a group or a set
       holding a blank, `\ `, a top-level `|` in a text with blanks, anchors, counted repetition …)
       is outside the modelled language: the matcher is [MRe src None] and running it gives None
       (fail closed, reported by the check).
   Domain: ASCII texts (str.lower / \s are modelled on ASCII only).
   No proofs in this file (Proofs/DialogProofs.v). *)
From Coq Require Import List String Ascii Bool Arith NArith.
From Annet Require Import Base.Str Model.Pattern Model.PatternX Model.Deploy.
Import ListNotations.
Open Scope string_scope.
Open Scope list_scope.

(* str.strip() on an ASCII str: the characters with str.isspace() *)
Fixpoint lstrip_l (s : list ascii) : list ascii :=
  match s with
  | c :: r => if py_ws c then lstrip_l r else s
  | [] => []
  end.
Definition strip_l (s : list ascii) : list ascii := rev (lstrip_l (rev (lstrip_l s))).

(* _simplify_text: re.sub(r"\s", "", text).lower() *)
Definition simplify_l (s : list ascii) : list ascii := map lower (filter (fun c => negb (py_ws c)) s).

(* s.split(" ") *)
Fixpoint split_sp (s : list ascii) (cur : list ascii) : list (list ascii) :=
  match s with
  | [] => [rev cur]
  | c :: r => if Ascii.eqb c sp then rev cur :: split_sp r [] else split_sp r (c :: cur)
  end.

Fixpoint join_sp (rs : list sre) : sre :=
  match rs with
  | [] => SEps
  | [r] => r
  | r :: rs' => SCat r (SCat (SChr sp) (join_sp rs'))
  end.

Fixpoint parse_words (ws : list (list ascii)) : option (list sre) :=
  match ws with
  | [] => Some []
  | w :: r =>
    match parse_sre_l w, parse_words r with
    | Some a, Some l => Some (a :: l)
    | _, _ => None
    end
  end.

(* the regular expression of a /re/ message *)
Definition parse_dre (src : list ascii) : option sre :=
  match split_sp src [] with
  | [w] => parse_sre_l w
  | ws =>
    match parse_words ws with
    | Some rs => if forallb alt_closed rs then Some (join_sp rs) else None
    | None => None
    end
  end.

Inductive matcher :=
| MPlain (simp : list ascii)                    (* the simplified text *)
| MRe (src : list ascii) (r : option sre).      (* the source between the slashes, stripped *)

Definition is_slashed (t : list ascii) : bool :=
  match t with
  | c :: _ => Ascii.eqb c "/" && Ascii.eqb (last t " "%char) "/"
  | [] => false
  end.

(* text[1:-1] *)
Definition inner (t : list ascii) : list ascii := removelast (tl t).

(* MakeMessageMatcher(text) *)
Definition mk_matcher (text : string) : matcher :=
  let t := strip_l (l_of text) in
  if is_slashed t then let src := strip_l (inner t) in MRe src (parse_dre src)
  else MPlain (simplify_l t).

(* matcher(content): Some true/false, None = a regular expression outside the modelled language *)
Definition matcher_run (m : matcher) (content : list ascii) : option bool :=
  match m with
  | MPlain p => Some (lcontains p (simplify_l content))
  | MRe _ (Some r) => Some (sre_run_pre true r content)
  | MRe _ None => None
  end.

Definition msg_matches (text : string) (content : string) : option bool :=
  matcher_run (mk_matcher text) (l_of content).

Definition msg_modelled (text : string) : bool :=
  match mk_matcher text with MRe _ None => false | _ => true end.

(* RulebookQuestionHandler(dialogs)(dev, cmd, match_content): match_content.strip() (bytes.strip),
   then the answer of the first dialog whose question matches; Some None = "no answer in rulebook" *)
Fixpoint answer_for (ds : list dialog) (content : string) : option (option string) :=
  match ds with
  | [] => Some None
  | d :: r =>
    match msg_matches (dg_question d) (strip content) with
    | Some true => Some (Some (dg_answer d))
    | Some false => answer_for r content
    | None => None
    end
  end.

(* The `ignore:` messages of a rule are compiled by compile_messages into the same
   MakeMessageMatcher objects ([mk_matcher] / [msg_matches]); the list is stored in the rule
   (attrs["ignore"]) and never consulted by annet itself, so there is no further function to model. *)
