(* C14 — model of the shipped routing-policy generators
     annet/rpl_generators/{policy,community,prefix_lists,aspath,rd,cumulus_frr,entities}.py
   written by hand following the dispatch code.  No proofs here.

   A generator is modelled as the stream its run(device) yields: rows (token lists) with the
   block they are yielded in and the condition/action of the statement they belong to,
   ending either normally or with the exception class that stopped the stream
   ("lines yielded before the error").

   [fixes] selects, per repaired defect, between the behaviour of the unchanged tree
   ([faithful]) and of the tree with /verif/fixes/C14-*.patch applied ([patched]). *)
From Coq Require Import List String Ascii Bool Arith.
From Annet Require Import Base.Str.
Import ListNotations.
Open Scope string_scope.
Open Scope list_scope.

(* ------------------------------------------------------------------ data *)

Inductive vendor := Huawei | Arista | Cumulus.

Inductive ctype := BASIC | RT | SOO | LARGE.
Inductive clogic := LAND | LOR.
Record clist := CL { cl_name : string; cl_members : list string; cl_type : ctype;
                     cl_logic : clogic; cl_regex : bool }.
(* prefix as printed by the harness: address text, prefix length text *)
Record pmember := PM { pm_addr : string; pm_len : string; pm_ge : option nat; pm_le : option nat }.
Record plist := PL { pl_name : string; pl_v6 : bool; pl_members : list pmember }.
Record aspf := AF { af_name : string; af_filters : list string }.
Record rdf := RD { rd_name : string; rd_number : nat; rd_members : list string }.
Record env := Env { e_cl : list clist; e_pl : list plist; e_af : list aspf; e_rd : list rdf }.

Inductive op := EQ | GE | GT | LE | LT | BETWEEN | HAS | HAS_ANY | CUSTOM.
Inductive cfield := FCommunity | FLarge | FExtRt | FExtSoo.
Inductive sfield := FInterface | FProtocol | FNetLen | FLocalPref | FMetric | FFamily.

Inductive cond :=
| CComm (f : cfield) (o : op) (names : list string)
| CRd (o : op) (names : list string)
| CPrefix (v6 : bool) (names : list string) (ge le : option nat)
| CAsLen (o : op) (v1 v2 : string)
| CAsFilter (name : string)
| CSimple (f : sfield) (o : op) (v : string).

Inductive afield := AFCommunity | AFLarge | AFExt | AFExtRt | AFExtSoo.
Inductive atype := TSET | TADD | TREMOVE | TCUSTOM.
Inductive tfield := TLocalPref | TMetricType | TMplsLabel | TOrigin | TTag | TRpki | TResolution.
Inductive nhtarget := NHSelf | NHDiscard | NHPeer | NHv4 | NHv6 | NHMapped.

Inductive action :=
| AComm (f : afield) (replaced : option (list string)) (added removed : list string)
| AMetric (t : atype) (v : string)
| AAsPath (set : option (list string)) (prepend expand delete : list string) (last_as : string)
| ANextHop (t : nhtarget) (addr : string)
| ASimple (f : tfield) (t : atype) (v : string).

Inductive sresult := RAllow | RDeny | RNext | RNextPolicy.
Record stmt := St { s_number : option nat; s_result : sresult; s_match : list cond; s_then : list action }.
Record policy := Pol { p_name : string; p_stmts : list stmt }.
Record prog := Prog { g_env : env; g_policies : list policy }.

Inductive err := ENotImpl | ERuntime | EValue | EKey | EInvalid | EOther.

(* which repaired defects are present (true = repaired) *)
Record fixes := Fx {
  fx_hw_nexthop : bool;   (* huawei next_hop branch returns                      *)
  fx_hw_aspath : bool;    (* huawei as_path: expand/expand_last_as checked first *)
  fx_hw_ext : bool;       (* huawei extcommunity: SOO / remove checked first     *)
  fx_hw_extsoo : bool;    (* huawei extcommunity_soo: remove checked first       *)
  fx_ar_aspath : bool;    (* arista as_path: expand/delete checked first         *)
  fx_cu_validate : bool   (* cumulus as_path / large / rt / soo: checks first    *)
}.
Definition faithful : fixes := Fx false false false false false false.
Definition patched : fixes := Fx true true true true true true.

(* ------------------------------------------------------------------ helpers *)

Infix "+++" := String.append (at level 60, right associativity).

Definition digit (n : nat) : string := String (Ascii.ascii_of_nat (48 + n)) EmptyString.
Fixpoint nat_to_str_aux (fuel n : nat) (acc : string) : string :=
  match fuel with
  | O => acc
  | S f => let acc' := digit (Nat.modulo n 10) +++ acc in
           if Nat.ltb n 10 then acc' else nat_to_str_aux f (Nat.div n 10) acc'
  end.
Definition nat_to_str (n : nat) : string := nat_to_str_aux 12 n "".

Definition nonempty {A} (l : list A) : bool := match l with [] => false | _ => true end.
Definition str_nonempty (s : string) : bool := negb (is_empty s).
Definition mem (x : string) (l : list string) : bool := existsb (String.eqb x) l.

(* sorted(set(l)) on str *)
Fixpoint insert_sorted (x : string) (l : list string) : list string :=
  match l with
  | [] => [x]
  | y :: r => if String.eqb x y then l
              else if String.leb x y then x :: l else y :: insert_sorted x r
  end.
Definition sort_uniq (l : list string) : list string := fold_right insert_sorted [] l.

(* {x.name: x for x in lists}[n] : the LAST entity of that name wins *)
Definition find_cl (e : env) (n : string) : option clist :=
  find (fun c => String.eqb (cl_name c) n) (rev (e_cl e)).
Definition find_pl (e : env) (n : string) : option plist :=
  find (fun c => String.eqb (pl_name c) n) (rev (e_pl e)).
Definition find_af (e : env) (n : string) : option aspf :=
  find (fun c => String.eqb (af_name c) n) (rev (e_af e)).
Definition find_rd (e : env) (n : string) : option rdf :=
  find (fun c => String.eqb (rd_name c) n) (rev (e_rd e)).

(* str.upper() on the characters an address text can hold *)
Definition up_char (c : ascii) : ascii :=
  let n := Ascii.nat_of_ascii c in
  if Nat.leb 97 n && Nat.leb n 122 then Ascii.ascii_of_nat (n - 32) else c.
Fixpoint up_str (s : string) : string :=
  match s with EmptyString => EmptyString | String c r => String (up_char c) (up_str r) end.

(* [m for name in names for m in communities[name].members]  (a missing name: KeyError in the
   code, outside the well-formed domain; the model contributes nothing for it) *)
Definition members_of (e : env) (names : list string) : list string :=
  flat_map (fun n => match find_cl e n with Some c => cl_members c | None => [] end) names.

Definition ctype_eqb (a b : ctype) : bool :=
  match a, b with BASIC, BASIC | RT, RT | SOO, SOO | LARGE, LARGE => true | _, _ => false end.

(* entities.group_community_members: dict type -> members, in order of first appearance *)
Fixpoint group_add (t : ctype) (ms : list string) (g : list (ctype * list string)) :=
  match g with
  | [] => [(t, ms)]
  | (t', l) :: r => if ctype_eqb t t' then (t', l ++ ms) :: r else (t', l) :: group_add t ms r
  end.
Definition group_members (e : env) (names : list string) : list (ctype * list string) :=
  fold_left (fun g n => match find_cl e n with
                        | Some c => group_add (cl_type c) (cl_members c) g
                        | None => g end) names [].

(* entities.mangle_united_community_list_name *)
Definition mangle (names : list string) : string := join_with "_OR_" names.

(* PrefixListNameGenerator.get_prefix(...).name *)
Definition truthy (o : option nat) : bool := match o with Some (S _) => true | _ => false end.
Definition ostr (o : option nat) : string := match o with Some n => nat_to_str n | None => "unset" end.
Definition pfx_name (name : string) (ge le : option nat) : string :=
  if truthy ge || truthy le then name +++ "_" +++ ostr ge +++ "_" +++ ostr le else name.

(* ------------------------------------------------------------------ streams *)

Definition row := list string.
Definition out := (list row * option err)%type.
Definition yield (r : row) : out := ([r], None).
Definition yields (rs : list row) : out := (rs, None).
Definition raise (e : err) : out := ([], Some e).
Definition nothing : out := ([], None).
Definition oseq (a b : out) : out :=
  match snd a with Some _ => a | None => (fst a ++ fst b, snd b) end.
Infix ";;" := oseq (at level 61, left associativity).
Definition when (b : bool) (o : out) : out := if b then o else nothing.

Definition op_eqb (a b : op) : bool :=
  match a, b with
  | EQ, EQ | GE, GE | GT, GT | LE, LE | LT, LT | BETWEEN, BETWEEN | HAS, HAS | HAS_ANY, HAS_ANY
  | CUSTOM, CUSTOM => true
  | _, _ => false
  end.

Definition many {A} (l : list A) : bool := Nat.ltb 1 (List.length l).

(* ------------------------------------------------------------------ Huawei: policy.py *)

Definition hw_cond (e : env) (c : cond) : out :=
  match c with
  | CComm FCommunity o names =>
    match o with
    | HAS => if many names then raise ENotImpl
             else yields (map (fun n => ["if-match"; "community-filter"; n]) names)
    | HAS_ANY => yields (map (fun n => ["if-match"; "community-filter"; n]) names)
    | _ => raise ENotImpl
    end
  | CComm FLarge o names =>
    match o with
    | HAS_ANY => if many names then raise ENotImpl
                 else yields (map (fun n => ["if-match"; "large-community-filter"; n]) names)
    | HAS => yields (map (fun n => ["if-match"; "large-community-filter"; n]) names)
    | _ => raise ENotImpl
    end
  | CComm FExtRt o names =>
    let rows := map (fun n => match find_cl e n with
                              | Some (CL _ _ _ LAND _) => ["if-match"; "extcommunity-filter"; n; "matches-all"]
                              | _ => ["if-match"; "extcommunity-filter"; n]
                              end) names in
    match o with
    | HAS => if many names then raise ENotImpl else yields rows
    | HAS_ANY => yields rows
    | _ => raise ENotImpl
    end
  | CComm FExtSoo o names =>
    match o with
    | HAS_ANY => if many names then raise ENotImpl
                 else yields (map (fun n => ["if-match"; "extcommunity-list"; "soo"; n]) names)
    | HAS => yields (map (fun n => ["if-match"; "extcommunity-list"; "soo"; n]) names)
    | _ => raise ENotImpl
    end
  | CRd _ names =>
    if many names then raise ENotImpl else
    match names with
    | n :: _ => match find_rd e n with
                | Some r => yield ["if-match"; "rd-filter"; nat_to_str (rd_number r)]
                | None => raise EKey
                end
    | [] => raise EOther
    end
  | CPrefix false names ge le => yields (map (fun n => ["if-match"; "ip-prefix"; pfx_name n ge le]) names)
  | CPrefix true names ge le =>
    yields (map (fun n => ["if-match"; "ipv6"; "address"; "prefix-list"; pfx_name n ge le]) names)
  | CAsLen o v1 v2 =>
    match o with
    | EQ => yield ["if-match"; "as-path"; "length"; v1]
    | LE => yield ["if-match"; "as-path"; "length"; "less-equal"; v1]
    | GE => yield ["if-match"; "as-path"; "length"; "greater-equal"; v1]
    | BETWEEN => yield ["if-match"; "as-path"; "length"; "greater-equal"; v1; "less-equal"; v2]
    | _ => raise ENotImpl
    end
  | CAsFilter n => yield ["if-match"; "as-path-filter"; n]
  | CSimple f o v =>
    if negb (op_eqb o EQ) then raise ENotImpl else
    match f with
    | FMetric => yield ["if-match"; "cost"; v]
    | FProtocol => yield ["if-match"; "protocol"; v]
    | FInterface => yield ["if-match"; "interface"; v]
    | _ => raise ENotImpl
    end
  end.

Definition rt_members (ms : list string) : list string := flat_map (fun m => ["rt"; m]) ms.

(* _huawei_render_ext_community_members *)
Definition hw_render (t : ctype) (ms : list string) : list string + err :=
  match t with
  | SOO => inl ("soo" :: ms)
  | RT => inl (rt_members ms)
  | LARGE | BASIC => inr EValue
  end.

Fixpoint hw_ext_groups (set_mode : bool) (g : list (ctype * list string)) : out :=
  match g with
  | [] => nothing
  | (t, ms) :: r =>
    (if set_mode && ctype_eqb t SOO then raise ENotImpl else
     match hw_render t ms with
     | inl toks => yield (["apply"; "extcommunity"] ++ toks ++ (if set_mode then [] else ["additive"]))
     | inr er => raise er
     end) ;; hw_ext_groups set_mode r
  end.

Definition hw_action (fx : fixes) (e : env) (a : action) : out :=
  match a with
  | AComm AFCommunity replaced added removed =>
    (match replaced with
     | Some r => if nonempty added || nonempty removed then raise ENotImpl else
                 let m := members_of e r in
                 yield (if nonempty m then ["apply"; "community"] ++ m else ["apply"; "community"; "none"])
     | None => nothing
     end) ;;
    when (nonempty added) (yield (["apply"; "community"] ++ members_of e added ++ ["additive"])) ;;
    yields (map (fun n => ["apply"; "comm-filter"; n; "delete"]) removed)
  | AComm AFLarge replaced added removed =>
    (match replaced with
     | Some r => if nonempty added || nonempty removed then raise ENotImpl else
                 let m := members_of e r in
                 yield (if nonempty m then ["apply"; "large-community"] ++ m ++ ["overwrite"]
                        else ["apply"; "large-community"; "none"])
     | None => nothing
     end) ;;
    when (nonempty added) (yield (["apply"; "large-community"] ++ members_of e added ++ ["additive"])) ;;
    when (nonempty removed) (yield (["apply"; "large-community"] ++ members_of e removed ++ ["delete"]))
  | AComm AFExtRt replaced added removed =>
    (match replaced with Some _ => raise ENotImpl | None => nothing end) ;;
    when (nonempty added)
         (yield (["apply"; "extcommunity"] ++ rt_members (members_of e added) ++ ["additive"])) ;;
    yields (map (fun n => ["apply"; "extcommunity-filter"; "rt"; n; "delete"]) removed)
  | AComm AFExtSoo replaced added removed =>
    (match replaced with Some _ => raise ENotImpl | None => nothing end) ;;
    when (fx_hw_extsoo fx && nonempty removed) (raise ENotImpl) ;;
    when (nonempty added)
         (yield (["apply"; "extcommunity"] ++ rt_members (members_of e added) ++ ["additive"])) ;;
    when (nonempty removed) (raise ENotImpl)
  | AComm AFExt replaced added removed =>
    (match replaced with
     | Some r =>
       if nonempty added || nonempty removed then raise ENotImpl else
       if negb (nonempty r) then raise ENotImpl else
       let g := group_members e r in
       when (fx_hw_ext fx && existsb (fun p => ctype_eqb (fst p) SOO) g) (raise ENotImpl) ;;
       hw_ext_groups true g
     | None => nothing
     end) ;;
    when (fx_hw_ext fx && nonempty removed) (raise ENotImpl) ;;
    when (nonempty added) (hw_ext_groups false (group_members e added)) ;;
    when (nonempty removed) (raise ENotImpl)
  | AMetric t v =>
    match t with
    | TADD => yield ["apply"; "cost"; "+"; v]
    | TSET => yield ["apply"; "cost"; v]
    | _ => raise ENotImpl
    end
  | AAsPath set prepend expand delete last_as =>
    when (fx_hw_aspath fx && nonempty expand) (raise ERuntime) ;;
    when (fx_hw_aspath fx && str_nonempty last_as) (raise ERuntime) ;;
    (match set with
     | Some s => if nonempty prepend then raise ENotImpl else
                 yield (if nonempty s then ["apply"; "as-path"] ++ s ++ ["overwrite"]
                        else ["apply"; "as-path"; "none"; "overwrite"])
     | None => nothing
     end) ;;
    when (nonempty prepend) (yield (["apply"; "as-path"] ++ prepend ++ ["additive"])) ;;
    when (nonempty expand) (raise ERuntime) ;;
    yields (map (fun p => ["apply"; "as-path"; p; "delete"]) delete) ;;
    when (str_nonempty last_as) (raise ERuntime)
  | ANextHop t addr =>
    (match t with
     | NHSelf => yield ["apply"; "cost"; "1"]
     | NHDiscard | NHPeer => nothing
     | NHv4 => yield ["apply"; "ip-address"; "next-hop"; addr]
     | NHv6 => yield ["apply"; "ipv6"; "next-hop"; addr]
     | NHMapped => yield ["apply"; "ipv6"; "next-hop"; "::FFFF:" +++ addr]
     end) ;;
    (* no `return` after the branch: falls through to the generic SET-only dispatch with
       action.type = CUSTOM *)
    when (negb (fx_hw_nexthop fx)) (raise ENotImpl)
  | ASimple f t v =>
    match t with
    | TSET =>
      match f with
      | TLocalPref => yield ["apply"; "local-preference"; v]
      | TMetricType => yield ["apply"; "cost-type"; v]
      | TMplsLabel => yield ["apply"; "mpls-label"]
      | TOrigin => yield ["apply"; "origin"; v]
      | TTag => yield ["apply"; "tag"; v]
      | TRpki | TResolution => raise ENotImpl
      end
    | _ => raise ENotImpl
    end
  end.

Definition result_word (r : sresult) : option string :=
  match r with RAllow => Some "permit" | RDeny => Some "deny" | RNext => Some "permit" | RNextPolicy => None end.

(* ------------------------------------------------------------------ Arista: policy.py *)

Definition ar_match_comm (kind : string) (o : op) (names : list string) : out :=
  match o with
  | HAS_ANY => yield (["match"; kind; mangle names])
  | HAS => yield (["match"; kind] ++ names)
  | _ => raise ENotImpl
  end.

Definition ar_cond (e : env) (c : cond) : out :=
  match c with
  | CComm FCommunity o names => ar_match_comm "community" o names
  | CComm FLarge o names => ar_match_comm "large-community" o names
  | CComm FExtRt o names => ar_match_comm "extcommunity" o names
  | CComm FExtSoo o names => ar_match_comm "extcommunity" o names
  | CRd _ _ => raise ENotImpl      (* HAS/HAS_ANY is not EQ: generic dispatch refuses *)
  | CPrefix false names ge le =>
    yields (map (fun n => ["match"; "ip"; "address"; "prefix-list"; pfx_name n ge le]) names)
  | CPrefix true names ge le =>
    yields (map (fun n => ["match"; "ipv6"; "address"; "prefix-list"; pfx_name n ge le]) names)
  | CAsLen o v1 v2 =>
    match o with
    | EQ => yield ["match"; "as-path"; "length"; "="; v1]
    | LE => yield ["match"; "as-path"; "length"; "<="; v1]
    | GE => yield ["match"; "as-path"; "length"; ">="; v1]
    | BETWEEN => yields [["match"; "as-path"; "length"; ">="; v1]; ["match"; "as-path"; "length"; "<="; v2]]
    | _ => raise ENotImpl
    end
  | CAsFilter n => yield ["match"; "as-path"; n]
  | CSimple f o v =>
    if negb (op_eqb o EQ) then raise ENotImpl else
    match f with
    | FInterface => yield ["match"; "interface"; v]
    | FMetric => yield ["match"; "metric"; v]
    | FProtocol => yield ["match"; "source-protocol"; v]
    | _ => raise ENotImpl
    end
  end.

Definition well_known (m : string) : string := if String.eqb m "65535:0" then "GSHUT" else m.

(* _arista_render_ext_community_members, materialised with list(...) before anything is yielded *)
Fixpoint ar_render (e : env) (names : list string) : list string + err :=
  match names with
  | [] => inl []
  | n :: r =>
    match find_cl e n with
    | None => inr EKey
    | Some c =>
      match (match cl_type c with SOO => inl "soo" | RT => inl "rt" | _ => inr EValue end) with
      | inr er => inr er
      | inl t => match ar_render e r with
                 | inl rest => inl (flat_map (fun m => [t; m]) (cl_members c) ++ rest)
                 | inr er => inr er
                 end
      end
    end
  end.

Definition ar_ext_line (e : env) (names : list string) (suffix : list string) : out :=
  match ar_render e names with
  | inl ms => yield (["set"; "extcommunity"] ++ ms ++ suffix)
  | inr er => raise er
  end.

Definition ar_action (fx : fixes) (e : env) (a : action) : out :=
  match a with
  | AComm AFCommunity replaced added removed =>
    (match replaced with
     | Some r => if nonempty added || nonempty removed then raise ENotImpl else
                 yield (if nonempty r then ["set"; "community"; "community-list"] ++ r
                        else ["set"; "community"; "none"])
     | None => nothing
     end) ;;
    when (nonempty added) (yield (["set"; "community"; "community-list"] ++ added ++ ["additive"])) ;;
    when (nonempty removed)
         (yield (["set"; "community"] ++ map well_known (members_of e removed) ++ ["delete"]))
  | AComm AFLarge replaced added removed =>
    (match replaced with
     | Some r => if nonempty added || nonempty removed then raise ENotImpl else
                 when (negb (nonempty r)) (yield ["set"; "large-community"; "none"]) ;;
                 match r with
                 | [] => nothing
                 | n :: rest =>
                   yields (["set"; "large-community"; "large-community-list"; n]
                           :: map (fun x => ["set"; "large-community"; "large-community-list"; x; "additive"]) rest)
                 end
     | None => nothing
     end) ;;
    when (nonempty added)
         (yield (["set"; "large-community"; "large-community-list"] ++ added ++ ["additive"])) ;;
    when (nonempty removed)
         (yield (["set"; "large-community"; "large-community-list"] ++ removed ++ ["delete"]))
  | AComm AFExtRt replaced added removed =>
    (match replaced with Some _ => raise ENotImpl | None => nothing end) ;;
    (* sic: the `added` line is rendered from `removed` *)
    when (nonempty added)
         (yield (["set"; "extcommunity"] ++ rt_members (members_of e removed) ++ ["additive"])) ;;
    when (nonempty removed)
         (yield (["set"; "extcommunity"] ++ rt_members (members_of e removed) ++ ["delete"]))
  | AComm AFExtSoo replaced added removed =>
    (match replaced with Some _ => raise ENotImpl | None => nothing end) ;;
    when (nonempty added)
         (yield (["set"; "extcommunity"] ++ flat_map (fun m => ["soo"; m]) (members_of e removed) ++ ["additive"])) ;;
    when (nonempty removed)
         (yield (["set"; "extcommunity"] ++ flat_map (fun m => ["soo"; m]) (members_of e removed) ++ ["delete"]))
  | AComm AFExt replaced added removed =>
    match replaced with
    | Some r => if nonempty added || nonempty removed then raise ENotImpl else
                if negb (nonempty r) then yield ["set"; "extcommunity"; "none"]
                else ar_ext_line e r []
    | None =>
      when (nonempty added) (ar_ext_line e added ["additive"]) ;;
      when (nonempty removed) (ar_ext_line e removed ["delete"])
    end
  | AMetric t v =>
    match t with
    | TADD => yield ["set"; "metric"; "+"; v]
    | TREMOVE => yield ["set"; "metric"; "-"; v]
    | TSET => yield ["set"; "metric"; v]
    | TCUSTOM => raise ENotImpl
    end
  | AAsPath set prepend expand delete last_as =>
    when (fx_ar_aspath fx && nonempty expand) (raise ERuntime) ;;
    when (fx_ar_aspath fx && nonempty delete) (raise ERuntime) ;;
    (match set with
     | Some s => if nonempty prepend then raise ENotImpl else
                 yield (["set"; "as-path"; "match"; "all"; "replacement"] ++ (if nonempty s then s else ["none"]))
     | None => nothing
     end) ;;
    (let suffix := if str_nonempty last_as then ["last-as"; last_as] else [] in
     if nonempty prepend then yields (map (fun p => ["set"; "as-path"; "prepend"; p] ++ suffix) prepend)
     else yield (["set"; "as-path"; "prepend"] ++ suffix)) ;;
    when (nonempty expand) (raise ERuntime) ;;
    when (nonempty delete) (raise ERuntime)
  | ANextHop t addr =>
    match t with
    | NHSelf => yield ["set"; "cost"; "1"]
    | NHDiscard | NHPeer => nothing
    | NHv4 => yield ["set"; "ip"; "next-hop"; addr]
    | NHv6 => yield ["set"; "ipv6"; "next-hop"; addr]
    | NHMapped => yield ["set"; "ipv6"; "next-hop"; "::FFFF:" +++ addr]
    end
  | ASimple f t v =>
    match t with
    | TSET =>
      match f with
      | TLocalPref => yield ["set"; "local-preference"; v]
      | TOrigin => yield ["set"; "origin"; v]
      | TTag => yield ["set"; "tag"; v]
      | TMetricType => yield ["set"; "metric-type"; v]
      | TMplsLabel | TRpki | TResolution => raise ENotImpl
      end
    | _ => raise ENotImpl
    end
  end.

(* ------------------------------------------------------------------ Cumulus: cumulus_frr.py *)

Definition cu_comm_names (o : op) (names : list string) : list string :=
  match o with HAS_ANY => [mangle names] | _ => names end.

Definition cu_cond (e : env) (c : cond) : out :=
  match c with
  | CComm FCommunity o names => yields (map (fun n => ["match"; "community"; n]) (cu_comm_names o names))
  | CComm FLarge o names => yields (map (fun n => ["match"; "large-community-list"; n]) (cu_comm_names o names))
  | CComm FExtRt o names => yields (map (fun n => ["match"; "extcommunity"; n]) (cu_comm_names o names))
  | CComm FExtSoo o names => yields (map (fun n => ["match"; "extcommunity"; n]) (cu_comm_names o names))
  | CRd o _ => raise ENotImpl
  | CPrefix false names ge le =>
    yields (map (fun n => ["match"; "ip"; "address"; "prefix-list"; pfx_name n ge le]) names)
  | CPrefix true names ge le =>
    yields (map (fun n => ["match"; "ipv6"; "address"; "prefix-list"; pfx_name n ge le]) names)
  | CAsLen o _ _ => raise ENotImpl
  | CAsFilter n => yield ["match"; "as-path"; n]
  | CSimple f o v =>
    if negb (op_eqb o EQ) then raise ENotImpl else
    match f with
    | FMetric => yield ["match"; "metric"; v]
    | FProtocol => yield ["match"; "source-protocol"; v]
    | FInterface => yield ["match"; "interface"; v]
    | _ => raise ENotImpl
    end
  end.

Definition cu_type_str (t : ctype) : string + err :=
  match t with SOO => inl "soo" | RT => inl "rt" | _ => inr EValue end.

Fixpoint cu_ext_groups (g : list (ctype * list string)) : out :=
  match g with
  | [] => nothing
  | (t, ms) :: r =>
    (match cu_type_str t with
     | inl s => yield (["set"; "extcommunity"; s] ++ ms)
     | inr er => raise er
     end) ;; cu_ext_groups r
  end.

Definition cu_action (fx : fixes) (e : env) (a : action) : out :=
  match a with
  | AComm AFCommunity replaced added removed =>
    (match replaced with
     | Some r => if nonempty added || nonempty removed then raise ENotImpl else
                 let m := members_of e r in
                 yield (if nonempty m then ["set"; "community"] ++ m else ["set"; "community"; "none"])
     | None => nothing
     end) ;;
    when (nonempty added) (yield (["set"; "community"] ++ members_of e added ++ ["additive"])) ;;
    yields (map (fun n => ["set"; "comm-list"; n; "delete"]) removed)
  | AComm AFLarge replaced added removed =>
    (match replaced with Some _ => raise ENotImpl | None => nothing end) ;;
    when (fx_cu_validate fx && nonempty removed) (raise ENotImpl) ;;
    yields (map (fun n => ["set"; "large-community"; n; "additive"]) added) ;;
    when (nonempty removed) (raise ENotImpl)
  | AComm AFExtRt replaced added removed =>
    (match replaced with Some _ => raise ENotImpl | None => nothing end) ;;
    when (fx_cu_validate fx && nonempty removed) (raise ENotImpl) ;;
    yields (map (fun n => ["set"; "extcommunity"; "rt"; n; "additive"]) added) ;;
    when (nonempty removed) (raise ENotImpl)
  | AComm AFExtSoo replaced added removed =>
    (match replaced with Some _ => raise ENotImpl | None => nothing end) ;;
    when (fx_cu_validate fx && nonempty removed) (raise ENotImpl) ;;
    yields (map (fun n => ["set"; "extcommunity"; "soo"; n; "additive"]) added) ;;
    when (nonempty removed) (raise ENotImpl)
  | AComm AFExt replaced added removed =>
    match replaced with
    | Some r =>
      if nonempty added || nonempty removed then raise ENotImpl else
      if negb (nonempty r) then yield ["set"; "extcommunity"; "none"]
      else cu_ext_groups (group_members e r) ;;
           when (nonempty added) (raise ENotImpl) ;; when (nonempty removed) (raise ENotImpl)
    | None => when (nonempty added) (raise ENotImpl) ;; when (nonempty removed) (raise ENotImpl)
    end
  | AMetric t v =>
    match t with
    | TADD => yield ["set"; "metric"; "+" +++ v]
    | TREMOVE => yield ["set"; "metric"; "-" +++ v]
    | TSET => yield ["set"; "metric"; v]
    | TCUSTOM => raise ENotImpl
    end
  | AAsPath set prepend expand delete last_as =>
    when (fx_cu_validate fx && nonempty expand) (raise ENotImpl) ;;
    yields (map (fun p => ["set"; "as-path"; "prepend"; p]) prepend) ;;
    when (nonempty expand) (raise ENotImpl) ;;
    yields (map (fun p => ["set"; "as-path"; "exclude"; p]) delete) ;;
    (match set with
     | Some s => yields (["set"; "as-path"; "exclude"; "all"] :: map (fun p => ["set"; "as-path"; "prepend"; p]) s)
     | None => nothing
     end) ;;
    when (str_nonempty last_as) (yield ["set"; "as-path"; "prepend"; "last-as"; last_as])
  | ANextHop t addr =>
    match t with
    | NHSelf => yield ["set"; "metric"; "1"]
    | NHDiscard | NHPeer => nothing
    | NHv4 => yield ["set"; "ip"; "next-hop"; addr]
    | NHv6 => yield ["set"; "ipv6"; "next-hop"; addr]
    | NHMapped => yield ["set"; "ipv6"; "next-hop"; "::FFFF:{next_hop_action_value.addr}"]
    end
  | ASimple f t v =>
    match t with
    | TSET =>
      match f with
      | TLocalPref => yield ["set"; "local-preference"; v]
      | TMetricType => yield ["set"; "metric-type"; v]
      | TOrigin => yield ["set"; "origin"; v]
      | TTag => yield ["set"; "tag"; v]
      | TMplsLabel | TRpki | TResolution => raise ENotImpl
      end
    | _ => raise ENotImpl
    end
  end.

(* ------------------------------------------------------------------ per item, any vendor *)

Definition emit_cond (v : vendor) (e : env) (c : cond) : out :=
  match v with Huawei => hw_cond e c | Arista => ar_cond e c | Cumulus => cu_cond e c end.

Definition emit_action (fx : fixes) (v : vendor) (e : env) (a : action) : out :=
  match v with Huawei => hw_action fx e a | Arista => ar_action fx e a | Cumulus => cu_action fx e a end.

(* ------------------------------------------------------------------ tagged streams *)

Inductive kind := KStmt | KCond | KAct.
Record tag := Tag { t_pol : nat; t_stmt : nat; t_kind : kind; t_idx : nat }.
Record mrow := MR { r_path : list row; r_toks : row; r_hdr : bool; r_tag : option tag }.
Definition gerr := option (err * option tag).
Definition gout := (list mrow * gerr)%type.

Definition gseq (a b : gout) : gout :=
  match snd a with Some _ => a | None => (fst a ++ fst b, snd b) end.

Definition plain (o : out) : gout :=
  (map (fun r => MR [] r false None) (fst o),
   match snd o with Some er => Some (er, None) | None => None end).

Fixpoint emit_items {A} (emit : A -> out) (path : list row) (mk : nat -> tag) (i : nat) (l : list A) : gout :=
  match l with
  | [] => ([], None)
  | x :: r =>
    let o := emit x in
    let rows := map (fun t => MR path t false (Some (mk i))) (fst o) in
    match snd o with
    | Some er => (rows, Some (er, Some (mk i)))
    | None => gseq (rows, None) (emit_items emit path mk (S i) r)
    end
  end.

(* evaluation of the block()/yield arguments of a statement, before any row *)
Definition stmt_header (v : vendor) (pname : string) (st : stmt) : row + err :=
  match v with
  | Huawei =>
    match s_number st with
    | None => inr ERuntime
    | Some n => match result_word (s_result st) with
                | None => inr EKey
                | Some w => inl ["route-policy"; pname; w; "node"; nat_to_str n]
                end
    end
  | Arista =>
    match result_word (s_result st) with
    | None => inr EKey
    | Some w => match s_number st with
                | None => inr EInvalid
                | Some n => inl ["route-map"; pname; w; nat_to_str n]
                end
    end
  | Cumulus =>
    match s_number st with
    | None => inr ERuntime
    | Some n => match result_word (s_result st) with
                | None => inr EKey
                | Some w => inl ["route-map"; pname; w; nat_to_str n]
                end
    end
  end.

Definition next_row (v : vendor) : row :=
  match v with Huawei => ["goto"; "next-node"] | Arista => ["continue"] | Cumulus => ["on-match"; "next"] end.

Definition is_next (r : sresult) : bool := match r with RNext => true | _ => false end.

Definition emit_stmt (fx : fixes) (v : vendor) (e : env) (p s : nat) (pname : string) (st : stmt) : gout :=
  let stag := Tag p s KStmt 0 in
  match stmt_header v pname st with
  | inr er => ([], Some (er, Some stag))
  | inl hdr =>
    let is_block := match v with Cumulus => false | _ => true end in
    gseq ([MR [] hdr is_block (Some stag)], None)
   (gseq (emit_items (emit_cond v e) [hdr] (Tag p s KCond) 0 (s_match st))
   (gseq (emit_items (emit_action fx v e) [hdr] (Tag p s KAct) 0 (s_then st))
   (gseq ((if is_next (s_result st) then [MR [hdr] (next_row v) false (Some stag)] else []), None)
         ((match v with Cumulus => [MR [] ["!"] false None] | _ => [] end), None))))
  end.

(* statements of one policy; [seen] = numbers already applied (Cumulus refuses duplicates) *)
Fixpoint emit_stmts (fx : fixes) (v : vendor) (e : env) (p s : nat) (pname : string)
         (seen : list nat) (l : list stmt) : gout :=
  match l with
  | [] => ([], None)
  | st :: r =>
    let dup := match v, s_number st with
               | Cumulus, Some n => existsb (Nat.eqb n) seen
               | _, _ => false
               end in
    if dup then ([], Some (ERuntime, Some (Tag p s KStmt 0))) else
    gseq (emit_stmt fx v e p s pname st)
         (emit_stmts fx v e p (S s) pname
                     (match s_number st with Some n => n :: seen | None => seen end) r)
  end.

Fixpoint emit_policies (fx : fixes) (v : vendor) (e : env) (p : nat) (l : list policy) : gout :=
  match l with
  | [] => ([], None)
  | pol :: r => gseq (emit_stmts fx v e p 0 (p_name pol) [] (p_stmts pol))
                     (emit_policies fx v e (S p) r)
  end.

(* ------------------------------------------------------------------ used entities *)

Definition all_stmts (ps : list policy) : list stmt := flat_map p_stmts ps.

Definition cond_comm_names (c : cond) : list string :=
  match c with CComm _ _ names => names | _ => [] end.
(* the four ThenFields scanned by get_used_*community_lists: extcommunity is NOT among them *)
Definition act_comm_names (a : action) : list string :=
  match a with
  | AComm AFExt _ _ _ => []
  | AComm _ replaced added removed => (match replaced with Some r => r | None => [] end) ++ added ++ removed
  | _ => []
  end.

(* community.get_used_community_lists (Huawei) *)
Definition used_comm_names (ps : list policy) : list string :=
  sort_uniq (flat_map (fun st => flat_map cond_comm_names (s_match st) ++ flat_map act_comm_names (s_then st))
                      (all_stmts ps)).

(* community.get_used_united_community_lists (Arista, Cumulus): key -> member list names *)
Definition cond_unions (c : cond) : list (string * list string) :=
  match c with
  | CComm _ HAS_ANY names => if many names then [(mangle names, names)] else map (fun n => (n, [n])) names
  | CComm _ _ names => map (fun n => (n, [n])) names
  | _ => []
  end.
Definition stmt_unions (st : stmt) : list (string * list string) :=
  flat_map cond_unions (s_match st) ++
  map (fun n => (n, [n])) (flat_map act_comm_names (s_then st)).
Definition all_unions (ps : list policy) : list (string * list string) :=
  flat_map stmt_unions (all_stmts ps).
(* dict assignment: the last binding of a key wins *)
Definition union_of (us : list (string * list string)) (k : string) : list string :=
  match find (fun u => String.eqb (fst u) k) (rev us) with Some u => snd u | None => [] end.
Definition used_unions (ps : list policy) : list (string * list string) :=
  let us := all_unions ps in
  map (fun k => (k, union_of us k)) (sort_uniq (map fst us)).

(* HAS_ANY over several lists needs one type and one use_regex flag: ValueError while scanning *)
Definition cl_types_agree (e : env) (names : list string) : bool :=
  match names with
  | [] => true
  | n0 :: _ =>
    match find_cl e n0 with
    | None => true
    | Some c0 => forallb (fun n => match find_cl e n with
                                   | Some c => ctype_eqb (cl_type c0) (cl_type c) &&
                                               Bool.eqb (cl_regex c0) (cl_regex c)
                                   | None => true end) names
    end
  end.
Definition unions_ok (e : env) (ps : list policy) : bool :=
  forallb (fun st => forallb (fun c => match c with
                                       | CComm _ HAS_ANY names => negb (many names) || cl_types_agree e names
                                       | _ => true end) (s_match st)) (all_stmts ps).

Definition used_aspath_names (ps : list policy) : list string :=
  sort_uniq (flat_map (fun st => flat_map (fun c => match c with CAsFilter n => [n] | _ => [] end) (s_match st))
                      (all_stmts ps)).
Definition used_rd_names (ps : list policy) : list string :=
  sort_uniq (flat_map (fun st => flat_map (fun c => match c with CRd _ names => names | _ => [] end) (s_match st))
                      (all_stmts ps)).

(* prefix lists in the order the generators visit them: per statement the ip_prefix
   conditions first, then the ipv6_prefix ones; (v6, derived name, source name, ge, le) *)
Definition puse := (bool * string * string * option nat * option nat)%type.
Definition stmt_prefix_uses (st : stmt) : list puse :=
  flat_map (fun c => match c with
                     | CPrefix false names ge le => map (fun n => (false, pfx_name n ge le, n, ge, le)) names
                     | _ => [] end) (s_match st) ++
  flat_map (fun c => match c with
                     | CPrefix true names ge le => map (fun n => (true, pfx_name n ge le, n, ge, le)) names
                     | _ => [] end) (s_match st).
Fixpoint first_by_name (seen : list string) (l : list puse) : list puse :=
  match l with
  | [] => []
  | (v6, dn, n, ge, le) :: r =>
    if mem dn seen then first_by_name seen r else (v6, dn, n, ge, le) :: first_by_name (dn :: seen) r
  end.
Definition used_prefixes (ps : list policy) := first_by_name [] (flat_map stmt_prefix_uses (all_stmts ps)).

(* members of the derived list: override or_longer when the match carries one *)
Definition derived_members (e : env) (n : string) (ge le : option nat) : list pmember :=
  match find_pl e n with
  | None => []
  | Some pl =>
    if truthy ge || truthy le then map (fun m => PM (pm_addr m) (pm_len m) ge le) (pl_members pl)
    else pl_members pl
  end.

Fixpoint enumerate_from {A} (i : nat) (l : list A) : list (nat * A) :=
  match l with [] => [] | x :: r => (i, x) :: enumerate_from (S i) r end.

Definition ge_le (g l : string) (m : pmember) : list string :=
  (match pm_ge m with Some n => [g; nat_to_str n] | None => [] end) ++
  (match pm_le m with Some n => [l; nat_to_str n] | None => [] end).

(* ------------------------------------------------------------------ list generators *)

(* prefix_lists.py *)
Definition prefix_gen (v : vendor) (e : env) (ps : list policy) : gout :=
  (flat_map (fun u : puse =>
     match u with (v6, dn, n, ge, le) =>
       let ms := enumerate_from 0 (derived_members e n ge le) in
       match v with
       | Huawei =>
         map (fun im => MR [] (["ip"; (if v6 then "ipv6-prefix" else "ip-prefix"); dn; "index";
                                nat_to_str (fst im * 5 + 5); "permit"; up_str (pm_addr (snd im)); pm_len (snd im)]
                               ++ ge_le "greater-equal" "less-equal" (snd im)) false None) ms
       | Arista =>
         let hdr := [(if v6 then "ipv6" else "ip"); "prefix-list"; dn] in
         MR [] hdr true None ::
         map (fun im => MR [hdr] (["seq"; nat_to_str (fst im * 10 + 10); "permit";
                                   pm_addr (snd im) +++ "/" +++ pm_len (snd im)] ++ ge_le "ge" "le" (snd im))
                           false None) ms
       | Cumulus =>
         map (fun im => MR [] ([(if v6 then "ipv6" else "ip"); "prefix-list"; dn; "seq";
                                nat_to_str (fst im * 5 + 5); "permit";
                                pm_addr (snd im) +++ "/" +++ pm_len (snd im)] ++ ge_le "ge" "le" (snd im))
                           false None) ms
       end
     end) (used_prefixes ps), None).

(* community.py run_huawei *)
Definition hw_comm_head (t : ctype) : list string :=
  match t with
  | BASIC => ["ip"; "community-filter"]
  | RT => ["ip"; "extcommunity-filter"]
  | SOO => ["ip"; "extcommunity-list"; "soo"]
  | LARGE => ["ip"; "large-community-filter"]
  end.

Definition hw_comm_list (c : clist) : out :=
  if cl_regex c && many (cl_members c) then raise ENotImpl else
  let ms := match cl_type c with RT => map (fun m => "rt " +++ m) (cl_members c) | _ => cl_members c end in
  let mt := if cl_regex c then "advanced" else "basic" in
  let line (idx : nat) (members : list string) :=
      hw_comm_head (cl_type c) ++ [mt; cl_name c; "index"; nat_to_str idx; "permit"] ++ members in
  match cl_logic c with
  | LAND => yield (line 10 ms)
  | LOR => yields (map (fun im => line ((fst im + 1) * 10) [snd im]) (enumerate_from 0 ms))
  end.

Fixpoint out_seq (l : list out) : out :=
  match l with [] => nothing | o :: r => o ;; out_seq r end.

Definition hw_comm_gen (e : env) (ps : list policy) : gout :=
  plain (out_seq (map (fun n => match find_cl e n with
                                | Some c => hw_comm_list c
                                | None => raise EKey end) (used_comm_names ps))).

(* community.py run_arista *)
Definition ar_comm_head (t : ctype) : list string :=
  match t with
  | BASIC => ["ip"; "community-list"]
  | RT | SOO => ["ip"; "extcommunity-list"]
  | LARGE => ["ip"; "large-community-list"]
  end.
Definition ar_comm_prefix (c : clist) : string :=
  match cl_type c with
  | BASIC | LARGE => ""
  | RT => if cl_regex c then "RT:" else "rt "
  | SOO => if cl_regex c then "SoO:" else "soo "
  end.

Definition ar_comm_list (name : string) (c : clist) : out :=
  if cl_regex c && many (cl_members c) then raise ENotImpl else
  let line (members : list string) :=
      ar_comm_head (cl_type c) ++ (if cl_regex c then ["regexp"] else []) ++ [name; "permit"] ++ members in
  match cl_logic c with
  | LAND => yield (line (map (fun m => ar_comm_prefix c +++ well_known m) (cl_members c)))
  | LOR => yields (map (fun m => line [ar_comm_prefix c +++ m]) (cl_members c))
  end.

Definition lookup_all (e : env) (names : list string) : option (list clist) :=
  fold_right (fun n acc => match find_cl e n, acc with
                           | Some c, Some l => Some (c :: l)
                           | _, _ => None end) (Some []) names.

Definition ar_comm_gen (e : env) (ps : list policy) : gout :=
  if negb (unions_ok e ps) then ([], Some (EValue, None)) else
  plain (out_seq (map (fun u => match lookup_all e (snd u) with
                                | Some cs => out_seq (map (ar_comm_list (mangle (map cl_name cs))) cs)
                                | None => raise EKey end) (used_unions ps))).

(* cumulus_frr.py _cumulus_communities *)
Definition cu_comm_cmd (t : ctype) : list string * string :=
  match t with
  | BASIC => (["bgp"; "community-list"], "")
  | RT => (["bgp"; "extcommunity"], "rt ")
  | SOO => (["bgp"; "extcommunity"], "soo ")
  | LARGE => (["bgp"; "large-community-list"], "")
  end.

(* one list of a union; [k] = comm_number on entry; returns the rows and comm_number after *)
Definition cu_comm_list (name : string) (k : nat) (c : clist) : out * nat :=
  let '(cmd, pre) := cu_comm_cmd (cl_type c) in
  let line (seqn : nat) (member : string) :=
      cmd ++ [(if cl_regex c then "expanded" else "standard"); name; "seq"; nat_to_str seqn; "permit"; member] in
  match cl_logic c with
  | LAND =>
    if cl_regex c then
      if many (cl_members c) then (raise ENotImpl, k)
      else match cl_members c with
           | m :: _ => (yield (line ((k + 1) * 10) (pre +++ m)), S k)
           | [] => (raise EOther, k)
           end
    else (yield (line ((k + 1) * 10) (join_with " " (map (fun m => pre +++ m) (cl_members c)))), S k)
  | LOR =>
    (yields (map (fun im => line ((fst im + 1) * 10) (pre +++ snd im)) (enumerate_from k (cl_members c))),
     (* enumerate rebinds comm_number to the last index; then += 1 *)
     match cl_members c with [] => S k | _ => k + List.length (cl_members c) end)
  end.

Fixpoint cu_comm_union (name : string) (k : nat) (cs : list clist) : out :=
  match cs with
  | [] => nothing
  | c :: r => let '(o, k') := cu_comm_list name k c in o ;; cu_comm_union name k' r
  end.

Definition cu_comm_gen (e : env) (ps : list policy) : out :=
  if negb (unions_ok e ps) then raise EValue else
  let us := used_unions ps in
  if negb (nonempty us) then nothing else
  out_seq (map (fun u => match lookup_all e (snd u) with
                         | Some cs => cu_comm_union (mangle (map cl_name cs)) 0 cs
                         | None => raise EKey end) us) ;; yield ["!"].

(* aspath.py / cumulus *)
Definition aspath_value (a : aspf) : string :=
  "_" +++ join_with "_" (filter (fun x => negb (String.eqb x ".*")) (af_filters a)) +++ "_".
Definition aspath_gen (v : vendor) (e : env) (ps : list policy) : out :=
  out_seq (map (fun n => match find_af e n with
                         | Some a =>
                           match v with
                           | Huawei => yield ["ip"; "as-path-filter"; af_name a; "index"; "10"; "permit"; aspath_value a]
                           | _ => yield ["ip"; "as-path"; "access-list"; af_name a; "permit"; aspath_value a]
                           end
                         | None => raise EKey end) (used_aspath_names ps)).

(* rd.py (Huawei only) *)
Definition rd_gen (e : env) (ps : list policy) : out :=
  out_seq (map (fun n => match find_rd e n with
                         | Some r => yields (map (fun im => ["ip"; "rd-filter"; nat_to_str (rd_number r); "index";
                                                             nat_to_str ((fst im + 1) * 10 + 5); "permit"; snd im])
                                                 (enumerate_from 0 (rd_members r)))
                         | None => raise EKey end) (used_rd_names ps)).

(* ------------------------------------------------------------------ whole runs *)

Inductive gname := GPolicy | GPrefix | GCommunity | GAsPath | GRd | GFrr.

Definition run_all (fx : fixes) (v : vendor) (g : prog) : list (gname * gout) :=
  let e := g_env g in
  let ps := g_policies g in
  match v with
  | Huawei =>
    [(GPolicy, emit_policies fx Huawei e 0 ps); (GPrefix, prefix_gen Huawei e ps);
     (GCommunity, hw_comm_gen e ps); (GAsPath, plain (aspath_gen Huawei e ps)); (GRd, plain (rd_gen e ps))]
  | Arista =>
    [(GPolicy, emit_policies fx Arista e 0 ps); (GPrefix, prefix_gen Arista e ps);
     (GCommunity, ar_comm_gen e ps); (GAsPath, plain (aspath_gen Arista e ps))]
  | Cumulus =>
    (* generate_cumulus_rpl: as-path filters, communities, prefix lists + "!", policies *)
    [(GFrr, gseq (plain (aspath_gen Cumulus e ps))
            (gseq (plain (cu_comm_gen e ps))
            (gseq (prefix_gen Cumulus e ps)
            (gseq ([MR [] ["!"] false None], None)
                  (emit_policies fx Cumulus e 0 ps)))))]
  end.

(* ------------------------------------------------------------------ abstraction alpha *)

(* name spaces a policy row can refer into / a list row defines *)
Inductive ns := NsComm | NsLarge | NsExtRt | NsExtSoo | NsExt | NsPfx4 | NsPfx6 | NsAsPath | NsRd | NsPolicy.

(* command heads that carry names: (head tokens, name space, defines?, several names?) ;
   None = a head listed only to shadow a shorter one.  Longer heads first. *)
Definition hentry := (list string * option (ns * bool * bool))%type.

Definition table (v : vendor) : list hentry :=
  match v with
  | Huawei =>
    [ (["if-match"; "ipv6"; "address"; "prefix-list"], Some (NsPfx6, false, false));
      (["if-match"; "extcommunity-list"; "soo"], Some (NsExtSoo, false, false));
      (["apply"; "extcommunity-filter"; "rt"], Some (NsExtRt, false, false));
      (["if-match"; "community-filter"], Some (NsComm, false, false));
      (["if-match"; "large-community-filter"], Some (NsLarge, false, false));
      (["if-match"; "extcommunity-filter"], Some (NsExtRt, false, false));
      (["if-match"; "rd-filter"], Some (NsRd, false, false));
      (["if-match"; "ip-prefix"], Some (NsPfx4, false, false));
      (["if-match"; "as-path-filter"], Some (NsAsPath, false, false));
      (["apply"; "comm-filter"], Some (NsComm, false, false));
      (["ip"; "extcommunity-list"; "soo"; "basic"], Some (NsExtSoo, true, false));
      (["ip"; "extcommunity-list"; "soo"; "advanced"], Some (NsExtSoo, true, false));
      (["ip"; "community-filter"; "basic"], Some (NsComm, true, false));
      (["ip"; "community-filter"; "advanced"], Some (NsComm, true, false));
      (["ip"; "extcommunity-filter"; "basic"], Some (NsExtRt, true, false));
      (["ip"; "extcommunity-filter"; "advanced"], Some (NsExtRt, true, false));
      (["ip"; "large-community-filter"; "basic"], Some (NsLarge, true, false));
      (["ip"; "large-community-filter"; "advanced"], Some (NsLarge, true, false));
      (["ip"; "ip-prefix"], Some (NsPfx4, true, false));
      (["ip"; "ipv6-prefix"], Some (NsPfx6, true, false));
      (["ip"; "as-path-filter"], Some (NsAsPath, true, false));
      (["ip"; "rd-filter"], Some (NsRd, true, false));
      (["route-policy"], Some (NsPolicy, true, true)) ]
  | Arista =>
    [ (["match"; "ip"; "address"; "prefix-list"], Some (NsPfx4, false, false));
      (["match"; "ipv6"; "address"; "prefix-list"], Some (NsPfx6, false, false));
      (["match"; "as-path"; "length"], None);
      (["set"; "community"; "community-list"], Some (NsComm, false, true));
      (["set"; "large-community"; "large-community-list"], Some (NsLarge, false, true));
      (["match"; "community"], Some (NsComm, false, true));
      (["match"; "large-community"], Some (NsLarge, false, true));
      (["match"; "extcommunity"], Some (NsExt, false, true));
      (["match"; "as-path"], Some (NsAsPath, false, false));
      (["ip"; "community-list"; "regexp"], Some (NsComm, true, false));
      (["ip"; "extcommunity-list"; "regexp"], Some (NsExt, true, false));
      (["ip"; "large-community-list"; "regexp"], Some (NsLarge, true, false));
      (["ip"; "as-path"; "access-list"], Some (NsAsPath, true, false));
      (["ip"; "community-list"], Some (NsComm, true, false));
      (["ip"; "extcommunity-list"], Some (NsExt, true, false));
      (["ip"; "large-community-list"], Some (NsLarge, true, false));
      (["ip"; "prefix-list"], Some (NsPfx4, true, false));
      (["ipv6"; "prefix-list"], Some (NsPfx6, true, false));
      (["route-map"], Some (NsPolicy, true, true)) ]
  | Cumulus =>
    [ (["match"; "ip"; "address"; "prefix-list"], Some (NsPfx4, false, false));
      (["match"; "ipv6"; "address"; "prefix-list"], Some (NsPfx6, false, false));
      (["match"; "community"], Some (NsComm, false, false));
      (["match"; "large-community-list"], Some (NsLarge, false, false));
      (["match"; "extcommunity"], Some (NsExt, false, false));
      (["match"; "as-path"], Some (NsAsPath, false, false));
      (["set"; "comm-list"], Some (NsComm, false, false));
      (["bgp"; "community-list"; "standard"], Some (NsComm, true, false));
      (["bgp"; "community-list"; "expanded"], Some (NsComm, true, false));
      (["bgp"; "extcommunity"; "standard"], Some (NsExt, true, false));
      (["bgp"; "extcommunity"; "expanded"], Some (NsExt, true, false));
      (["bgp"; "large-community-list"; "standard"], Some (NsLarge, true, false));
      (["bgp"; "large-community-list"; "expanded"], Some (NsLarge, true, false));
      (["ip"; "as-path"; "access-list"], Some (NsAsPath, true, false));
      (["ip"; "prefix-list"], Some (NsPfx4, true, false));
      (["ipv6"; "prefix-list"], Some (NsPfx6, true, false));
      (["route-map"], Some (NsPolicy, true, true)) ]
  end.

Fixpoint strip_prefix (p l : list string) : option (list string) :=
  match p, l with
  | [], _ => Some l
  | x :: p', y :: l' => if String.eqb x y then strip_prefix p' l' else None
  | _ :: _, [] => None
  end.

Definition stop_words : list string := ["additive"; "delete"; "matches-all"].

Fixpoint lookup_head (t : list hentry) (toks : list string) : option (hentry * list string) :=
  match t with
  | [] => None
  | h :: r => match strip_prefix (fst h) toks with
              | Some rest => Some (h, rest)
              | None => lookup_head r toks
              end
  end.

Record arow := AR { a_head : list string; a_ns : option (ns * bool); a_names : list string }.

Definition alpha (v : vendor) (toks : list string) : arow :=
  match lookup_head (table v) toks with
  | Some ((h, Some (n, true, multi)), rest) =>      (* definition: the name is the next token *)
    AR h (Some (n, true)) (if multi then rest else firstn 1 rest)
  | Some ((h, Some (n, false, multi)), rest) =>
    let names := filter (fun w => negb (mem w stop_words)) rest in
    AR h (Some (n, false)) (if multi then names else firstn 1 names)
  | Some ((h, None), _) => AR h None []
  | None => AR (firstn 1 toks) None []
  end.

Definition refs (v : vendor) (rows : list row) : list (ns * string) :=
  flat_map (fun r => match alpha v r with
                     | AR _ (Some (n, false)) names => map (fun x => (n, x)) names
                     | _ => [] end) rows.
Definition defs (v : vendor) (rows : list row) : list (ns * string) :=
  flat_map (fun r => match alpha v r with
                     | AR _ (Some (n, true)) names => map (fun x => (n, x)) names
                     | _ => [] end) rows.
