(* make_patch of annlib/patching.py WITH its do_commit flag (Model/Patch.v is the do_commit=True
   case).  `annet deploy --dont-commit` builds the patch with do_commit=False
   (CliDeployerJob.parse_result -> _diff_and_patch(..., do_commit=not dont_commit)):

       if not do_commit and attrs.get("force_commit", False):
           continue                      # before the item is appended: its children are not built
       patch.append({... "children": make_patch(..., do_commit=do_commit) ...})

   A row yielded by the logic of a %force_commit rule is left out together with everything below
   it and with the `commit` row that would follow it, at every depth (the flag is handed down to
   the recursive call).  The logic function itself has already run (an AssertionError of the logic
   is still raised); the children of a skipped row are never turned into a patch (an
   AssertionError below a skipped row is not raised).  No proofs. *)
From Coq Require Import List String Ascii Bool Arith ZArith.
From Annet Require Import Base.Str Base.Tree Model.Pattern Model.Rulebook Model.Diff Model.Order
     Model.Patch Model.Blocks Model.Pipeline.
Import ListNotations.
Open Scope string_scope.
Open Scope list_scope.

Definition pt_item := (string * option ptree * skey)%type.
Definition cgroup := (string * attrs * list (list string * list citem))%type.
Definition cflat := (string * attrs * list string * list citem)%type.

Section MakePatchDC.
  Variable rmatch : string -> string -> option (list string).
  Variable rsrc : string -> string.
  Variable rrev : string -> string.
  Variable block_exit : string.
  Variable rreverse : string -> list string -> string.
  Variable dc : bool.                                   (* do_commit *)

  (* one (direct, row, sub_pre) yielded by the rule's logic *)
  Definition yield_step_dc (ordering : list orule) (raw : string) (a : attrs)
             (acc2 : option (list pt_item)) (y : bool * string * option (ckpre * bool)) : option (list pt_item) :=
    let '(direct, row, sub) := y in
    match acc2 with
    | None => None
    | Some out2 =>
      if negb dc && a_force_commit a then Some out2 else
      let '(order, odirect, ord') := get_order rmatch rsrc rrev block_exit ordering row direct (Some "patch") in
      let children :=
          match sub with
          | Some (ch, true) => ch ord'
          | _ => POk (PT [])
          end in
      match children with
      | PErr => None
      | POk ct =>
        let sk : skey := (match order with ZFin z => ZFin (if odirect then z else Z.opp z) | ZInf => ZInf end,
                          raw, odirect) in
        let leaf := (match pitems ct with [] => negb (a_parent a) | _ => false end) || negb direct in
        let it := if leaf then (row, None, sk) else (row, Some ct, sk) in
        Some (out2 ++ it :: (if a_force_commit a then [("commit", None, sk)] else []))
      end
    end.

  (* one (rule, key) slot *)
  Definition group_step_dc (ordering : list orule) (acc : option (list pt_item)) (e : cflat) : option (list pt_item) :=
    let '(raw, a, key, its) := e in
    match acc with
    | None => None
    | Some out =>
      match run_logic rreverse (a_pat a) key (a_logic a) its with
      | None => None
      | Some ys => fold_left (yield_step_dc ordering raw a) ys (Some out)
      end
    end.

  Definition flat_groups_dc (groups : list cgroup) : list cflat :=
    flat_map (fun g : cgroup => let '(raw, a, ks) := g in map (fun k => (raw, a, fst k, snd k)) ks) groups.

  Definition patch_level_dc (groups : list cgroup) (ordering : list orule) : presult :=
    match fold_left (group_step_dc ordering) (flat_groups_dc groups) (Some []) with
    | None => PErr
    | Some out => POk (PT (sort_items out))
    end.

  Definition close_item_dc (f : pre -> ckpre) (it : pitem) : citem :=
    let '(o, row, ch) := it in (o, row, f ch, match pgroups ch with [] => false | _ => true end).
  Definition close_groups_dc (f : pre -> ckpre) (groups : list pgroup) : list cgroup :=
    map (fun g : pgroup =>
           let '(raw, a, ks) := g in
           (raw, a, map (fun k : list string * list pitem => (fst k, map (close_item_dc f) (snd k))) ks))
        groups.

  Fixpoint make_patch_dc (p : pre) : list orule -> presult :=
    match p with
    | Pre groups =>
      patch_level_dc
        (map (fun g : pgroup =>
                let '(raw, a, ks) := g in
                (raw, a, map (fun k : list string * list pitem =>
                                (fst k, map (fun it : pitem =>
                                               let '(o, row, ch) := it in
                                               (o, row, make_patch_dc ch,
                                                match pgroups ch with [] => false | _ => true end)) (snd k))) ks))
             groups)
    end.
End MakePatchDC.

(* instantiated with the shared row-pattern compiler, as Model/Pipeline.v does for do_commit=True *)
Definition p_make_patch_dc (v : vendor) (dc : bool) (ordering : list orule) (p : pre) : presult :=
  make_patch_dc pm psrc (prev v) (v_exit v) (prreverse v) dc p ordering.

(* _diff_and_patch(dev, old, new, None, None, False, do_commit=dc, rb): the patch tree *)
Definition patch_of_dc (v : vendor) (dc : bool) (rs : rset) (ordering : list orule) (old new : forest) : presult :=
  p_make_patch_dc v dc ordering (make_pre (p_make_diff rs old new)).
