(* Model of annlib/patching.py: Orderer.get_order, Orderer.order_config, rule_weight,
   and the ordering rulebook of annlib/rbparser/ordering.py.  No proofs. *)
From Coq Require Import List String Ascii Bool Arith ZArith.
From Annet Require Import Base.Str Base.Tree.
Import ListNotations.
Open Scope string_scope.
Open Scope list_scope.

(* raw_rule, row pattern text, %order_reverse, %global, %scope, children *)
Inductive orule := ORule (raw pat : string) (orev glob : bool) (scope : option (list string)) (kids : list orule).
Definition o_raw (r : orule) := match r with ORule raw _ _ _ _ _ => raw end.
Definition o_pat (r : orule) := match r with ORule _ pat _ _ _ _ => pat end.
Definition o_rev (r : orule) := match r with ORule _ _ v _ _ _ => v end.
Definition o_glob (r : orule) := match r with ORule _ _ _ g _ _ => g end.
Definition o_scope (r : orule) := match r with ORule _ _ _ _ s _ => s end.
Definition o_kids (r : orule) := match r with ORule _ _ _ _ _ k => k end.

(* f_order: None, a rule index, or float("inf") for the block-exit word *)
Inductive ford := FNone | FFin (n : nat) | FInf.

(* the numeric component of a sort key: a finite integer or +inf *)
Inductive znum := ZFin (z : Z) | ZInf.
Definition znum_compare (a b : znum) : comparison :=
  match a, b with
  | ZFin x, ZFin y => Z.compare x y
  | ZFin _, ZInf => Lt
  | ZInf, ZFin _ => Gt
  | ZInf, ZInf => Eq
  end.

(* |set(row) ∩ set(pattern)|: number of distinct characters of row occurring in pat
   (the denominators len(row) are equal whenever two weights are compared) *)
Fixpoint str_mem (c : ascii) (s : string) : bool :=
  match s with EmptyString => false | String a r => Ascii.eqb a c || str_mem c r end.
Fixpoint shared_chars_aux (row pat seen : string) : nat :=
  match row with
  | EmptyString => 0
  | String c r =>
    if str_mem c seen then shared_chars_aux r pat seen
    else (if str_mem c pat then 1 else 0) + shared_chars_aux r pat (String c seen)
  end.
Definition shared_chars (row pat : string) : nat := shared_chars_aux row pat EmptyString.

(* odict(children): a later duplicate key replaces the value but keeps the first position *)
Fixpoint odict_of (l : list orule) (acc : list orule) : list orule :=
  match l with
  | [] => acc
  | r :: t =>
    odict_of t (if existsb (fun x => String.eqb (o_raw x) (o_raw r)) acc
                then map (fun x => if String.eqb (o_raw x) (o_raw r) then r else x) acc
                else acc ++ [r])
  end.

Section Orderer.
  Variable rmatch : string -> string -> option (list string).   (* pattern text -> row -> key *)
  Variable rsrc : string -> string.          (* pattern text -> source of the compiled regexp *)
  Variable rrev : string -> string.          (* pattern text -> pattern text of the reverse regexp *)
  Variable block_exit : string.              (* vendor exit word, "" if none *)

  Definition matches (pat row : string) : bool :=
    match rmatch pat row with Some _ => true | None => false end.

  Record gstate := GS { g_order : ford; g_weight : nat; g_direct : bool; g_children : list orule }.

  Definition in_scope (r : orule) (scope : option string) : bool :=
    match o_scope r with
    | None => true
    | Some l => match scope with
                | Some s => existsb (String.eqb s) l
                | None => false
                end
    end.

  Definition get_order_step (row : string) (scope : option string) (st : gstate) (ir : nat * orule) : gstate :=
    let '(order, r) := ir in
    if negb (in_scope r scope) then st else
    let ch := if o_glob r then g_children st ++ [r] else g_children st in
    let dm := matches (o_pat r) row in
    if negb (o_rev r) && (dm || matches (rrev (o_pat r)) row) then
      let w := shared_chars row (rsrc (if dm then o_pat r else rrev (o_pat r))) in
      let better := match g_order st with FNone => true | _ => Nat.ltb (g_weight st) w end in
      GS (if better then FFin order else g_order st) (if better then w else g_weight st)
         (g_direct st) (ch ++ o_kids r)
    else if o_rev r && negb (g_direct st) && dm then
      let w := shared_chars row (rsrc (o_pat r)) in
      let better := match g_order st with
                    | FNone => true
                    | _ => Nat.ltb (g_weight st) w || (Nat.eqb (g_weight st) w && negb (g_direct st))
                    end in
      if better then GS (FFin order) w true [] else GS (g_order st) (g_weight st) (g_direct st) []
    else if negb (is_empty block_exit) && String.eqb block_exit row then
      GS FInf (g_weight st) true []
    else GS (g_order st) (g_weight st) (g_direct st) ch.

  Fixpoint enumerate {A} (l : list A) (i : nat) : list (nat * A) :=
    match l with [] => [] | x :: t => (i, x) :: enumerate t (S i) end.

  (* returns ((f_order or 0), cmd_direct, odict(children)) *)
  Definition get_order (ordering : list orule) (row : string) (cmd_direct : bool) (scope : option string)
    : znum * bool * list orule :=
    let st := fold_left (get_order_step row scope) (enumerate ordering 0) (GS FNone 0 cmd_direct []) in
    (match g_order st with FNone => ZFin 0 | FFin n => ZFin (Z.of_nat n) | FInf => ZInf end,
     g_direct st, odict_of (g_children st) []).

  (* sort key of order_config: ((order if direct else -order), direct) *)
  Definition cfg_key (o : znum) (direct : bool) : znum * bool :=
    (match o with ZFin z => ZFin (if direct then z else Z.opp z) | ZInf => ZInf end, direct).

  Definition cfg_key_leb (a b : znum * bool) : bool :=
    match znum_compare (fst a) (fst b) with
    | Lt => true
    | Gt => false
    | Eq => implb (snd a) (snd b)
    end.

  Fixpoint insert_by {A} (leb : A -> A -> bool) (x : A) (l : list A) : list A :=
    match l with
    | [] => [x]
    | y :: t => if leb x y then x :: l else y :: insert_by leb x t
    end.
  (* stable insertion sort: equal keys keep their input order *)
  Definition stable_sort {A} (leb : A -> A -> bool) (l : list A) : list A :=
    fold_right (fun x acc => insert_by leb x acc) [] l.

  Variable reverse_prefix : string.

  Fixpoint order_config_t (ordering : list orule) (t : tree) {struct t} : tree :=
    match t with
    | T kids =>
      let items := (fix go (l : forest) : list ((znum * bool) * (string * tree)) :=
                      match l with
                      | [] => []
                      | (row, c) :: l' =>
                        let cmd_direct := negb (startswith reverse_prefix row) in
                        let '(o, direct, rb) := get_order ordering row cmd_direct None in
                        (cfg_key o direct, (row, order_config_t rb c)) :: go l'
                      end) kids in
      T (map snd (stable_sort (fun a b => cfg_key_leb (fst a) (fst b)) items))
    end.
  Definition order_config (ordering : list orule) (f : forest) : forest :=
    Tree.kids (order_config_t ordering (T f)).
End Orderer.
