(* Model of the file-based ("PC") device path of annet:
     annet/generators/__init__.py : run_file_generators, _run_entire_generator
     annet/generators/entire.py   : Entire.get_reload_cmds
     annet/generators/result.py   : RunGeneratorResult.add_entire, new_files
     annet/api/__init__.py        : PCDeployerJob.parse_result (ENTIRE part)
     annet/diff.py                : _diff_files, pc_diff, UnifiedFileDiffer._diff_text_file
   Python dicts are association lists in insertion order with unique keys.
   No proofs here. *)
From Coq Require Import List String Ascii Bool Arith ZArith.
From Annet Require Import Base.Str.
Import ListNotations.
Open Scope string_scope.
Open Scope list_scope.

(* ---------------------------------------------------------------- small helpers *)

Definition CR : string := String (Ascii.ascii_of_nat 13) EmptyString.
Definition LF : string := String nl EmptyString.
Definition VT : string := String (Ascii.ascii_of_nat 11) EmptyString.
Definition FF : string := String (Ascii.ascii_of_nat 12) EmptyString.

Definition is_nil {A} (l : list A) : bool := match l with [] => true | _ => false end.

Definition opt_str_eqb (a b : option string) : bool :=
  match a, b with
  | None, None => true
  | Some x, Some y => String.eqb x y
  | _, _ => false
  end.

Definition pair_str_eqb (a b : string * string) : bool :=
  String.eqb (fst a) (fst b) && String.eqb (snd a) (snd b).

(* dict.get on an association list *)
Fixpoint lookup {V} (k : string) (l : list (string * V)) : option V :=
  match l with
  | [] => None
  | (k', v) :: r => if String.eqb k' k then Some v else lookup k r
  end.

Definition keys {V} (l : list (string * V)) : list string := map fst l.

Fixpoint nodupb (l : list string) : bool :=
  match l with
  | [] => true
  | x :: r => negb (existsb (String.eqb x) r) && nodupb r
  end.

(* one direction of dict equality: every item of a is in b with the same value *)
Definition assoc_sub {V} (veqb : V -> V -> bool) (a b : list (string * V)) : bool :=
  forallb (fun e => match lookup (fst e) b with Some v => veqb (snd e) v | None => false end) a.

(* Python `dict == dict` (order of insertion is irrelevant); both sides must be dicts *)
Definition assoc_eqb {V} (veqb : V -> V -> bool) (a b : list (string * V)) : bool :=
  nodupb (keys a) && nodupb (keys b) && assoc_sub veqb a b && assoc_sub veqb b a.

(* ---------------------------------------------------------------- generators *)

(* what an Entire generator class answers for the device: path(), prio, __call__(), reload(),
   is_safe().  reload() returning None and "" are the same ("or ''"). *)
Record gen := Gen {
  g_path : string;
  g_prio : Z;
  g_out : string;
  g_reload : string;
  g_safe : bool
}.

Definition etckeeper_cmd : string := "/usr/bin/etckeeper commitreload ".

(* Entire.get_reload_cmds; etck = device.hw.PC and soft.startswith(("Cumulus","SwitchDev","SONiC")) *)
Definition reload_cmds (etck : bool) (path reload : string) : string :=
  if etck then
    (if is_empty reload then etckeeper_cmd ++ path else reload ++ LF ++ etckeeper_cmd ++ path)
  else reload.

(* GeneratorEntireResult of _run_entire_generator (same record, reload replaced by reload cmds) *)
Definition result_of (etck : bool) (g : gen) : gen :=
  Gen (g_path g) (g_prio g) (g_out g) (reload_cmds etck (g_path g) (g_reload g)) (g_safe g).

(* RunGeneratorResult.add_entire on entire_results (dict path -> result):
     if path not in results or result.prio > results[path].prio: results[path] = result
   assignment to an existing key keeps its position; on equal prio the earlier one stays. *)
Fixpoint add_entire (res : list gen) (r : gen) : list gen :=
  match res with
  | [] => [r]
  | e :: rest =>
    if String.eqb (g_path e) (g_path r)
    then (if Z.ltb (g_prio e) (g_prio r) then r :: rest else e :: rest)
    else e :: add_entire rest r
  end.

(* run_file_generators: generators whose path is empty do not support the device and are skipped *)
Definition run_step (etck : bool) (res : list gen) (g : gen) : list gen :=
  if is_empty (g_path g) then res else add_entire res (result_of etck g).

Definition run_file_generators (etck : bool) (gens : list gen) : list gen :=
  fold_left (run_step etck) gens [].

Definition nfiles := list (string * (string * string)).    (* path -> (output, reload) *)

Definition entry_of (r : gen) : string * (string * string) := (g_path r, (g_out r, g_reload r)).

(* RunGeneratorResult.new_files(safe) *)
Definition new_files (safe : bool) (res : list gen) : nfiles :=
  map entry_of (filter (fun r => negb safe || g_safe r) res).

(* ---------------------------------------------------------------- str.splitlines *)

(* ASCII line boundaries of str.splitlines: \n \r \r\n \v \f \x1c \x1d \x1e *)
Definition is_brk (c : ascii) : bool :=
  let n := Ascii.nat_of_ascii c in
  (Nat.leb 10 n && Nat.leb n 13) || (Nat.leb 28 n && Nat.leb n 30).
Definition is_cr (c : ascii) : bool := Nat.eqb (Ascii.nat_of_ascii c) 13.
Definition is_lf (c : ascii) : bool := Nat.eqb (Ascii.nat_of_ascii c) 10.

Fixpoint splitlines (s : string) : list string :=
  match s with
  | EmptyString => []
  | String c r =>
    if is_brk c then
      EmptyString ::
        match r with
        | String c2 r2 => if is_cr c && is_lf c2 then splitlines r2 else splitlines r
        | EmptyString => []
        end
    else
      match splitlines r with
      | [] => [String c EmptyString]
      | l :: ls => String c l :: ls
      end
  end.

(* old.splitlines() if old else []  (old may be None: file absent on the device) *)
Definition lines_of (o : option string) : list string :=
  match o with None => [] | Some s => splitlines s end.

(* ---------------------------------------------------------------- the file differ *)

(* FileDiffer.diff_file(hw, path, old, new) -> list of diff lines *)
Definition differ_t := string -> option string -> string -> list string.

(* difflib.unified_diff(a, b, lineterm=""): empty iff a == b; otherwise a header followed by
   hunks.  Only the header is modelled (the hunks are display text). *)
Definition udiff (a b : list string) : list string :=
  if list_str_eqb a b then [] else ["--- "; "+++ "].

(* UnifiedFileDiffer as it is in the repository: compares the splitlines() of both texts *)
Definition differ_lines : differ_t :=
  fun _ o n => udiff (lines_of o) (splitlines n).

(* UnifiedFileDiffer with the repair fixes/C19-*.patch: same, but when the line lists are equal
   and the contents are not (line terminators, final newline, absent vs empty file) the diff is
   computed on the lines with their terminators made visible, so it is not empty *)
Definition differ_exact : differ_t :=
  fun p o n =>
    match differ_lines p o n with
    | [] => if opt_str_eqb o (Some n) then [] else ["--- "; "+++ "]
    | d => d
    end.

(* ---------------------------------------------------------------- PCDeployerJob.parse_result *)

Inductive rmode := RNo | RYes | RForce.                 (* cli_args.EntireReloadFlag *)
Definition enable_reload (m : rmode) : bool := match m with RNo => false | _ => true end.
Definition force_reload (m : rmode) : bool := match m with RForce => true | _ => false end.
Definition rmode_eqb (a b : rmode) : bool :=
  match a, b with RNo, RNo | RYes, RYes | RForce, RForce => true | _, _ => false end.

Definition oldmap := list (string * option string).    (* OldNewResult.old_files *)

(* old_files.get(path): a missing key and a None value both give None *)
Definition old_get (old : oldmap) (p : string) : option string :=
  match lookup p old with Some (Some s) => Some s | _ => None end.

(* ---------------------------------------------------------------- whole observation *)

Record input := In_ {
  i_gens : list gen;        (* in listing order *)
  i_etck : bool;            (* device soft is Cumulus/SwitchDev/SONiC *)
  i_safe : bool;            (* args.acl_safe *)
  i_old : oldmap;
  i_mode : rmode
}.

Record output := Out {
  o_new : nfiles;                                                   (* new_files() *)
  o_new_safe : nfiles;                                              (* new_files(safe=True) *)
  o_deploy : option (list (string * string) * list (string * string));  (* files, cmds *)
  o_diff : list (string * bool)                                     (* pc_diff *)
}.


Section WithDiffer.
  Variable differ : differ_t.

  (* diff_content = "\n".join(differ.diff_file(hw, file, old_files.get(file), file_content));
     if diff_content or force_reload: ... *)
  Definition uploaded (m : rmode) (old : oldmap) (e : string * (string * string)) : bool :=
    negb (is_empty (join_with LF (differ (fst e) (old_get old (fst e)) (fst (snd e)))))
    || force_reload m.

  (* deploy_cmds[device] = {"files": upload_files, "cmds": reload_cmds, ...} — None when
     nothing is uploaded (no entry for the device).  The deploy driver stub contributes no
     before/after commands. *)
  Definition parse_result (m : rmode) (old : oldmap) (nf : nfiles)
    : option (list (string * string) * list (string * string)) :=
    let up := filter (uploaded m old) nf in
    if is_nil up then None
    else Some (map (fun e => (fst e, fst (snd e))) up,
               if enable_reload m then map (fun e => (fst e, snd (snd e))) up else []).

  (* pc_diff: the files with a non-empty list of diff lines (sorted by path in the code; compared
     as a dict here), with the "new file" flag of the label *)
  Definition pc_diff (old : oldmap) (nf : nfiles) : list (string * bool) :=
    map (fun e => (fst e, match old_get old (fst e) with None => true | Some _ => false end))
        (filter (fun e => negb (is_nil (differ (fst e) (old_get old (fst e)) (fst (snd e))))) nf).

  Definition model (x : input) : output :=
    let res := run_file_generators (i_etck x) (i_gens x) in
    let nf := new_files false res in
    let nfs := new_files true res in
    let sel := if i_safe x then nfs else nf in
    Out nf nfs (parse_result (i_mode x) (i_old x) sel) (pc_diff (i_old x) sel).
End WithDiffer.

Definition nf_eqb (a b : nfiles) : bool := assoc_eqb pair_str_eqb a b.
Definition ss_eqb (a b : list (string * string)) : bool := assoc_eqb String.eqb a b.
Definition sb_eqb (a b : list (string * bool)) : bool := assoc_eqb Bool.eqb a b.

Definition deploy_eqb (a b : option (list (string * string) * list (string * string))) : bool :=
  match a, b with
  | None, None => true
  | Some (f, c), Some (f', c') => ss_eqb f f' && ss_eqb c c'
  | _, _ => false
  end.

(* observational equality of two outcomes (all dicts compared as dicts) *)
Definition output_eqb (a b : output) : bool :=
  nf_eqb (o_new a) (o_new b) && nf_eqb (o_new_safe a) (o_new_safe b)
  && deploy_eqb (o_deploy a) (o_deploy b) && sb_eqb (o_diff a) (o_diff b).
