(* Model of the parts of annet.parallel around the pool protocol of Model/Pool.v (which keeps the task
   function [c_f] abstract).  No proofs here.

   1. invoke_retry(func, net_retry, id): what ONE task computes for an id out of the attempts of `func`.
          attempt = 0
          while True:
              try:    result = func(id); if inspect.isgenerator(result): result = list(result); return result
              except Exception as exc:
                  if not find_exc_in_stack(exc, (BrokenPipeError, ConnectionResetError)): raise
                  if attempt >= net_retry: raise
                  attempt += 1
      One invocation of func ([raw]) raises, returns a plain value, or returns a generator (the production
      workers are generator functions); the generator is consumed INSIDE the try, so an error raised while it
      is consumed is handled like an error of the call itself, and the payload is the list of yielded values.

   2. Parallel objects: every object owns its callback lists and its tunables (Parallel.__init__,
      add_callback, tune); a run of one object (single-process way of irun, with callbacks) and a sequence of
      operations on several objects of one process ([session]).

   Payloads are richer than Pool.val's numbers: a number, a list of numbers, or - what a correct pool never
   delivers - a generator object that nobody consumed ([PLazy]) / anything else ([POther]). *)
From Coq Require Import List Bool Arith.
From Annet Require Import Model.Pool.
Import ListNotations.

Inductive pay := PInt (v : nat) | PList (l : list nat) | PLazy | POther.
Inductive xval :=
| XOk (p : pay)
| XFail (e : nat)          (* the exception the task raised, by its code *)
| XFailOther.              (* a failure the task did not raise (e.g. raised by the pool machinery) *)
Definition xresult := (nat * xval)%type.

Inductive xoutcome :=
| XCompleted (d : list xresult)
| XRaised (i : nat) (d : list xresult)
| XOther (d : list xresult).

Definition pay_eqb (a b : pay) : bool :=
  match a, b with
  | PInt x, PInt y => Nat.eqb x y
  | PList x, PList y => list_eqb Nat.eqb x y
  | PLazy, PLazy => true
  | POther, POther => true
  | _, _ => false
  end.

Definition xval_eqb (a b : xval) : bool :=
  match a, b with
  | XOk p, XOk q => pay_eqb p q
  | XFail x, XFail y => Nat.eqb x y
  | XFailOther, XFailOther => true
  | _, _ => false
  end.

Definition is_xfail (x : xval) : bool := match x with XOk _ => false | _ => true end.

Definition xresult_eqb (a b : xresult) : bool := Nat.eqb (fst a) (fst b) && xval_eqb (snd a) (snd b).

Definition xoutcome_eqb (a b : xoutcome) : bool :=
  match a, b with
  | XCompleted x, XCompleted y => list_eqb xresult_eqb x y
  | XRaised i x, XRaised j y => Nat.eqb i j && list_eqb xresult_eqb x y
  | XOther x, XOther y => list_eqb xresult_eqb x y
  | _, _ => false
  end.

(* ------------------------------------------------------------------------------------------------ *)
(* invoke_retry *)

(* one invocation of the task function *)
Inductive raw :=
| RRaise (net : bool) (e : nat)       (* func(id) raised; net = find_exc_in_stack finds a BrokenPipeError /
                                         ConnectionResetError in the exception's context chain *)
| RRet (v : nat)                      (* func(id) returned a plain value *)
| RGen (items : list nat) (fin : option (bool * nat)).
                                      (* func(id) returned a generator: it yields [items] and then ends
                                         (None) or raises (Some (net, e)) *)

Inductive attempt := ANet (e : nat) | ADone (x : xval).

(* the body of the try: call, and consume the generator if it is one *)
Definition settle (r : raw) : attempt :=
  match r with
  | RRaise true e => ANet e
  | RRaise false e => ADone (XFail e)
  | RRet v => ADone (XOk (PInt v))
  | RGen items None => ADone (XOk (PList items))
  | RGen _ (Some (true, e)) => ANet e
  | RGen _ (Some (false, e)) => ADone (XFail e)
  end.

(* [att k] = what the k-th invocation does; [fuel] = retries left *)
Fixpoint retry_from (fuel k : nat) (att : nat -> raw) : xval :=
  match settle (att k) with
  | ADone x => x
  | ANet e =>
    match fuel with
    | O => XFail e
    | S fuel' => retry_from fuel' (S k) att
    end
  end.

Definition invoke_retry (net_retry : nat) (att : nat -> raw) : xval := retry_from net_retry 0 att.

(* a task: id -> attempt number -> what that invocation does *)
Definition xtask := nat -> nat -> raw.

(* the value the pool has to deliver for an id *)
Definition eff_f (net_retry : nat) (t : xtask) (i : nat) : xval := invoke_retry net_retry (t i).

(* ------------------------------------------------------------------------------------------------ *)
(* connection with Model/Pool.v: numbers-only payloads are a special case, and the protocol model is used
   with the success/failure shadow of the delivered value *)

Definition embed (v : val) : xval := match v with VOk n => XOk (PInt n) | VFail e => XFail e end.
Definition embed_r (r : result) : xresult := (fst r, embed (snd r)).
Definition embed_outcome (o : outcome) : xoutcome :=
  match o with
  | Completed d => XCompleted (map embed_r d)
  | Raised i d => XRaised i (map embed_r d)
  | Other d => XOther (map embed_r d)
  end.

Definition shadow (x : xval) : val := if is_xfail x then VFail 0 else VOk 0.
Definition shadow_r (r : xresult) : result := (fst r, shadow (snd r)).
Definition shadow_outcome (o : xoutcome) : outcome :=
  match o with
  | XCompleted d => Completed (map shadow_r d)
  | XRaised i d => Raised i (map shadow_r d)
  | XOther d => Other (map shadow_r d)
  end.

(* the results of a run of the protocol model, with the payload the workers computed ([g id]) *)
Definition lift_r (g : nat -> xval) (r : result) : xresult := (fst r, g (fst r)).
Definition lift_outcome (g : nat -> xval) (o : outcome) : xoutcome :=
  match o with
  | Completed d => XCompleted (map (lift_r g) d)
  | Raised i d => XRaised i (map (lift_r g) d)
  | Other d => XOther (map (lift_r g) d)
  end.

(* ------------------------------------------------------------------------------------------------ *)
(* callbacks *)

(* PoolProgressLogger-like: `self.table[task_result.device_id]` (KeyError if absent), returns the result.
   _cb_wrapper turns an exception of a callback into a failure result of that id. *)
Inductive cb := CbTable (tbl : list nat).

Definition cb_apply (c : cb) (r : xresult) : list xresult :=
  match c with
  | CbTable t => if existsb (Nat.eqb (fst r)) t then [r] else [(fst r, XFailOther)]
  end.

(* _run_callbacks: every callback maps each result to a list of results *)
Definition cbs_apply (cs : list cb) (r : xresult) : list xresult :=
  fold_left (fun rs c => flat_map (cb_apply c) rs) cs [r].

(* a Parallel object *)
Record pobj := PObj {
  o_thread_cbs : list cb;          (* in_thread_callbacks *)
  o_cbs : list cb;                 (* callbacks *)
  o_retry : nat                    (* net_retry *)
}.
Definition new_obj : pobj := PObj [] [] 3.

(* what the caller receives for one result: in-thread callbacks, then the others *)
Definition post_of (o : pobj) (r : xresult) : list xresult :=
  flat_map (cbs_apply (o_cbs o)) (cbs_apply (o_thread_cbs o) r).

(* single-process way of irun, with retry and callbacks: an exception of the task aborts (not
   tolerate_fails) before anything of that id is yielded *)
Fixpoint seq_run_x (tol : bool) (g : nat -> xval) (post : xresult -> list xresult) (ids : list nat) : xoutcome :=
  match ids with
  | [] => XCompleted []
  | i :: t =>
    if negb tol && is_xfail (g i) then XRaised i []
    else match seq_run_x tol g post t with
         | XCompleted d => XCompleted (post (i, g i) ++ d)
         | XRaised j d => XRaised j (post (i, g i) ++ d)
         | XOther d => XOther d
         end
  end.

Definition run_obj (o : pobj) (ids : list nat) (tol : bool) (t : xtask) : xoutcome :=
  seq_run_x tol (eff_f (o_retry o) t) (post_of o) ids.

(* operations of one process on its Parallel objects (an object is created on first use) *)
Inductive op :=
| OAdd (p : nat) (in_thread : bool) (c : cb)             (* objects[p].add_callback(c, in_thread) *)
| OTune (p : nat) (n : nat)                              (* objects[p].tune(net_retry=n) *)
| ORun (p : nat) (ids : list nat) (tol : bool) (t : xtask).   (* list(objects[p].irun(ids, tol)) *)

Definition op_obj (x : op) : nat :=
  match x with OAdd p _ _ | OTune p _ | ORun p _ _ _ => p end.

Definition store := nat -> pobj.
Definition new_store : store := fun _ => new_obj.
Definition set_obj (st : store) (p : nat) (o : pobj) : store := fun q => if Nat.eqb q p then o else st q.

(* the outcomes of the runs, tagged with the object that ran *)
Fixpoint session (st : store) (ops : list op) : list (nat * xoutcome) :=
  match ops with
  | [] => []
  | OAdd p true c :: t =>
    let o := st p in session (set_obj st p (PObj (o_thread_cbs o ++ [c]) (o_cbs o) (o_retry o))) t
  | OAdd p false c :: t =>
    let o := st p in session (set_obj st p (PObj (o_thread_cbs o) (o_cbs o ++ [c]) (o_retry o))) t
  | OTune p n :: t =>
    let o := st p in session (set_obj st p (PObj (o_thread_cbs o) (o_cbs o) n)) t
  | ORun p ids tol tk :: t => (p, run_obj (st p) ids tol tk) :: session st t
  end.

(* a callback that knows every id it is shown leaves the results alone *)
Definition cb_covers (ids : list nat) (c : cb) : bool :=
  match c with CbTable t => forallb (fun i => existsb (Nat.eqb i) t) ids end.
Definition obj_covers (ids : list nat) (o : pobj) : bool :=
  forallb (cb_covers ids) (o_thread_cbs o) && forallb (cb_covers ids) (o_cbs o).
