(* C10: the parse step of annet.generators._run_partial_generator with the device vendor's own
   formatter.split (parse_to_tree(text=output, splitter=fmtr.split)) for the plain-indentation formatter
   family of Model/Join.v: CommonFormatter.split (pc, optixtrans), split_remove_spaces (arista, aruba,
   b4com, nexus), the policy-end filters (huawei, h3c: strip().startswith; iosxr: endswith) and
   CiscoFormatter.split (re-indentation behind address-family rows).  No proofs here. *)
From Coq Require Import List String Ascii Bool Arith ZArith.
From Annet Require Import Base.Str Base.Tree Model.Offside Model.GenProg Gen.Src_vendors Model.Join.
Import ListNotations.
Open Scope string_scope.
Open Scope list_scope.

Definition run_noacl_sk (sk : splitk) (p : prog) : gres :=
  match gen_rows p with
  | inl EInvalid => GInvalid
  | inl ENoneWord => GNoneWord
  | inr rows =>
    match parse_lines gen_comments (split_plain sk (text_of_rows rows)) with
    | Ok f => GOk f
    | Err n row => GParse n row
    end
  end.

(* the split kind of a vendor of the regenerated vendor table; None = not a plain-family vendor *)
Definition vendor_splitk (name : string) : option splitk :=
  match find_vendor name with
  | Some v => match family v with Some (FPlain sk) => Some sk | _ => None end
  | None => None
  end.

Definition run_noacl_vendor (name : string) (p : prog) : option gres :=
  match vendor_splitk name with
  | Some sk => Some (run_noacl_sk sk p)
  | None => None
  end.

Definition opt_gres_eqb (a : option gres) (b : gres) : bool :=
  match a with Some x => gres_eqb x b | None => false end.

(* a line the vendor's split leaves alone *)
Definition line_neutral (sk : splitk) (l : string) : bool :=
  match sk with
  | SkCommon => true
  | SkSpaces => String.eqb (collapse_spaces l) l
  | SkStartswith ws => String.eqb (collapse_spaces l) l && negb (existsb (fun w => startswith w (strip l)) ws)
  | SkEndswith ws => String.eqb (collapse_spaces l) l && negb (existsb (fun w => ends_with w l) ws)
  | SkCisco bexit tbl =>
    String.eqb (collapse_spaces l) l && negb (String.eqb (strip l) bexit) &&
    negb (existsb (fun e : list string * string =>
                     existsb (fun p => startswith p (strip l)) (fst e) && negb (String.eqb (snd e) bexit)) tbl)
  end.
