(* Conservative extension of Model/Diff.v with what its header lists as "not modelled":
   (1) %ignore_case re-keying (annlib/rulebook/common.py: _ignore_case, called by base_diff)
   (2) %multiline rules (common.multiline_diff; the body of a multiline block is opaque).
   No proofs.  Model/Diff.v is untouched; with no flag set the functions below coincide with it
   (Proofs/DiffXProofs.v: normO_id, normN_id, diff_tM_coincides).

   The two new rule attributes are not part of [attrs] (shared); they are supplied as a function
   [fl : minfo -> xflags] of the governing rule (the harness passes a table keyed by raw_rule).

   (1) What the code does.  base_diff re-keys its two dictionaries: a row whose rule has
   ignore_case is replaced by row.lower() (only the dictionary key; children are re-keyed when their
   own level is compared) and diff_pre[row.lower()] = diff_pre[row] is recorded.  Consequences, all
   reproduced here:
     - the diff shows the LOWER-CASE spelling, neither old's nor new's;
     - a row spelled differently on the two sides is one row: present on both sides;
     - the rule match (key) it carries is the one recorded last: new's, unless new's spelling is
       already lower case (then the assignment is a no-op and old's stays) -- [win];
   The model is the normalisation [normO]/[normN] of the two annotated configurations followed by
   the unchanged Diff.diff_t.  It is faithful on the domain [xdom] (Spec/P_C03X.v): no two rows of a
   side collide after lowering, and a row spelled differently on the two sides has no known children.
   Outside it the code loses a row (collision) or raises KeyError (children); see Properties/C03X.v.

   The body of a multiline block is not re-keyed (it is never compared row by row).

   (2) multiline_diff: the rows of %multiline rules of a level form their own group (their
   diff_logic is multiline_diff unless %ordered / %rewrite is also given, in which case the flag has
   no effect on the diff); default_diff decides op and position of every row; a row whose (known)
   children are equal AS ORDERED TREES on both sides (absent = empty) is dropped; the children of an
   entry are the whole body of new (ADDED) -- or of old (REMOVED) for a removed row --, without rule
   matches. *)
From Coq Require Import List String Ascii Bool Arith.
From Annet Require Import Base.Str Base.Tree Model.Pattern Model.Rulebook Model.Diff.
Import ListNotations.
Open Scope string_scope.
Open Scope list_scope.

Record xflags := XF { xf_ic : bool; xf_ml : bool }.
Definition no_flags : xflags := XF false false.

(* flags table printed by the harness: raw_rule -> (ignore_case, multiline) *)
Fixpoint fl_of (tbl : list (string * (bool * bool))) (m : minfo) : xflags :=
  match tbl with
  | [] => no_flags
  | (raw, (i, l)) :: t => if String.eqb raw (mi_raw m) then XF i l else fl_of t m
  end.

Section X.
  Variable fl : minfo -> xflags.
  Definition ic (m : minfo) : bool := xf_ic (fl m).
  (* %multiline decides the diff logic only when neither %ordered nor %rewrite is given *)
  Definition ml (m : minfo) : bool :=
    xf_ml (fl m) && match mi_dlogic m with DDefault => true | _ => false end.

  (* ---------------------------------------------------------------- (1) ignore_case *)
  Definition low (m : minfo) (row : string) : string := if ic m then lower_str row else row.

  (* the entry of a side whose re-keyed row is [l]: original spelling, match, children *)
  Fixpoint find_low (l : string) (f : aforest) : option (string * minfo * atree) :=
    match f with
    | [] => None
    | (r, m, s) :: f' => if String.eqb (low m r) l then Some (r, m, s) else find_low l f'
    end.

  (* the match recorded last in diff_pre for a row spelled r1 in old and r2 in new *)
  Definition win (r1 : string) (m1 : minfo) (r2 : string) (m2 : minfo) : minfo :=
    if String.eqb r1 r2 then m2 else if String.eqb r2 (low m2 r2) then m1 else m2.

  (* the same seen from old's entry: with one spelling there is one diff_pre entry, old's own *)
  Definition winO (r1 : string) (m1 : minfo) (r2 : string) (m2 : minfo) : minfo :=
    if String.eqb r1 r2 then m1 else win r1 m1 r2 m2.

  (* new, normalised against old *)
  Fixpoint normN_t (ao : aforest) (nt : atree) {struct nt} : atree :=
    match nt with
    | AT nk =>
      AT ((fix go (l : aforest) : aforest :=
             match l with
             | [] => []
             | (r2, m2, s2) :: l' =>
               match find_low (low m2 r2) ao with
               | Some (r1, m1, s1) => (low m2 r2, win r1 m1 r2 m2, if ml m2 then s2 else normN_t (akids s1) s2)
               | None => (low m2 r2, m2, if ml m2 then s2 else normN_t [] s2)
               end :: go l'
             end) nk)
    end.
  Definition normN (ao an : aforest) : aforest := akids (normN_t ao (AT an)).

  (* old, normalised against new *)
  Fixpoint normO_t (an : aforest) (ot : atree) {struct ot} : atree :=
    match ot with
    | AT ok =>
      AT ((fix go (l : aforest) : aforest :=
             match l with
             | [] => []
             | (r1, m1, s1) :: l' =>
               match find_low (low m1 r1) an with
               | Some (r2, m2, s2) => (low m1 r1, winO r1 m1 r2 m2, if ml m1 then s1 else normO_t (akids s2) s1)
               | None => (low m1 r1, m1, if ml m1 then s1 else normO_t [] s1)
               end :: go l'
             end) ok)
    end.
  Definition normO (ao an : aforest) : aforest := akids (normO_t an (AT ao)).

  (* plain lowering of one side: what the diff describes ("old|R modulo case") *)
  Fixpoint lower_t (t : atree) : atree :=
    match t with
    | AT k => AT ((fix go (l : aforest) : aforest :=
                     match l with
                     | [] => []
                     | (r, m, s) :: l' => (low m r, m, if ml m then s else lower_t s) :: go l'
                     end) k)
    end.
  Definition lower_f (f : aforest) : aforest := akids (lower_t (AT f)).

  (* ---------------------------------------------------------------- (2) multiline *)
  Definition mi_body : minfo := MI "" [] (Attrs "" LDefault DDefault false false).

  (* process_multiline(op, tree) *)
  Fixpoint body (o : op) (t : tree) : list dnode :=
    match t with
    | T k => (fix go (l : forest) : list dnode :=
                match l with
                | [] => []
                | (r, c) :: l' => DN o r mi_body (body o c) :: go l'
                end) k
    end.

  (* the known children of a row as a plain ordered tree *)
  Definition plain (s : atree) : tree := erase s.

  Inductive xlogic := XL (d : dlogic) | XMulti.
  Definition xlogic_eqb (a b : xlogic) : bool :=
    match a, b with
    | XL x, XL y => dlogic_eqb x y
    | XMulti, XMulti => true
    | _, _ => false
    end.
  Definition mi_xlogic (m : minfo) : xlogic := if ml m then XMulti else XL (mi_dlogic m).

  Fixpoint uniq_xl (l : list xlogic) (seen : list xlogic) : list xlogic :=
    match l with
    | [] => []
    | x :: r => if existsb (xlogic_eqb x) seen then uniq_xl r seen else x :: uniq_xl r (x :: seen)
    end.

  (* everything below a removed row: call_diff_logic(subtree, old[row], {}, pops + (REMOVED,)), i.e. the same
     grouping with an empty new side; a removed multiline row keeps its body, one without children is dropped *)
  Fixpoint removed_tM (t : atree) : list dnode :=
    match t with
    | AT kids =>
      let all := (fix go (l : aforest) : list (xlogic * list dnode) :=
                    match l with
                    | [] => []
                    | (row, mi, sub) :: l' =>
                      (mi_xlogic mi,
                       if ml mi
                       then (if tree_eqb (plain sub) (T []) then [] else [DN Removed row mi (body Removed (plain sub))])
                       else [DN Removed row mi (removed_tM sub)]) :: go l'
                    end) kids in
      flat_map (fun L => flat_map snd (filter (fun x => xlogic_eqb (fst x) L) all))
               (uniq_xl (map fst all) [])
    end.

  Fixpoint removed_rowsM (l : aforest) (newrows : list string) (i : nat) : list (nat * dnode) :=
    match l with
    | [] => []
    | (row, mi, sub) :: l' =>
      if existsb (String.eqb row) newrows then removed_rowsM l' newrows (S i)
      else (i, DN Removed row mi (removed_tM sub)) :: removed_rowsM l' newrows (S i)
    end.

  Definition base_diffM (old_g : aforest) (pop : op) (inrw mta : bool) (new_g : list ckid) : list dnode :=
    interleave (scan_new old_g pop inrw mta new_g 0 false)
               (removed_rowsM old_g (map (fun k => fst (fst k)) new_g) 0) 0.

  Definition run_dlogicM (L : dlogic) (old_g : aforest) (new_g : list ckid) (pop : op) (inrw : bool) : list dnode :=
    match L with
    | DDefault => base_diffM old_g pop inrw true new_g
    | DOrdered => base_diffM old_g pop inrw false new_g
    | DRewrite =>
      let d := base_diffM old_g pop true false new_g in
      if inrw then d else if all_affected d then [] else aff_to_moved d
    end.

  (* a row of new at a level: row, match, its annotated children (for multiline) and the function
     computing its children's diff (as in Diff.ckid) *)
  Definition xkid := (string * minfo * atree * (aforest -> op -> bool -> list dnode))%type.
  Definition xk_row (k : xkid) := fst (fst (fst k)).
  Definition xk_mi (k : xkid) := snd (fst (fst k)).
  Definition xk_sub (k : xkid) := snd (fst k).
  Definition xk_ck (k : xkid) : ckid := (xk_row k, xk_mi k, snd k).

  Definition sub_of (row : string) (f : aforest) : tree :=
    match afind row f 0 with Some (_, s) => plain s | None => T [] end.
  Definition sub_of_x (row : string) (f : list xkid) : tree :=
    match find (fun k => String.eqb (xk_row k) row) f with Some k => plain (xk_sub k) | None => T [] end.

  (* multiline_diff on the group (old_g, new_g): default_diff decides op and position (the children it computes
     are discarded), rows with equal bodies are dropped, the others carry the whole body *)
  Definition multiline_diff (old_g : aforest) (new_g : list xkid) (pop : op) (inrw : bool) : list dnode :=
    flat_map (fun it =>
                match it with
                | DN o row mi _ =>
                  if tree_eqb (sub_of row old_g) (sub_of_x row new_g) then []
                  else if op_eqb o Removed then [DN o row mi (body Removed (sub_of row old_g))]
                       else [DN o row mi (body Added (sub_of_x row new_g))]
                end) (base_diffM old_g pop inrw true (map xk_ck new_g)).

  Definition run_xlogic (L : xlogic) (old_g : aforest) (new_g : list xkid) (pop : op) (inrw : bool) : list dnode :=
    match L with
    | XL D => run_dlogicM D old_g (map xk_ck new_g) pop inrw
    | XMulti => multiline_diff old_g new_g pop inrw
    end.

  Definition diff_levelM (old : aforest) (new : list xkid) (pop : op) (inrw : bool) : list dnode :=
    let xl_old := map (fun k => mi_xlogic (snd (fst k))) old in
    let xl_new := map (fun k : xkid => mi_xlogic (xk_mi k)) new in
    flat_map (fun L =>
                run_xlogic L (filter (fun k => xlogic_eqb (mi_xlogic (snd (fst k))) L) old)
                             (filter (fun k : xkid => xlogic_eqb (mi_xlogic (xk_mi k)) L) new) pop inrw)
             (uniq_xl (xl_old ++ xl_new) []).

  Fixpoint diff_tM (nt : atree) : aforest -> op -> bool -> list dnode :=
    match nt with
    | AT nkids =>
      let xk := (fix go (l : aforest) : list xkid :=
                   match l with
                   | [] => []
                   | (row, mi, sub) :: l' => (row, mi, sub, diff_tM sub) :: go l'
                   end) nkids in
      fun old pop inrw => diff_levelM old xk pop inrw
    end.

  Section MakeDiffX.
    Variable rmatch : string -> string -> option (list string).
    (* %ignore_case only: normalise, then the unchanged Diff.diff_t *)
    Definition make_diffX (rs : rset) (old new : forest) : list dnode :=
      let ao := annot_f rmatch rs old in
      let an := annot_f rmatch rs new in
      mark_unchanged (diff_t (AT (normN ao an)) (normO ao an) Affected false).
    (* %ignore_case and %multiline *)
    Definition make_diffXM (rs : rset) (old new : forest) : list dnode :=
      let ao := annot_f rmatch rs old in
      let an := annot_f rmatch rs new in
      mark_unchanged (diff_tM (AT (normN ao an)) (normO ao an) Affected false).
  End MakeDiffX.
End X.
