(* Model of the ACL TEXT front end:
     annet/annlib/rbparser/acl.py    : compile_acl_text, _PARAMS_SCHEME (validators)
     annet/annlib/rbparser/syntax.py : parse_text, _split_rows, _parse_tree_with_params,
                                       _parse_raw_rule, _fill_and_validate, _parse_context
     annet/annlib/tabparser.py       : parse_to_tree(text, _split_rows, ["#"])  (Model/Offside.v)
     valkit.common                   : valid_bool, valid_number(min=0, type=int), valid_string_list
   compile_acl_text = text -> rows (_split_rows: a line whose first non-blank character is a percent
   sign not followed by "context" continues the row before it) -> offside tree with "#" comments
   (Model/Offside.v: parse_lines) -> one item per tree node (_parse_raw_rule: Model/PatternT.v raw_row
   for the row, the scanner below for the %params, the validators) -> _merge_toplevel / _compile_acl
   (Model/Acl.v: compile_items).
   Domain: ASCII text whose blanks are space, \t..\r (as Model/PatternT.v); %prio values made of
   decimal digits (Python's int() also accepts a sign, inner underscores and non-ASCII digits: the model
   answers EValidator there); rule rows inside the rule language of Model/Pattern.v (re.compile of
   anything else may raise re.error, which is not modelled).  The vendor contributes the reverse
   prefix only, which the structural result (Model/Acl.v: aset) does not contain.
   No proofs in this file (Proofs/AclText*.v). *)
From Coq Require Import List String Ascii Bool Arith.
From Annet Require Import Base.Str Base.Tree Model.Offside Model.Pattern Model.PatternT Model.GenProg Model.Acl.
Import ListNotations.
Open Scope string_scope.
Open Scope list_scope.

(* ------------------------------------------------------------------------------ *)
(* syntax._split_rows: re.split of a newline not followed by blanks and a percent sign that does not
   start "%context"; the newlines left inside a row become blanks *)

Definition cont_line (rest : string) : bool :=
  let r := lstrip rest in startswith "%" r && negb (startswith "%context" r).

Fixpoint split_rows (s : string) : list string :=
  match s with
  | EmptyString => [EmptyString]
  | String a r =>
    if Ascii.eqb a nl && negb (cont_line r) then EmptyString :: split_rows r
    else let a' := if Ascii.eqb a nl then sp else a in
         match split_rows r with
         | [] => [String a' EmptyString]
         | h :: t => String a' h :: t
         end
  end.

(* tabparser.parse_to_tree(text, _split_rows, ["#"]) *)
Definition acl_comments : list string := ["#"].
Definition rb_parse (text : string) : result := parse_lines acl_comments (split_rows text).

(* ------------------------------------------------------------------------------ *)
(* the %params of one rule line: re.findall of the params regex of _parse_raw_rule (a blank, a percent
   sign, an identifier, optionally "=" and a run of non-blanks) as a scanner *)

Inductive pst :=
| PIdle (ws : bool)            (* outside a match; ws: the previous character was a blank *)
| PPct                         (* a blank and a percent sign were read *)
| PKey (k : string)            (* inside the identifier *)
| PVal (k v : string).         (* after "=": inside the value *)

Definition pflush (st : pst) : list (string * string) :=
  match st with PKey k => [(k, "")] | PVal k v => [(k, v)] | _ => [] end.

Definition pstep (st : pst) (c : ascii) : pst * list (string * string) :=
  match st with
  | PIdle ws => if ws && Ascii.eqb c "%" then (PPct, []) else (PIdle (is_ws c), [])
  | PPct => if ident_start c then (PKey (String c ""), []) else (PIdle (is_ws c), [])
  | PKey k => if is_wordc c then (PKey (k ++ String c ""), [])
              else if Ascii.eqb c "=" then (PVal k "", [])
              else (PIdle (is_ws c), [(k, "")])
  | PVal k v => if is_ws c then (PIdle true, [(k, v)]) else (PVal k (v ++ String c ""), [])
  end.

Fixpoint pscan (st : pst) (s : string) : list (string * string) :=
  match s with
  | EmptyString => pflush st
  | String c r => let '(st', out) := pstep st c in out ++ pscan st' r
  end.

Definition find_params (raw : string) : list (string * string) := pscan (PIdle false) raw.

(* the dict comprehension: the last occurrence of a key wins, an empty value reads "1" *)
Fixpoint plookup (k : string) (ps : list (string * string)) : option string :=
  match ps with
  | [] => None
  | (k', v) :: r =>
    match plookup k r with
    | Some x => Some x
    | None => if String.eqb k k' then Some (if is_empty v then "1" else v) else None
    end
  end.

(* ------------------------------------------------------------------------------ *)
(* validators *)

(* valkit valid_bool *)
Definition valid_bool (v : string) : option bool :=
  let l := lower_str v in
  if existsb (String.eqb l) ["1"; "true"; "yes"] then Some true
  else if existsb (String.eqb l) ["0"; "false"; "no"] then Some false
  else None.

(* list(filter(None, re.split("[,\t ]+", v))) *)
Definition is_delim (c : ascii) : bool := Ascii.eqb c "," || Ascii.eqb c tab || Ascii.eqb c sp.
Fixpoint split_list_aux (s cur : string) : list string :=
  match s with
  | EmptyString => if is_empty cur then [] else [cur]
  | String c r =>
    if is_delim c then (if is_empty cur then split_list_aux r EmptyString else cur :: split_list_aux r EmptyString)
    else split_list_aux r (cur ++ String c EmptyString)
  end.
Definition split_list (s : string) : list string := split_list_aux s EmptyString.

Fixpoint all_some {A} (l : list (option A)) : option (list A) :=
  match l with
  | [] => Some []
  | None :: _ => None
  | Some x :: r => match all_some r with Some t => Some (x :: t) | None => None end
  end.

(* acl.valid_bool_list *)
Definition valid_bool_list (v : string) : option (list bool) := all_some (map valid_bool (split_list v)).

(* valid_number(s, min=0, type=int) on strings of decimal digits *)
Definition digit_val (c : ascii) : nat := nat_of_ascii c - 48.
Fixpoint nat_of_digits (acc : nat) (s : string) : option nat :=
  match s with
  | EmptyString => Some acc
  | String c r => if is_digit c then nat_of_digits (acc * 10 + digit_val c) r else None
  end.
Definition valid_prio (v : string) : option nat :=
  match v with EmptyString => None | _ => nat_of_digits 0 v end.

(* ------------------------------------------------------------------------------ *)
(* one node of the parsed tree: syntax._parse_raw_rule + _fill_and_validate + the "!" / %context
   branches of _parse_tree_with_params *)

Inductive terr :=
| EParser (lineno : nat) (row : string)     (* tabparser.ParserError: Invalid top indention *)
| EValidator                                (* valkit ValidatorError *)
| EContext                                  (* ValueError from _parse_context *)
| ENotImpl.                                 (* NotImplementedError: ignore rule in an ACL *)

Inductive pline :=
| LErr (e : terr)
| LSkip                                     (* a bare "!" row, or a %context= row: no item *)
| LItem (row : string) (ign glob : bool) (cd : option (list bool)) (prio : nat) (gens : list string).

Definition context_kw : string := "%context=".

Fixpoint drop_str (n : nat) (s : string) : string :=
  match n, s with
  | O, _ => s
  | S n', String _ r => drop_str n' r
  | S _, EmptyString => EmptyString
  end.

(* the validated parameters of a line: global, cant_delete (None: default), prio, generator_names *)
Definition line_params (raw : string) : option (bool * option (list bool) * nat * list string) :=
  let ps := find_params raw in
  match (match plookup "global" ps with None => Some false | Some v => valid_bool v end) with
  | None => None
  | Some g =>
    match (match plookup "cant_delete" ps with
           | None => Some None
           | Some v => match valid_bool_list v with Some l => Some (Some l) | None => None end
           end) with
    | None => None
    | Some cd =>
      match (match plookup "prio" ps with None => Some 0 | Some v => valid_prio v end) with
      | None => None
      | Some p =>
        Some (g, cd, p, match plookup "generator_names" ps with None => [] | Some v => split_list v end)
      end
    end
  end.

Definition parse_line (raw : string) : pline :=
  match line_params raw with
  | None => LErr EValidator
  | Some (g, cd, p, gens) =>
    let row := raw_row raw in
    if startswith "!" row then
      let row' := strip (drop_str 1 row) in
      if is_empty row' then LSkip else LItem row' true g cd p gens
    else if startswith context_kw row then
      (if Nat.eqb (List.length (split_char ":" (strip (drop_str (String.length context_kw) row)))) 2
       then LSkip else LErr EContext)
    else LItem row false g cd p gens
  end.

(* _parse_tree_with_params: pre-order, the first exception wins; the children of a skipped row are
   not visited *)
Fixpoint items_of_tree (t : tree) : terr + list aitem :=
  match t with
  | T k =>
    (fix go (l : forest) : terr + list aitem :=
       match l with
       | [] => inr []
       | (raw, c) :: l' =>
         match parse_line raw with
         | LErr e => inl e
         | LSkip => go l'
         | LItem row ign glob cd prio gens =>
           match items_of_tree c with
           | inl e => inl e
           | inr kids =>
             match go l' with
             | inl e => inl e
             | inr r => inr (AItem raw row ign glob cd prio gens kids :: r)
             end
           end
         end
       end) k
  end.
Definition items_of_forest (f : forest) : terr + list aitem := items_of_tree (T f).

(* syntax.parse_text(text, _PARAMS_SCHEME) as a structured ACL: one item per tree node *)
Definition text_acl (text : string) : terr + acl :=
  match rb_parse text with
  | Err n row => inl (EParser n row)
  | Ok f => items_of_forest f
  end.

(* _compile_acl([tree], ...) on the items of one parsed text *)
Definition compile_parsed (x : acl) : terr + aset :=
  match compile_items (S (acl_depth x)) x with
  | None => inl ENotImpl
  | Some rs => inr rs
  end.

(* acl.compile_acl_text(text, vendor) *)
Definition compile_acl_text (text : string) (v : avendor) : terr + aset :=
  match text_acl text with
  | inl e => inl e
  | inr x => compile_parsed x
  end.

(* ------------------------------------------------------------------------------ *)
(* the printer of harness/aclgen.py: acl_text(items) — one line per item, four blanks per level,
   the children below their parent; the line of an item is its `raw` *)

Fixpoint item_lines (lvl : nat) (i : aitem) : list string :=
  match i with
  | AItem raw _ _ _ _ _ _ kids =>
    (spaces (4 * lvl) ++ raw)%string ::
    (fix go (l : list aitem) : list string :=
       match l with [] => [] | x :: t => item_lines (S lvl) x ++ go t end) kids
  end.
Definition acl_lines (lvl : nat) (a : acl) : list string := flat_map (item_lines lvl) a.
Definition acl_text (a : acl) : string := join_with nl_s (acl_lines 0 a).

(* aclgen.raw_rule(it): the line printed for an item *)
Definition bit_str (b : bool) : string := if b then "1" else "0".
Definition print_raw (pat : string) (ign glob : bool) (cd : option (list bool)) (cd_bare : bool)
           (prio : nat) (prio_explicit : bool) (gens : list string) (dec : nat -> string) : string :=
  ((if ign then "!" else "") ++ pat
   ++ (if glob then " %global" else "")
   ++ match cd with
      | None => ""
      | Some l => if cd_bare && blist_eqb l [true] then " %cant_delete"
                  else " %cant_delete=" ++ join_with "," (map bit_str l)
      end
   ++ (if negb (Nat.eqb prio 0) || prio_explicit then " %prio=" ++ dec prio else "")
   ++ match gens with [] => "" | _ => " %generator_names=" ++ join_with "," gens end)%string.

(* ------------------------------------------------------------------------------ *)
(* comparison of outcomes (correspondence run) *)

Definition terr_eqb (a b : terr) : bool :=
  match a, b with
  | EParser n r, EParser m q => Nat.eqb n m && String.eqb r q
  | EValidator, EValidator => true
  | EContext, EContext => true
  | ENotImpl, ENotImpl => true
  | _, _ => false
  end.

Definition tres_eqb (a b : terr + aset) : bool :=
  match a, b with
  | inl e, inl e' => terr_eqb e e'
  | inr x, inr y => aset_eqb x y
  | _, _ => false
  end.
