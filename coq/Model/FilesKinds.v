(* C19, generators that do not produce a result.
   Extension of Model/Files.v (which models generators that always render) by what
   annet/generators/__init__.py : run_file_generators / _run_entire_generator and
   annet/generators/entire.py : Entire.__call__ do with a generator that turns the device down:

     kind           real behaviour                                        effect on the run
     KOk            run() renders (possibly the empty text)                add_entire(result)
     KUnsupported   supports_device(device) is false (overridden, or       _run_entire_generator returns None:
                    path() gives None / raises NotSupportedDevice)         nothing is added
     KDeclines      run() raises NotSupportedDevice (at once or after      caught by run_file_generators:
                    having yielded lines)                                  nothing is added
     KNone          run() returns None                                     Entire.__call__ raises Exception:
                                                                           the whole run fails
   A generator with an empty path does not support the device whatever its kind
   (Entire.supports_device = bool(path)).
   No proofs here. *)
From Coq Require Import List String Ascii Bool Arith ZArith.
From Annet Require Import Base.Str Model.Files.
Import ListNotations.
Open Scope string_scope.
Open Scope list_scope.

Inductive kind := KOk | KUnsupported | KDeclines | KNone.

Record kgen := KGen { k_gen : gen; k_kind : kind }.

(* one iteration of the loop of run_file_generators; None = an exception left the loop *)
Definition k_step (etck : bool) (acc : option (list gen)) (k : kgen) : option (list gen) :=
  match acc with
  | None => None
  | Some res =>
    if is_empty (g_path (k_gen k)) then Some res else
    match k_kind k with
    | KOk => Some (add_entire res (result_of etck (k_gen k)))
    | KUnsupported => Some res
    | KDeclines => Some res
    | KNone => None
    end
  end.

Definition k_run_file_generators (etck : bool) (ks : list kgen) : option (list gen) :=
  fold_left (k_step etck) ks (Some []).

Record kinput := KIn {
  ki_gens : list kgen;      (* in listing order *)
  ki_etck : bool;
  ki_safe : bool;
  ki_old : oldmap;
  ki_mode : rmode
}.

(* the observation of Model.Files.model, or None when run_file_generators raised *)
Definition k_model (differ : differ_t) (x : kinput) : option output :=
  match k_run_file_generators (ki_etck x) (ki_gens x) with
  | None => None
  | Some res =>
    let nf := new_files false res in
    let nfs := new_files true res in
    let sel := if ki_safe x then nfs else nf in
    Some (Out nf nfs (parse_result differ (ki_mode x) (ki_old x) sel) (pc_diff differ (ki_old x) sel))
  end.

Definition koutput_eqb (a b : option output) : bool :=
  match a, b with
  | None, None => true
  | Some x, Some y => output_eqb x y
  | _, _ => false
  end.
