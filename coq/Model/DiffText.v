(* Model of the two textual views of a diff (C03):
     - CommonFormatter._diff_lines / diff (annlib/tabparser.py:85-131), the signed, indented listing
       shown in the deploy confirmation (annet/api/__init__.py) for every vendor formatter
       (the formatter contributes _indent, _block_begin, _block_end, _statement_end only);
     - annlib/diff.py:129-155 gen_pre_as_diff over patching.make_pre(diff) (Model/Patch.v),
       show_rules=False, no_color=True, the `annet diff` / file-diff view.
   No proofs. *)
From Coq Require Import List String Ascii Bool Arith.
From Annet Require Import Base.Str Base.Tree Model.Rulebook Model.Diff Model.Order Model.Patch.
Import ListNotations.
Open Scope string_scope.
Open Scope list_scope.

(* the four signs of annlib/diff.py: diff_ops / tabparser sign_map *)
Inductive sign := SAff | SMov | SRem | SAdd.
Definition sign_char (s : sign) : ascii :=
  match s with SAff => " "%char | SMov => ">"%char | SRem => "-"%char | SAdd => "+"%char end.
Definition sign_eqb (a b : sign) : bool :=
  match a, b with SAff, SAff | SMov, SMov | SRem, SRem | SAdd, SAdd => true | _, _ => false end.
(* Op.UNCHANGED has no sign: sign_map[flag] raises KeyError, gen_pre_as_diff skips the bucket *)
Definition op_sign (o : op) : option sign :=
  match o with Affected => Some SAff | Moved => Some SMov | Removed => Some SRem | Added => Some SAdd
          | Unchanged => None end.

(* what a signed listing denotes: entries with sign, row and nesting *)
Inductive snode := SN (s : sign) (row : string) (kids : list snode).
Definition s_sign (n : snode) := match n with SN s _ _ => s end.
Definition s_row (n : snode) := match n with SN _ r _ => r end.
Definition s_kids (n : snode) := match n with SN _ _ k => k end.

(* a diff without UNCHANGED entries, rule matches forgotten; None = some entry is UNCHANGED *)
Fixpoint shape_n (d : dnode) : option snode :=
  match d with
  | DN o row _ kids =>
    match op_sign o,
          (fix go (l : list dnode) : option (list snode) :=
             match l with
             | [] => Some []
             | x :: t => match shape_n x, go t with Some a, Some b => Some (a :: b) | _, _ => None end
             end) kids with
    | Some s, Some ks => Some (SN s row ks)
    | _, _ => None
    end
  end.
Fixpoint shape_f (d : list dnode) : option (list snode) :=
  match d with
  | [] => Some []
  | x :: t => match shape_n x, shape_f t with Some a, Some b => Some (a :: b) | _, _ => None end
  end.

(* the diff minus its UNCHANGED entries (and everything below them) *)
Fixpoint sshape_n (d : dnode) : list snode :=
  match d with
  | DN o row _ kids =>
    match op_sign o with
    | Some s => [SN s row (flat_map sshape_n kids)]
    | None => []
    end
  end.
Definition sshape_f (d : list dnode) : list snode := flat_map sshape_n d.

(* formatter parameters *)
Record tfmt := TFmt { tf_indent : string; tf_bb : string; tf_be : string; tf_se : string }.

(* "%s %s%s" % (sign, indent * level, text) *)
Definition sline (F : tfmt) (s : sign) (lvl : nat) (txt : string) : string :=
  String (sign_char s) (String " " (repeat_str (tf_indent F) lvl ++ txt)).

(* _diff_lines: the closing line of a block carries the sign of the block's row and its level *)
Fixpoint slines_n (F : tfmt) (lvl : nat) (d : snode) : list string :=
  match d with
  | SN s row kids =>
    match kids with
    | [] => [sline F s lvl (row ++ tf_se F)]
    | _ => sline F s lvl (row ++ tf_bb F) :: flat_map (slines_n F (S lvl)) kids ++
           (if is_empty (tf_be F) then [] else [sline F s lvl (tf_be F)])
    end
  end.
Definition slines (F : tfmt) (lvl : nat) (d : list snode) : list string := flat_map (slines_n F lvl) d.

(* formatter.diff(d); None = KeyError on an UNCHANGED entry *)
Definition diff_lines (F : tfmt) (d : list dnode) : option (list string) :=
  match shape_f d with Some s => Some (slines F 0 s) | None => None end.

(* ---------------------------------------------------------------- gen_pre_as_diff *)
Definition nl_s : string := String nl EmptyString.

(* "%s%s %s\n" % (ops_sign[op], indent * level, row) *)
Definition pre_line (ind : string) (s : sign) (lvl : nat) (row : string) : string :=
  String (sign_char s) (repeat_str ind lvl ++ String " " (row ++ nl_s)).

(* ops sorted by ops_order: AFFECTED, MOVED, REMOVED, ADDED *)
Definition pre_signs : list sign := [SAff; SMov; SRem; SAdd].
Definition has_sign (o : op) (s : sign) : bool :=
  match op_sign o with Some s' => sign_eqb s' s | None => false end.

(* the traversal of gen_pre_as_diff: rules in first-seen order, keys in first-seen order, per key the
   four signs in ops_order, items of a sign in insertion order; [item] says what an item contributes *)
Section PreWalk.
  Context {B : Type}.
  Variable item : sign -> string -> pre -> list B.
  Fixpoint il_walk (s : sign) (its : list pitem) : list B :=
    match its with
    | [] => []
    | (o, row, ch) :: its' => (if has_sign o s then item s row ch else []) ++ il_walk s its'
    end.
  Fixpoint kl_walk (ks : pkeys) : list B :=
    match ks with
    | [] => []
    | (_, its) :: ks' => flat_map (fun s => il_walk s its) pre_signs ++ kl_walk ks'
    end.
  Fixpoint gl_walk (gs : list pgroup) : list B :=
    match gs with
    | [] => []
    | (_, _, ks) :: gs' => kl_walk ks ++ gl_walk gs'
    end.
End PreWalk.

(* gen_pre_as_diff(pre, show_rules=False, indent, no_color=True, _level=lvl) *)
Fixpoint pre_lines (ind : string) (lvl : nat) (p : pre) {struct p} : list string :=
  match p with
  | Pre gs => gl_walk (fun s row ch => pre_line ind s lvl row :: pre_lines ind (S lvl) ch) gs
  end.

(* the entries gen_pre_as_diff prints, in its order *)
Fixpoint pre_shape (p : pre) {struct p} : list snode :=
  match p with
  | Pre gs => gl_walk (fun s row ch => [SN s row (pre_shape ch)]) gs
  end.

(* boolean equalities for the correspondence *)
Fixpoint snode_eqb (a b : snode) {struct a} : bool :=
  match a, b with
  | SN s r k, SN s' r' k' =>
    sign_eqb s s' && String.eqb r r' &&
    (fix go (l l' : list snode) {struct l} : bool :=
       match l, l' with
       | [], [] => true
       | x :: t, y :: t' => snode_eqb x y && go t t'
       | _, _ => false
       end) k k'
  end.
Fixpoint sforest_eqb (a b : list snode) : bool :=
  match a, b with
  | [], [] => true
  | x :: t, y :: t' => snode_eqb x y && sforest_eqb t t'
  | _, _ => false
  end.
