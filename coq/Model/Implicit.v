(* Model of annet/implicit.py (parse_text, compile_tree, config), of the part of
   annlib/rbparser/syntax.py it uses (_parse_tree_with_params with an empty scheme) and of
   the completion step of annet/gen.py
       old = merge_dicts(old, implicit.config(old, implicit_rules))
   (annlib/lib.py merge_dicts on two config trees).  No proofs.

   Which text _implicit_tree(device) selects for a piece of hardware is not modelled: the
   texts and the trees the real parser makes of them are regenerated into
   Gen/Src_implicit.v for one canonical device per branch condition.

   The row matcher is the shared rule-pattern compiler of Model/Pattern.v, used as
   Model/Pipeline.v uses it (rule_match pat false row).  Implicit rule rows also contain
   words that are one-word regular expressions without the `*/re/` marker
   (`Vlan*`, `mgmt[0-9]*`, `X?GigabitEthernet*`): compile_row_regexp leaves such a word as
   regex source followed by (?:\s|$), i.e. the word must be matched entirely by that regex.
   [widen] rewrites them to the equivalent `*/re/` token (the capture it adds is never
   looked at here); a word it cannot classify is left alone, rule_pat then fails and the
   rule is reported as unmodelled (fail closed). *)
From Coq Require Import List String Ascii Bool Arith.
From Annet Require Import Base.Str Base.Tree Model.Pattern Model.Offside.
Import ListNotations.
Open Scope string_scope.
Open Scope list_scope.

(* ------------------------------------------------------------------------------ *)
(* Rule trees                                                                      *)

(* what implicit.parse_text returns: odict raw_rule -> {row, type, children} *)
Inductive praw := PRaw (raw row : string) (ign : bool) (ks : list praw).
(* what implicit.compile_tree returns: odict row -> {type, children, regexp} *)
Inductive irule := IRule (row : string) (ign : bool) (ks : list irule).
Definition i_row (r : irule) := match r with IRule row _ _ => row end.
Definition i_ign (r : irule) := match r with IRule _ i _ => i end.
Definition i_kids (r : irule) := match r with IRule _ _ k => k end.

Definition has_percent (s : string) : bool := existsb (Ascii.eqb "%") (l_of s).
Definition drop1 (s : string) : string := match s with String _ r => r | EmptyString => EmptyString end.
(* re.sub(r"\s+", " ", raw_rule.strip()) *)
Definition norm_row (raw : string) : string := join_with " " (words raw).

(* syntax._parse_tree_with_params(raw_tree, {}): `!row` is a match-only (ignore) rule, a
   lone `!` is skipped with everything below it.  None: a raw rule carries `%` (parameters
   and %context are outside this model). *)
Fixpoint parse_rules_t (t : tree) : option (list praw) :=
  match t with
  | T ks =>
    (fix go (l : forest) : option (list praw) :=
       match l with
       | [] => Some []
       | (raw, c) :: l' =>
         if has_percent raw then None
         else
           let row0 := norm_row raw in
           match parse_rules_t c, go l' with
           | Some ck, Some rest =>
             if startswith "!" row0 then
               let row := strip (drop1 row0) in
               if is_empty row then Some rest else Some (PRaw raw row true ck :: rest)
             else Some (PRaw raw row0 false ck :: rest)
           | _, _ => None
           end
       end) ks
  end.
Definition parse_rules (f : forest) : option (list praw) := parse_rules_t (T f).

(* implicit.parse_text(text) = syntax.parse_text(text, {}): tabparser.parse_to_tree with the
   comment marker "#" (for a text without `%`, _split_rows is text.split("\n")) *)
Definition parse_text (text : string) : option (list praw) :=
  match Offside.parse_text ["#"] text with
  | Ok f => parse_rules f
  | Err _ _ => None
  end.

(* rules[attrs["row"]] = rule : first position, last value *)
Fixpoint rule_set (r : irule) (l : list irule) : list irule :=
  match l with
  | [] => [r]
  | x :: t => if String.eqb (i_row x) (i_row r) then r :: t else x :: rule_set r t
  end.
Definition rules_of (l : list irule) : list irule := fold_left (fun acc r => rule_set r acc) l [].

Fixpoint compile_one (p : praw) : irule :=
  match p with PRaw _ row ign ks => IRule row ign (rules_of (map compile_one ks)) end.
(* implicit.compile_tree *)
Definition compile_tree (l : list praw) : list irule := rules_of (map compile_one l).

(* ------------------------------------------------------------------------------ *)
(* implicit.config and merge_dicts                                                 *)

(* odict[k] = v *)
Fixpoint oset (k : string) (v : tree) (f : forest) : forest :=
  match f with
  | [] => [(k, v)]
  | (k', v') :: r => if String.eqb k' k then (k', v) :: r else (k', v') :: oset k v r
  end.
Definition odict_of (l : list (string * tree)) : forest :=
  fold_left (fun acc kv => oset (fst kv) (snd kv) acc) l [].
Definition has_key (k : string) (f : forest) : bool := existsb (String.eqb k) (keys f).
Fixpoint lookup (k : string) (f : forest) : option tree :=
  match f with
  | [] => None
  | (k', v) :: r => if String.eqb k' k then Some v else lookup k r
  end.

Section Config.
  (* rule["regexp"].match(line) is not None, as a function of the rule row and the line *)
  Variable rmatch : string -> string -> bool.

  (* the assignments implicit_config_tree[..] = .. performed for one rule, in order *)
  Fixpoint assigns (r : irule) (t : forest) {struct r} : list (string * tree) :=
    match r with
    | IRule row ign ks =>
      let mrow := rmatch row in           (* the compiled regexp of the rule, shared by all lines *)
      let matched := filter (fun kv : string * tree => mrow (fst kv)) t in
      (if negb ign && negb (existsb (fun kv : string * tree => negb (is_empty (fst kv))) matched)
          && negb (has_key row t)
       then [(row, T [])] else [])
      ++ map (fun kv : string * tree =>
                (fst kv,
                 T (odict_of ((fix go (l : list irule) : list (string * tree) :=
                                 match l with
                                 | [] => []
                                 | r' :: l' => assigns r' (kids (snd kv)) ++ go l'
                                 end) ks))))
             matched
    end.

  (* implicit.config(config_tree, rules) *)
  Definition config (rs : list irule) (t : forest) : forest :=
    odict_of (flat_map (fun r => assigns r t) rs).

  (* merge_dicts(a, b) for two config trees: keys of a in order (a key of both merged
     recursively), then the keys only b has.  (The shortcut `a == b -> a` returns the same
     value.) *)
  Fixpoint merge_t (a b : tree) {struct a} : tree :=
    match a with
    | T ka =>
      T ((fix go (l : forest) : forest :=
            match l with
            | [] => []
            | (k, v) :: l' =>
              (k, match lookup k (kids b) with Some vb => merge_t v vb | None => v end) :: go l'
            end) ka
         ++ filter (fun kv : string * tree => negb (has_key (fst kv) ka)) (kids b))
    end.
  Definition merge (a b : forest) : forest := kids (merge_t (T a) (T b)).

  (* gen.py: x = merge_dicts(x, implicit.config(x, implicit_rules)) *)
  Definition add_implicit (rs : list irule) (t : forest) : forest := merge t (config rs t).
End Config.

(* ------------------------------------------------------------------------------ *)
(* The matcher                                                                     *)

Definition forbidden_in_word : list string := ["<"; ">"; "~"; "|"; "*/"; "(?"; "..."; "^"; "$"].

Definition widen_word (w : string) : string :=
  match parse_tok w with
  | Some _ => w
  | None =>
    if existsb (fun f => lcontains (l_of f) (l_of w)) forbidden_in_word || startswith "*" w then w
    else "*/" ++ w ++ "/"
  end.
Definition widen (rule_row : string) : string := join_with " " (map widen_word (words rule_row)).

(* is the rule row inside the modelled language *)
Definition imodelled (rule_row : string) : bool :=
  String.eqb rule_row (norm_row rule_row) &&
  match rule_pat (widen rule_row) with Some _ => true | None => false end.

(* compile_row_regexp(rule_row).match(line) is not None.  This is
     fun line => rule_match (widen rule_row) false line <> None
   (Pipeline.pm on the widened row) with the pattern compiled before the line is known, so
   that one compilation serves all lines of a level (lemma imatch_rule_match). *)
Definition imatch (rule_row : string) : string -> bool :=
  let w := widen rule_row in
  match rule_pat w with
  | Some p => let ic := rule_ic w false in
              fun line => match pmatch p ic line with Some _ => true | None => false end
  | None => fun _ => false
  end.

Fixpoint rule_modelled (r : irule) : bool :=
  match r with
  | IRule row _ ks => imodelled row && forallb rule_modelled ks
  end.
Definition rules_modelled (rs : list irule) : bool := forallb rule_modelled rs.

(* the pipeline of gen.py for one side, from the parsed rule tree *)
Definition add_implicit_p (p : list praw) (t : forest) : forest := add_implicit imatch (compile_tree p) t.

(* boolean equalities for the correspondence *)
Fixpoint praw_eqb (a b : praw) {struct a} : bool :=
  match a, b with
  | PRaw ra wa ia ka, PRaw rb wb ib kb =>
    String.eqb ra rb && String.eqb wa wb && Bool.eqb ia ib &&
    (fix go (l m : list praw) {struct l} : bool :=
       match l, m with
       | [], [] => true
       | x :: l', y :: m' => praw_eqb x y && go l' m'
       | _, _ => false
       end) ka kb
  end.
Fixpoint praws_eqb (a b : list praw) : bool :=
  match a, b with
  | [], [] => true
  | x :: a', y :: b' => praw_eqb x y && praws_eqb a' b'
  | _, _ => false
  end.
