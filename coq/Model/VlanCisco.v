(* Model of the Cisco / Nexus global `vlan` rule with blocks (shipped cisco.rul / nexus.rul):
       vlan %logic=cisco.vlandb.simple
           name                                   (+ the global rules `description`, `~`)
   i.e. annet/rulebook/cisco/vlandb.py _process_vlandb / _parse_vlancfg_actions for rows WITH
   children: one rule slot holds the list rows (`vlan 1-10,20`) and the blocks (`vlan 5` +
   option rows); default_diff over the rows (same row text on both sides = AFFECTED / UNCHANGED),
   mark_unchanged, common.default on the option rows.
   The VLANs of the device are the union of all rows.  Commands: `vlan a,b-c` adds, `no vlan
   a,b-c` removes, entering a block `vlan N` creates VLAN N.
   No proofs here. *)
From Coq Require Import List String Ascii Bool Arith NArith.
From Annet Require Import Base.Str Model.Vlan Model.VlanDb.
Import ListNotations.
Open Scope string_scope.
Open Scope list_scope.

(* a row of the `vlan` rule: the written ranges and its child rows *)
Definition crow := (list range * list string)%type.
Definition ccfg := list crow.

Definition k_cvlan (catalyst : bool) : rulek := RK CiscoSimple "vlan" "no vlan" catalyst.

Definition c_lines (c : ccfg) : list line := map (fun r => (false, fst r)) c.

(* the VLAN set a configuration denotes *)
Definition set_of_ccfg (c : ccfg) : NS.t := set_of_lines (c_lines c).

(* the VLAN id of a row that names exactly one VLAN *)
Definition single_id (rs : list range) : option N :=
  match rs with
  | [(a, b)] => if N.eqb a b then Some a else None
  | _ => None
  end.

Fixpoint lookup_crow (rs : list range) (c : ccfg) : option (list string) :=
  match c with
  | [] => None
  | r :: t => if ranges_eqb (fst r) rs then Some (snd r) else lookup_crow rs t
  end.

Definition has_crow (rs : list range) (c : ccfg) : bool :=
  match lookup_crow rs c with Some _ => true | None => false end.

(* a parsed row: its set, its id when it names one VLAN, its child rows *)
Definition prow := (NS.t * option N * list string)%type.
Definition prow_set (r : prow) : NS.t := fst (fst r).
Definition prow_id (r : prow) : option N := snd (fst r).
Definition prow_kids (r : prow) : list string := snd r.

Definition prow_of (r : crow) : prow := (set_of_ranges (fst r), single_id (fst r), snd r).

Definition c_removed (old new : ccfg) : ccfg := filter (fun r => negb (has_crow (fst r) new)) old.
Definition c_added (old new : ccfg) : ccfg := filter (fun r => negb (has_crow (fst r) old)) new.

(* rows on both sides: (id, old child rows, new child rows) *)
Definition brow := (option N * list string * list string)%type.
Definition c_both (old new : ccfg) : list brow :=
  flat_map (fun r => match lookup_crow (fst r) old with
                     | Some ko => [(single_id (fst r), ko, snd r)]
                     | None => []
                     end) new.

(* ------------------------------------------------------------------------------------ *)
(* _process_vlandb(explicit_changing = False, multi_chunk = 15) *)

(* Op.AFFECTED: the block is entered with the patch of its option rows (UNCHANGED when the
   option rows are the same); a many-VLAN row with child rows is outside the model *)
Definition affected_cmd (a : brow) : option (list gcmd) :=
  match child_patch_g "no" (snd (fst a)) (snd a) with
  | None => None
  | Some [] => Some []
  | Some p => match fst (fst a) with Some n => Some [GEnter n p] | None => None end
  end.

(* _parse_vlancfg_actions: blocks = the rows with children; None = "vlandb block must contain
   one and only one vlanid" *)
Fixpoint blocks_of (rows : list prow) : option (list blk) :=
  match rows with
  | [] => Some []
  | r :: t =>
    match blocks_of t with
    | None => None
    | Some bs => if is_nil (prow_kids r) then Some bs
                 else match prow_id r with Some n => Some ((n, prow_kids r) :: bs) | None => None end
    end
  end.

Definition union_sets (rows : list prow) : NS.t :=
  fold_right (fun r s => NS.union (prow_set r) s) NS.empty rows.

(* "Удалено содержимое блока vlan, но сам влан остался": the block row is gone, its VLAN is on
   an ADDED row: enter the block and undo its option rows *)
Definition leftover_cmd (nbl : list blk) (A : NS.t) (b : blk) : option (list gcmd) :=
  if negb (has_blk (fst b) nbl) && NS.mem (fst b) A
  then option_map (fun p => [GEnter (fst b) p]) (child_patch_g "no" (snd b) [])
  else Some [].

Definition enter_cmd (b : blk) : option (list gcmd) :=
  option_map (fun p => [GEnter (fst b) p]) (child_patch_g "no" [] (snd b)).

Definition batch_cmds (catalyst : bool) (rem add : NS.t) : list cmd :=
  (if NS.is_empty rem then [] else map Remove (chunks_of CiscoSimple (collapse catalyst rem))) ++
  (if NS.is_empty add then [] else map Add (chunks_of CiscoSimple (collapse catalyst add))).

Definition cisco_core (catalyst : bool) (removed added : list prow) (both : list brow)
  : option (list gcmd) :=
  match opt_concat (map affected_cmd both), blocks_of added, blocks_of removed with
  | Some aff, Some nbl, Some obl =>
    let A := union_sets added in
    let R := union_sets removed in
    match opt_concat (map (leftover_cmd nbl A) obl), opt_concat (map enter_cmd nbl) with
    | Some lft, Some ent =>
      let rem := NS.diff R A in
      let add0 := NS.diff A R in
      (* hw.Catalyst: VLANs that come as blocks are not listed in the batch command *)
      let add := if catalyst then NS.diff add0 (ids_of nbl) else add0 in
      Some (aff ++ lft ++ map GBatch (batch_cmds catalyst rem add) ++ ent)
    | _, _ => None
    end
  | _, _, _ => None
  end.

(* structured level *)
Definition cisco_struct (catalyst : bool) (old new : ccfg) : option (list gcmd) :=
  cisco_core catalyst (map prow_of (c_removed old new)) (map prow_of (c_added old new)) (c_both old new).

(* ------------------------------------------------------------------------------------ *)
(* text level *)

Fixpoint all_opt {A} (l : list (option A)) : option (list A) :=
  match l with
  | [] => Some []
  | None :: _ => None
  | Some x :: r => match all_opt r with Some xs => Some (x :: xs) | None => None end
  end.

Definition print_crow (r : crow) : trow := (print_line (k_cvlan false) (false, fst r), snd r).
Definition print_ccfg (c : ccfg) : list trow := map print_crow c.

Definition print_cgcmd (catalyst : bool) (g : gcmd) : trow :=
  match g with
  | GBatch c => (print_cmd (k_cvlan catalyst) "vlan" "vlan" c, [])
  | GEnter n kids => (("vlan " ++ str_of_N n)%string, kids)
  | GUndo n => (("no vlan " ++ str_of_N n)%string, [])
  end.

Fixpoint lookup_trow (row : string) (rs : list trow) : option (list string) :=
  match rs with
  | [] => None
  | r :: t => if String.eqb (fst r) row then Some (snd r) else lookup_trow row t
  end.

Definition has_trow (row : string) (rs : list trow) : bool :=
  match lookup_trow row rs with Some _ => true | None => false end.

Definition set_id (s : NS.t) : option N := match NS.elements s with [n] => Some n | _ => None end.

(* _parse_vlancfg on a row of the `vlan` rule *)
Definition t_prow (r : trow) : option prow :=
  match cisco_parse_vlancfg (fst r) with
  | Some (p, s) => if String.eqb p "vlan" then Some (s, set_id s, snd r) else None
  | None => None
  end.

Definition t_both (old new : list trow) : option (list brow) :=
  all_opt (flat_map (fun r => match lookup_trow (fst r) old with
                              | Some ko => [option_map (fun p => (prow_id p, ko, snd r)) (t_prow r)]
                              | None => []
                              end) new).

Definition cisco_rows (catalyst : bool) (old new : list trow) : option (list trow) :=
  let removed := filter (fun r => negb (has_trow (fst r) new)) old in
  let added := filter (fun r => negb (has_trow (fst r) old)) new in
  match all_opt (map t_prow removed), all_opt (map t_prow added), t_both old new with
  | Some pr, Some pa, Some both => option_map (map (print_cgcmd catalyst)) (cisco_core catalyst pr pa both)
  | _, _, _ => None
  end.

(* reading emitted rows back as commands *)
Definition parse_cgcmd (r : trow) : option gcmd :=
  if is_nil (snd r) then option_map GBatch (parse_cmd (k_cvlan false) (fst r))
  else match words (fst r) with
       | [v; n] => if String.eqb v "vlan" && isdigit n then Some (GEnter (N_of_str n) (snd r)) else None
       | _ => None
       end.

Fixpoint parse_cgcmds (rows : list trow) : option (list gcmd) :=
  match rows with
  | [] => Some []
  | r :: rest => match parse_cgcmd r, parse_cgcmds rest with
                 | Some c, Some cs => Some (c :: cs)
                 | _, _ => None
                 end
  end.
