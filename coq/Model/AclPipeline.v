(* The patching pipeline with an ACL: what
     annet.api._diff_and_patch(dev, old, new, acl_rules, None, add_comments=False, rb=...)
   computes (annet/api/__init__.py:68-86):

     old' = patching.apply_acl(old, acl_rules)               lenient, not exclusive
     new' = patching.apply_acl(new, acl_rules)
     diff = patching.make_diff(old', new', rb, [acl_rules, None])
          = mark_unchanged(apply_acl_diff(call_diff_logic(apply_diff_rb(old', new', rb)), acl_rules))
     pre  = make_pre(diff);  patch = make_patch(pre, ...);  diff = strip_unchanged(diff)

   and annet/annlib/patching.py: apply_acl_diff (drops diff entries no ACL rule matches,
   REMOVED -> AFFECTED when all cant_delete flags of the governing rule are set).
   apply_acl / match_row_to_acl / compile_acl are Model/Acl.v, the rest Model/Pipeline.v.
   No proofs in this file (Proofs/AclPipelineProofs.v). *)
From Coq Require Import List String Ascii Bool Arith ZArith.
From Annet Require Import Base.Str Base.Tree Model.Pattern Model.Rulebook Model.Diff Model.Order
     Model.Patch Model.Blocks Model.Pipeline Model.Acl.
Import ListNotations.
Open Scope string_scope.
Open Scope list_scope.

(* all(match["attrs"]["cant_delete"]) — all([]) is True *)
Definition all_cd (m : amatch) : bool := forallb (fun b => b) (ar_cd (am_rule m)).

Section AclPipe.
  (* the ACL side: pattern text -> row -> key, source of the compiled regexp, reverse form
     of a pattern, row normalisation (Model/Acl.v, Section AclMatch) *)
  Variable amatch_ : string -> string -> option (list string).
  Variable asrc : string -> string.
  Variable arev : string -> string.
  Variable anorm : string -> string.
  (* the patching side (Model/Patch.v, Section MakePatch) *)
  Variable rmatch : string -> string -> option (list string).
  Variable rsrc : string -> string.
  Variable rrev : string -> string.
  Variable block_exit : string.
  Variable rreverse : string -> list string -> string.

  Definition acl_match (row : string) (rs : aset) : mres :=
    match_row_to_acl amatch_ asrc arev anorm row rs false.

  (* apply_acl_diff(diff, rules) *)
  Fixpoint apply_acl_diff_n (rs : aset) (d : dnode) {struct d} : list dnode :=
    match d with
    | DN o row mi kids =>
      match acl_match row rs with
      | MSome m crs =>
        [DN (if op_eqb o Removed && all_cd m then Affected else o) row mi
            (flat_map (apply_acl_diff_n crs) kids)]
      | _ => []
      end
    end.
  Definition apply_acl_diff (rs : aset) (d : list dnode) : list dnode :=
    flat_map (apply_acl_diff_n rs) d.

  (* apply_acl(config, rules): the lenient, non-exclusive mode never raises *)
  Definition acl_filter (rs : aset) (f : forest) : forest :=
    match apply_acl amatch_ asrc arev anorm rs false false [] f with
    | inl r => r
    | inr _ => []
    end.

  (* make_diff(old, new, rb, [acl_rules, None]) *)
  Definition acl_make_diff (ars : aset) (rs : rset) (old new : forest) : list dnode :=
    mark_unchanged (apply_acl_diff ars (raw_diff rmatch rs old new)).

  (* _diff_and_patch(dev, old, new, acl_rules, None, False, rb): (stripped diff, patch tree) *)
  Definition acl_diff_and_patch (ars : aset) (rs : rset) (ordering : list orule) (old new : forest)
    : list dnode * presult :=
    let d := acl_make_diff ars rs (acl_filter ars old) (acl_filter ars new) in
    (strip_unchanged d, make_patch rmatch rsrc rrev block_exit rreverse (make_pre d) ordering).
End AclPipe.

(* ------------------------------------------------------------------ instantiated *)

Definition p_acl_match (av : avendor) := acl_match acl_pm acl_psrc (acl_prev av) (acl_norm av).
Definition p_apply_acl_diff (av : avendor) := apply_acl_diff acl_pm acl_psrc (acl_prev av) (acl_norm av).
Definition p_acl_filter (av : avendor) := acl_filter acl_pm acl_psrc (acl_prev av) (acl_norm av).
Definition p_acl_make_diff (av : avendor) := acl_make_diff acl_pm acl_psrc (acl_prev av) (acl_norm av) pm.

Definition p_acl_diff_and_patch (v : vendor) (av : avendor) (ars : aset) (rs : rset) (ordering : list orule)
           (old new : forest) : list dnode * presult :=
  acl_diff_and_patch acl_pm acl_psrc (acl_prev av) (acl_norm av) pm psrc (prev v) (v_exit v) (prreverse v)
                     ars rs ordering old new.

(* the ACL vendor parameters of a pipeline vendor (juniper is not a block vendor) *)
Definition avendor_of (v : vendor) : avendor := AVendor (v_reverse v) false.

(* from the ACL text: None = compile_acl_text raised NotImplementedError (ignore rule) *)
Definition run_acl_pipeline (v : vendor) (av : avendor) (a : acl) (rs : rset) (ordering : list orule)
           (old new : forest) : option (list dnode * presult) :=
  match compile_acl a with
  | None => None
  | Some ars => Some (p_acl_diff_and_patch v av ars rs ordering old new)
  end.
