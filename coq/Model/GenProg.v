(* Model of annet.generators.base.TreeGenerator / partial.PartialGenerator.__call__ (how the
   rows a generator program yields become indented text), of the parse step of
   annet.generators._run_partial_generator, and of RunGeneratorResult.config_tree
   (annet.lib.merge_dicts).  The ACL steps live in GenAcl.v.  No proofs here.

   A generator program is the tree of what a `run` method does: yields, and
   `with self.block(...)`, `block_if`, `multiblock`, `multiblock_if` contexts around
   sub-programs. *)
From Coq Require Import List String Ascii Bool Arith.
From Annet Require Import Base.Str Base.Tree Model.Offside.
Import ListNotations.
Open Scope string_scope.
Open Scope list_scope.

(* ---------- programs ---------- *)

(* a block token / an element of a yielded tuple: str (ints, floats are their str()) or None *)
Inductive tok := TS (s : string) | TNone.

(* what a `yield` hands over *)
Inductive yval :=
| YS (s : string)            (* str (or int/float: its str()) *)
| YNone                      (* None *)
| YT (l : list yval)         (* tuple *)
| YL (l : list yval).        (* list *)

(* one argument of multiblock(): a list/tuple of tokens or a single token *)
Inductive mblk := MT (t : tok) | ML (l : list tok).

Inductive stmt :=
| Yield (v : yval)
| Block (toks : list tok) (indent : option nat) (body : list stmt)
| BlockIf (toks : list tok) (cond : option bool) (body : list stmt)
| MultiBlock (blocks : list mblk) (body : list stmt)
| MultiBlockIf (blocks : list mblk) (cond : option bool) (body : list stmt).

Definition prog := list stmt.

(* exceptions escaping PartialGenerator.__call__ (wrapped into GeneratorError by the runner) *)
Inductive gerr :=
| EInvalid        (* InvalidValueFromGenerator: _filter_str on None / a list *)
| ENoneWord.      (* assert re.search(r"\bNone\b", row) is None *)

Definition res := (gerr + list string)%type.

(* ---------- _filter_str, flatten ---------- *)

Definition filter_tok (t : tok) : gerr + string :=
  match t with TS s => inr s | TNone => inl EInvalid end.

Fixpoint map_err {A B E} (f : A -> E + B) (l : list A) : E + list B :=
  match l with
  | [] => inr []
  | x :: r => match f x with
              | inl e => inl e
              | inr y => match map_err f r with inl e => inl e | inr ys => inr (y :: ys) end
              end
  end.

(* " ".join(map(_filter_str, tokens)) *)
Definition join_toks (toks : list tok) : gerr + string :=
  match map_err filter_tok toks with
  | inl e => inl e
  | inr ws => inr (join_with " " ws)
  end.

(* annet.lib.flatten: str leaves and None stay, tuples and lists are opened *)
Fixpoint flatten (v : yval) : list tok :=
  match v with
  | YS s => [TS s]
  | YNone => [TNone]
  | YT l => (fix go (l : list yval) : list tok :=
               match l with [] => [] | x :: r => flatten x ++ go r end) l
  | YL l => (fix go (l : list yval) : list tok :=
               match l with [] => [] | x :: r => flatten x ++ go r end) l
  end.

(* the text handed to _append_text for one yield *)
Definition ytext (v : yval) : gerr + string :=
  match v with
  | YS s => inr s
  | YNone => inl EInvalid
  | YT _ => join_toks (flatten v)
  | YL _ => inl EInvalid            (* a list is not a tuple: _filter_str(list) raises *)
  end.

(* ---------- textwrap.dedent (CPython 3.12) and _split_and_strip ---------- *)

Definition nl_s : string := String nl EmptyString.

Definition is_sptab (c : ascii) : bool := Ascii.eqb c sp || Ascii.eqb c tab.

Fixpoint all_sptab (s : string) : bool :=
  match s with EmptyString => true | String c r => is_sptab c && all_sptab r end.

(* _whitespace_only_re.sub('', text): a line of blanks and tabs only becomes empty *)
Definition blank_line (l : string) : string := if all_sptab l then EmptyString else l.

Fixpoint lead_ws (s : string) : string :=
  match s with
  | String c r => if is_sptab c then String c (lead_ws r) else EmptyString
  | EmptyString => EmptyString
  end.

Fixpoint common_prefix (a b : string) : string :=
  match a, b with
  | String x a', String y b' => if Ascii.eqb x y then String x (common_prefix a' b') else EmptyString
  | _, _ => EmptyString
  end.

(* margin over the indents of the non-blank lines *)
Fixpoint margin_of (ls : list string) (m : option string) : option string :=
  match ls with
  | [] => m
  | l :: r =>
    if is_empty l then margin_of r m
    else margin_of r (Some (match m with None => lead_ws l | Some m' => common_prefix m' (lead_ws l) end))
  end.

Fixpoint drop (n : nat) (s : string) : string :=
  match n, s with
  | S n', String _ r => drop n' r
  | _, _ => s
  end.

Definition dedent (text : string) : string :=
  let ls := map blank_line (split_char nl text) in
  match margin_of ls None with
  | Some m =>
    if is_empty m then join_with nl_s ls
    else join_with nl_s (map (fun l => if startswith m l then drop (String.length m) l else l) ls)
  | None => join_with nl_s ls
  end.

Fixpoint has_nl (s : string) : bool :=
  match s with EmptyString => false | String c r => Ascii.eqb c nl || has_nl r end.

Definition split_and_strip (text : string) : list string :=
  if has_nl text then split_char nl (strip (dedent text)) else [text].

(* ---------- TreeGenerator: block contexts and _append_text ---------- *)

Definition spaces (n : nat) : string := repeat_str " " n.

Definition default_indent : nat := 2.

(* _append_text_cb: every row of the text behind "".join(self._indents) *)
Definition append_text (pre : string) (text : string) : list string :=
  map (fun row => (pre ++ row)%string) (split_and_strip text).

(* with self.block( *tokens, indent=...): BODY — body receives the new "".join(self._indents) *)
Definition with_block (pre : string) (toks : list tok) (indent : option nat)
           (body : string -> res) : res :=
  match join_toks toks with
  | inl e => inl e
  | inr b =>
    match body (pre ++ spaces (match indent with Some n => n | None => default_indent end))%string with
    | inl e => inl e
    | inr l => inr (append_text pre b ++ l)
    end
  end.

Definition tok_is_none (t : tok) : bool := match t with TNone => true | _ => false end.
Definition tok_is_empty (t : tok) : bool := match t with TS s => is_empty s | _ => false end.

(* block_if: condition defaults to (None not in tokens and "" not in tokens) *)
Definition block_if_cond (toks : list tok) (cond : option bool) : bool :=
  match cond with
  | Some c => c
  | None => negb (existsb tok_is_none toks) && negb (existsb tok_is_empty toks)
  end.

Definition mblk_toks (b : mblk) : list tok := match b with MT t => [t] | ML l => l end.

(* multiblock( *blocks): nested block() per element *)
Fixpoint with_multiblock (pre : string) (blocks : list mblk) (body : string -> res) : res :=
  match blocks with
  | [] => body pre
  | b :: r => with_block pre (mblk_toks b) None (fun pre' => with_multiblock pre' r body)
  end.

(* multiblock_if: as written in base.py the blocks are opened only when `condition` is left at
   its default and None is not among the blocks; an explicit condition (True or False) opens
   nothing *)
Definition mblk_is_none (b : mblk) : bool := match b with MT TNone => true | _ => false end.
Definition multiblock_if_cond (blocks : list mblk) (cond : option bool) : bool :=
  match cond with
  | Some _ => false
  | None => negb (existsb mblk_is_none blocks)
  end.

Section SeqRes.
  Context {A : Type} (f : A -> res).
  (* running the statements of a body one after the other; the first exception escapes *)
  Fixpoint seq_res (ss : list A) : res :=
    match ss with
    | [] => inr []
    | s :: r => match f s with
                | inl e => inl e
                | inr l => match seq_res r with inl e => inl e | inr l' => inr (l ++ l') end
                end
    end.
End SeqRes.

Fixpoint emit_stmt (pre : string) (s : stmt) {struct s} : res :=
  match s with
  | Yield v => match ytext v with inl e => inl e | inr t => inr (append_text pre t) end
  | Block toks ind body => with_block pre toks ind (fun pre' => seq_res (emit_stmt pre') body)
  | BlockIf toks cond body =>
    if block_if_cond toks cond then with_block pre toks None (fun pre' => seq_res (emit_stmt pre') body)
    else seq_res (emit_stmt pre) body
  | MultiBlock blocks body => with_multiblock pre blocks (fun pre' => seq_res (emit_stmt pre') body)
  | MultiBlockIf blocks cond body =>
    if multiblock_if_cond blocks cond then with_multiblock pre blocks (fun pre' => seq_res (emit_stmt pre') body)
    else seq_res (emit_stmt pre) body
  end.

Definition emit_body (pre : string) (ss : list stmt) : res := seq_res (emit_stmt pre) ss.

(* ---------- the None assertion and the returned text ---------- *)

Definition is_wordc (c : ascii) : bool :=
  let n := Ascii.nat_of_ascii c in
  (Nat.leb 48 n && Nat.leb n 57) || (Nat.leb 65 n && Nat.leb n 90) ||
  (Nat.leb 97 n && Nat.leb n 122) || Nat.eqb n 95.

(* re.search(r"\bNone\b", s); prev = the character before s is a word character *)
Fixpoint none_word (s : string) (prev : bool) : bool :=
  match s with
  | EmptyString => false
  | String c r =>
    (negb prev && String.prefix "None" s &&
     match String.get 4 s with Some d => negb (is_wordc d) | None => true end)
    || none_word r (is_wordc c)
  end.

Definition has_none_word (s : string) : bool := none_word s false.

(* PartialGenerator.__call__ : the rows, then "\n".join(rows) + "\n" *)
Definition gen_rows (p : prog) : res :=
  match emit_body EmptyString p with
  | inl e => inl e
  | inr rows => if existsb has_none_word rows then inl ENoneWord else inr rows
  end.

Definition text_of_rows (rows : list string) : string := (join_with nl_s rows ++ nl_s)%string.

(* ---------- _run_partial_generator without ACL: parse the text ---------- *)

Definition gen_comments : list string := ["!"; "#"].   (* parse_to_tree's default *)

Inductive gres :=
| GOk (f : forest)
| GInvalid                               (* GeneratorError from InvalidValueFromGenerator *)
| GNoneWord                              (* GeneratorError from the None assertion *)
| GParse (lineno : nat) (row : string)   (* GeneratorError from ParserError *)
| GAcl (path : string)                   (* GeneratorError from AclError("a / b / row") *)
| GAclCompile.                           (* NotImplementedError from compile_acl_text (ignore rule) *)

(* vendor formatter with CommonFormatter.split (e.g. optixtrans) *)
Definition run_noacl (p : prog) : gres :=
  match gen_rows p with
  | inl EInvalid => GInvalid
  | inl ENoneWord => GNoneWord
  | inr rows =>
    match parse_text gen_comments (text_of_rows rows) with
    | Ok f => GOk f
    | Err n row => GParse n row
    end
  end.

Definition gres_eqb (a b : gres) : bool :=
  match a, b with
  | GOk f, GOk g => forest_eqb f g
  | GInvalid, GInvalid => true
  | GNoneWord, GNoneWord => true
  | GParse n r, GParse m q => Nat.eqb n m && String.eqb r q
  | GAcl p, GAcl q => String.eqb p q
  | GAclCompile, GAclCompile => true
  | _, _ => false
  end.

(* ---------- merge_dicts on two config trees, RunGeneratorResult.config_tree ---------- *)

Fixpoint lookup (k : string) (f : forest) : option tree :=
  match f with
  | [] => None
  | (k', v) :: r => if String.eqb k k' then Some v else lookup k r
  end.

Definition has_key (k : string) (f : forest) : bool :=
  match lookup k f with Some _ => true | None => false end.

(* merge_dicts(a, b): keys of a in a's order (children merged when b has the key too), then the
   keys only b has, in b's order *)
Fixpoint tunion (a b : tree) {struct a} : tree :=
  match a, b with
  | T fa, T fb =>
    T ((fix go (l : forest) : forest :=
          match l with
          | [] => []
          | (k, v) :: r => (k, match lookup k fb with Some w => tunion v w | None => v end) :: go r
          end) fa
       ++ filter (fun kv => negb (has_key (fst kv) fa)) fb)
  end.

Definition funion (f g : forest) : forest := kids (tunion (T f) (T g)).

(* config_tree(): tree = odict(); for gr in partial_results.values(): tree = merge_dicts(tree, gr.config) *)
Definition union_all (fs : list forest) : forest := fold_left funion fs [].
