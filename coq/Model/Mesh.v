(* Model of the direct-pair logic of annet.mesh.executor.MeshExecutor and of
   MeshRulesRegistry.lookup_direct / models_converter.to_bgp_peer.  No proofs here.

   Abstractions (Section variables): the matcher of a rule is a boolean function of the
   (left, right) device names (PairMatcher.match_pair is not None); a handler is a pure
   function of (left name, right name, ports of left) returning the attributes it sets on
   (left, right, session).  The storage is a function giving, for an ordered pair of devices,
   the list of (local port, remote port) connections. *)
From Coq Require Import List String Ascii Bool Arith ZArith.
From Annet Require Import Model.Merge.
Import ListNotations.
Open Scope string_scope.
Open Scope list_scope.

Inductive port_processor := United | Separate.

Record rule := Rule {
  r_id : nat;                       (* which handler *)
  r_pp : port_processor
}.

(* MatchedDirectPair: rule, direct_order, name_left, name_right *)
Record matched := Matched {
  m_rule : rule;
  m_direct : bool;
  m_left : string;
  m_right : string
}.

Section Mesh.
  Variable matches : nat -> string -> string -> bool.         (* rule id, left, right *)
  Variable handler : nat -> string -> string -> list string -> entries * entries * entries.
  Variable connections : string -> string -> list (string * string).
  Variable dto : schema.                                       (* DirectPeerDTO._field_mergers *)
  Variable pair_sch : schema.                                  (* Pair: local/connected Merge, ports *)

  (* MeshRulesRegistry.lookup_direct: every rule is tried in both orientations *)
  Definition lookup_direct (rules : list rule) (device : string) (neighbors : list string) : list matched :=
    flat_map (fun nb =>
      flat_map (fun r =>
        (if matches (r_id r) device nb then [Matched r true device nb] else []) ++
        (if matches (r_id r) nb device then [Matched r false nb device] else [])) rules) neighbors.

  (* rule.port_processor(all_connected_ports) *)
  Definition port_groups (pp : port_processor) (all : list (string * string)) : list (list (string * string)) :=
    match pp with
    | United => [all]
    | Separate => map (fun p => [p]) all
    end.

  Definition is_empty (e : entries) : bool := match e with [] => true | _ => false end.

  (* _execute_direct_pair.  ports: (local, remote) pairs of this group, seen from `device`.
     None: the handler set nothing.  Some (Ok (local_dto, connected_dto)).  The handler is always
     called as (left, right): for the reverse orientation the neighbour is `left`. *)
  Definition execute_direct_pair (device neighbor : string) (m : matched) (ports : list (string * string))
    : option (res (entries * entries)) :=
    let local_ports := map fst ports in
    let remote_ports := map snd ports in
    let '(l, r, s) :=
      if m_direct m then handler (r_id (m_rule m)) device neighbor local_ports
      else handler (r_id (m_rule m)) neighbor device remote_ports in
    let '(peer_device, peer_neighbor) := if m_direct m then (l, r) else (r, l) in
    if is_empty peer_neighbor && is_empty peer_device && is_empty s then None
    else Some
      match merge_all dto [] [peer_neighbor; s] with
      | Err e => Err e                                         (* ValueError(... conflicting ...) *)
      | Ok neighbor_dto =>
        match merge_all dto [] [peer_device; s] with
        | Err e => Err e
        | Ok device_dto => Ok (device_dto, neighbor_dto)
        end
      end.

  (* PeerKey(fqdn, addr, vrf) *)
  Definition peer_key := (string * value * value)%type.
  Definition key_eqb (a b : peer_key) : bool :=
    String.eqb (fst (fst a)) (fst (fst b)) && value_eqb (snd (fst a)) (snd (fst b)) && value_eqb (snd a) (snd b).

  (* Pair(local=, connected=, device=, ports=) as a model object; `device` is part of the key *)
  Definition mk_pair (local connected : entries) (ports : list string) : entries :=
    [("local", VObj local); ("connected", VObj connected); ("ports", VList (map AStr ports))].

  Fixpoint upsert (k : peer_key) (p : entries) (acc : list (peer_key * entries)) : res (list (peer_key * entries)) :=
    match acc with
    | [] => Ok [(k, p)]
    | (k', p') :: rest =>
      if key_eqb k k' then
        match merge pair_sch p' p with                        (* merge(neighbor_peers[peer_key], pair) *)
        | Ok pp => Ok ((k', pp) :: rest)
        | Err e => Err e
        end
      else match upsert k p rest with
           | Ok rest' => Ok ((k', p') :: rest')
           | Err e => Err e
           end
    end.

  Inductive xerr := EValue.                                    (* every failure below is a ValueError *)

  (* the loop body of _execute_direct for one matched rule and one port group *)
  Definition step_direct (device : string) (m : matched) (ports : list (string * string))
             (acc : list (peer_key * entries)) : xerr + list (peer_key * entries) :=
    let neighbor := if m_direct m then m_right m else m_left m in
    match execute_direct_pair device neighbor m ports with
    | None => inr acc
    | Some (Err _) => inl EValue
    | Some (Ok (local, connected)) =>
      match lookup "addr" connected with
      | None => inl EValue                                     (* "returned no peer addr" *)
      | Some addr =>
        let vrf := match lookup "vrf" connected with Some v => v | None => VAtom (AStr "") end in
        match upsert (neighbor, addr, vrf) (mk_pair local connected (map fst ports)) acc with
        | Ok acc' => inr acc'
        | Err _ => inl EValue
        end
      end
    end.

  Fixpoint fold_steps (device : string) (work : list (matched * list (string * string)))
           (acc : list (peer_key * entries)) : xerr + list (peer_key * entries) :=
    match work with
    | [] => inr acc
    | (m, ports) :: rest =>
      match step_direct device m ports acc with
      | inl e => inl e
      | inr acc' => fold_steps device rest acc'
      end
    end.

  Definition execute_direct (rules : list rule) (device : string) (neighbors : list string)
    : xerr + list (peer_key * entries) :=
    let ms := lookup_direct rules device neighbors in
    let work := flat_map (fun m =>
      let neighbor := if m_direct m then m_right m else m_left m in
      map (fun g => (m, g)) (port_groups (r_pp (m_rule m)) (connections device neighbor))) ms in
    fold_steps device work [].
End Mesh.

(* ---- models_converter.to_bgp_peer: which side's attributes become which Peer field ------------- *)

Definition attr (f : string) (e : entries) : option value := lookup f e.

Fixpoint ip_text (s : string) : string :=
  match s with
  | EmptyString => EmptyString
  | String c r => if Ascii.eqb c "/"%char then EmptyString else String c (ip_text r)
  end.

Definition ip_val (v : option value) : option value :=
  match v with
  | Some (VAtom (AStr s)) => Some (VAtom (AStr (ip_text s)))
  | _ => None
  end.

Record peer := Peer {
  p_addr : option value;            (* str(ip_interface(connected.addr).ip) *)
  p_remote_as : option value;       (* ASN(connected.asnum) *)
  p_local_as : option value;        (* options.local_as  <- local.asnum (name_mapping) *)
  p_hostname : string;
  p_families : option value;        (* connected.families *)
  p_vrf_name : option value;        (* connected.vrf *)
  p_group_name : option value;      (* connected.group_name *)
  p_import_policy : option value;   (* local.import_policy *)
  p_export_policy : option value;   (* local.export_policy *)
  p_options : entries               (* remaining attributes of local *)
}.

Definition to_bgp_peer (local connected : entries) (hostname : string) : peer :=
  Peer (ip_val (attr "addr" connected)) (attr "asnum" connected) (attr "asnum" local) hostname
       (attr "families" connected) (attr "vrf" connected) (attr "group_name" connected)
       (attr "import_policy" local) (attr "export_policy" local) local.

(* _apply_direct_interface_changes: the interface the rule's DTO selects.  port_pairs = connections
   restricted to the ports of the pair; None = ValueError *)
Definition int_of (v : option value) : option Z :=
  match v with Some (VAtom (AInt z)) => Some z | _ => None end.

Definition target_interface (local : entries) (port_pairs : list string)
           (lag_name svi_name : Z -> string) (subif_name : string -> Z -> string) : option string :=
  let lag := int_of (attr "lag" local) in
  let svi := int_of (attr "svi" local) in
  let subif := int_of (attr "subif" local) in
  match lag, svi with
  | Some _, Some _ => None                                    (* "Cannot use LAG and SVI together" *)
  | _, _ =>
    match svi, subif with
    | Some _, Some _ => None                                  (* "Cannot use Subif and SVI together" *)
    | _, _ =>
      if Nat.ltb 1 (List.length port_pairs) && match lag, svi with None, None => true | _, _ => false end
      then None                                               (* "Multiple connections found ... Specify LAG or SVI" *)
      else
        match lag with
        | Some l => Some (match subif with Some s => subif_name (lag_name l) s | None => lag_name l end)
        | None =>
          match subif with
          | Some s => match port_pairs with p :: _ => Some (subif_name p s) | [] => None end
          | None =>
            match svi with
            | Some v => Some (svi_name v)
            | None => match port_pairs with p :: _ => Some p | [] => None end
            end
          end
        end
    end
  end.
