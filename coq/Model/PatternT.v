(* Model of the rule-TEXT parser in front of the pattern compiler:
     annet.annlib.rbparser.syntax._parse_raw_rule     (one rule line -> row, %params cut off)
   as reached through compile_patching_text / compile_acl_text / compile_ordering_text for a
   rulebook text of one line.  The row handed to compile_row_regexp / _make_reverse is the line
   with its %params cut off, stripped, and every run of blanks / tabs replaced by one blank:
   that single-blank normal form is what the reverse side of every rulebook kind relies on
   (row.startswith(prefix + one blank), the template of the removal command).
   Literal transcription; the word-level reading is proved in Proofs/PatternTProofs.v.
   Domain: ASCII text whose blanks are space, \t..\r (str.strip() and \s coincide with
   Base.Str.is_ws there; the separators 28..31 are outside).  No proofs in this file. *)
From Coq Require Import List String Ascii Bool Arith NArith.
From Annet Require Import Base.Str Model.Pattern Model.PatternX.
Import ListNotations.
Open Scope string_scope.
Open Scope list_scope.

(* [a-zA-Z_] *)
Definition ident_start (c : ascii) : bool := is_upper c || is_lower c || Ascii.eqb c "_".

(* the params regex of _parse_raw_rule (a blank, a percent sign, an identifier, optionally
   =value) finds something in raw_rule *)
Fixpoint has_param (s : string) : bool :=
  match s with
  | String a ((String b (String c _)) as r) =>
    (is_ws a && Ascii.eqb b "%" && ident_start c) || has_param r
  | _ => false
  end.

(* raw_rule[:raw_rule.index(percent sign)] *)
Fixpoint before_pct (s : string) : string :=
  match s with
  | EmptyString => EmptyString
  | String c r => if Ascii.eqb c "%" then EmptyString else String c (before_pct r)
  end.

(* the %params are cut off only when at least one was recognised *)
Definition cut_params (raw : string) : string :=
  if has_param raw then strip (before_pct raw) else raw.

(* re.sub of \s+ by one blank; inws = the previous character was a blank *)
Fixpoint collapse_ws (inws : bool) (s : string) : string :=
  match s with
  | EmptyString => EmptyString
  | String c r =>
    if is_ws c then (if inws then collapse_ws true r else String " " (collapse_ws true r))
    else String c (collapse_ws false r)
  end.

(* _parse_raw_rule(raw_rule, scheme)[0] *)
Definition raw_row (raw : string) : string := collapse_ws false (strip (cut_params raw)).

(* what the three text compilers store for a one-line rulebook text `raw`:
   patching: compile_row_regexp(row, ignore_case) and _make_reverse(row, prefix);
   ACL / ordering: compile_row_regexp(row) and compile_row_regexp(reverse of row) *)
Definition text_direct (raw : string) (ic : bool) (row : string) : option (list string) :=
  xrule_match (raw_row raw) ic row.
Definition text_reverse (raw prefix : string) (row : string) : option (list string) :=
  xrule_match (reverse_row (raw_row raw) prefix) false row.
Definition text_template (raw prefix : string) : string := make_reverse (raw_row raw) prefix.
