(* Model of annet.annlib.tabparser.parse_to_tree and its helpers
   (_filtered_lines, _parse_indent, _parsed_indents, _stripped_indents, _stacked).
   No proofs here. *)
From Coq Require Import List String Ascii Bool Arith.
From Annet Require Import Base.Str Base.Tree.
Import ListNotations.
Open Scope string_scope.
Open Scope list_scope.

(* what _filtered_lines/_parsed_indents make of one line *)
Inductive item :=
| Content (indent : nat) (row : string)
| Reset                                   (* BlockEnd: Huawei '#' in column 0 *)
| Skip.                                   (* _CommentOrEmpty *)

Fixpoint parse_indent (s : string) : nat :=
  match s with
  | String c r => if Ascii.eqb c sp || Ascii.eqb c tab then S (parse_indent r) else O
  | EmptyString => O
  end.

Definition classify (comments : list string) (line : string) : item :=
  let stripped := strip line in
  if existsb (String.eqb "#") comments && startswith "#" line then Reset
  else if is_empty stripped || existsb (fun c => startswith c stripped) comments then Skip
  else Content (parse_indent line) stripped.

Inductive result :=
| Ok (f : forest)
| Err (lineno : nat) (row : string).      (* ParserError("Invalid top indention: line %d: %s") *)

(* while curr_level > level and len(indents): curr_level -= indents.pop() *)
Fixpoint pop_loop (indents : list nat) (curr level : nat) : list nat * nat :=
  match indents with
  | [] => ([], curr)
  | d :: rest => if Nat.ltb level curr then pop_loop rest (curr - d) level else (indents, curr)
  end.

(* _stacked *)
Definition stacked (stack : list string) (depth : nat) (line : string) : list string :=
  let level := S depth in
  if Nat.ltb (List.length stack) level then stack ++ [line]
  else if Nat.eqb level (List.length stack) then removelast stack ++ [line]
  else firstn (level - 1) stack ++ [line].

Record pstate := PS {
  ps_indents : list nat;      (* stack of indent increments, top first *)
  ps_curr : nat;
  ps_g : option nat;
  ps_stack : list string;
  ps_tree : forest
}.

Definition ps_init : pstate := PS [] 0 None [] [].

Definition reset_state (s : pstate) : pstate :=
  PS [] 0 None (ps_stack s) (ps_tree s).

(* one content line; None = ParserError *)
Definition content_step (s : pstate) (lvl : nat) (row : string) : option pstate :=
  let g := match ps_g s with None => lvl | Some g => g end in
  if Nat.ltb lvl g then None else
  let level := lvl - g in
  let '(ind, curr, ok) :=
    if Nat.ltb (ps_curr s) level then ((level - ps_curr s) :: ps_indents s, level, true)
    else if Nat.ltb level (ps_curr s) then
      let '(ind, curr) := pop_loop (ps_indents s) (ps_curr s) level in
      (ind, curr, Nat.eqb curr level)
    else (ps_indents s, ps_curr s, true) in
  if ok then
    let st := stacked (ps_stack s) (List.length ind) row in
    Some (PS ind curr (Some g) st (ins st (ps_tree s)))
  else None.

Fixpoint parse_items (its : list item) (n : nat) (s : pstate) : result :=
  match its with
  | [] => Ok (ps_tree s)
  | Skip :: r => parse_items r (S n) s
  | Reset :: r => parse_items r (S n) (reset_state s)
  | Content lvl row :: r =>
    match content_step s lvl row with
    | None => Err n row
    | Some s' => parse_items r (S n) s'
    end
  end.

Definition parse_lines (comments : list string) (lines : list string) : result :=
  parse_items (map (classify comments) lines) 1 ps_init.

(* parse_to_tree(text, CommonFormatter().split, comments) *)
Definition parse_text (comments : list string) (text : string) : result :=
  parse_lines comments (split_lines text).

Definition result_eqb (a b : result) : bool :=
  match a, b with
  | Ok f, Ok g => forest_eqb f g
  | Err n r, Err m q => Nat.eqb n m && String.eqb r q
  | _, _ => false
  end.
