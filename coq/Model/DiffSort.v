(* Model of annet.annlib.diff: diff_cmp and resort_diff (what `annet diff` applies before make_pre).  No proofs.
   resort_diff sorts every level with sorted(key=cmp_to_key(diff_cmp)), i.e. by "a < b iff diff_cmp(a,b) < 0".
   diff_cmp is "a collection of crutches" (its docstring) and is NOT a weak order in general; where it is one on
   the entries of a level, any stable sort gives the same list, and the model is the stable insertion sort
   (Model/Order.v: stable_sort).  Where it is not, CPython's result depends on TimSort's comparison schedule and
   is not modelled (Properties: C03X_diff_cmp_not_transitive).
   int() and ipaddress.ip_interface() on a word: [wint] models sign, digits and single underscores; [wip] models
   dotted IPv4 with an optional /prefixlen; a word with ':' or an unparsed '/' is outside the model ([wunk]). *)
From Coq Require Import List String Ascii Bool Arith ZArith NArith.
From Annet Require Import Base.Str Base.Tree Model.Pattern Model.Rulebook Model.Diff Model.Order.
Import ListNotations.
Open Scope string_scope.
Open Scope list_scope.

Definition dval (c : ascii) : Z := (Z.of_N (code c) - 48)%Z.

(* 0 = start, 1 = after a digit, 2 = after an underscore *)
Fixpoint int_go (l : list ascii) (acc : Z) (st : nat) : option Z :=
  match l with
  | [] => if Nat.eqb st 1 then Some acc else None
  | c :: r => if is_digit c then int_go r (acc * 10 + dval c)%Z 1
              else if Ascii.eqb c "_" && Nat.eqb st 1 then int_go r acc 2 else None
  end.
Definition wint (w : string) : option Z :=
  match l_of w with
  | "-"%char :: r => option_map Z.opp (int_go r 0%Z 0)
  | "+"%char :: r => int_go r 0%Z 0
  | l => int_go l 0%Z 0
  end.

(* one IPv4 octet: 1-3 digits, no leading zero, <= 255 *)
Definition octet (s : string) : option N :=
  let l := l_of s in
  if forallb is_digit l && Nat.leb 1 (List.length l) && Nat.leb (List.length l) 3 &&
     (Nat.eqb (List.length l) 1 || negb (match l with "0"%char :: _ => true | _ => false end))
  then let v := fold_left (fun a c => (a * 10 + (code c - 48))%N) l 0%N in
       if N.leb v 255 then Some v else None
  else None.
Definition addr4 (s : string) : option N :=
  match map octet (split_char "."%char s) with
  | [Some a; Some b; Some c; Some d] => Some (((a * 256 + b) * 256 + c) * 256 + d)%N
  | _ => None
  end.
Definition plen (s : string) : option N :=
  let l := l_of s in
  if forallb is_digit l && Nat.leb 1 (List.length l)
  then let v := fold_left (fun a c => (a * 10 + (code c - 48))%N) l 0%N in
       if N.leb v 32 then Some v else None
  else None.
(* the sort key of an IPv4Interface: (network address, prefix length, address) *)
Definition wip (w : string) : option (N * N * N) :=
  match split_char "/"%char w with
  | [a] => match addr4 a with Some x => Some (x, 32%N, x) | None => None end
  | [a; p] => match addr4 a, plen p with
              | Some x, Some n => Some (N.shiftl (N.shiftr x (32 - n)) (32 - n), n, x)
              | _, _ => None
              end
  | _ => None
  end.
Definition wunk (w : string) : bool :=
  let l := l_of w in
  existsb (Ascii.eqb ":"%char) l ||
  (existsb (Ascii.eqb "/"%char) l && match wip w with Some _ => false | None => true end).

Definition ops_order (o : op) : Z :=
  match o with Affected => 0 | Moved => 1 | Removed => 2 | Added => 3 | Unchanged => 0 end%Z.

Definition key3_cmp (a b : N * N * N) : Z :=
  let '(a1, a2, a3) := a in let '(b1, b2, b3) := b in
  match N.compare a1 b1 with
  | Lt => (-1) | Gt => 1
  | Eq => match N.compare a2 b2 with
          | Lt => (-1) | Gt => 1
          | Eq => match N.compare a3 b3 with Lt => (-1) | Gt => 1 | Eq => 0 end
          end
  end%Z.

(* both ints -> their difference; both addresses -> their comparison; else undecided *)
Definition num_cmp (a b : string) : option Z :=
  match wint a, wint b with
  | Some x, Some y => Some (x - y)%Z
  | _, _ => match wip a, wip b with
            | Some x, Some y => Some (key3_cmp x y)
            | _, _ => None
            end
  end.

(* diff_cmp: only the first two words of the rows are ever looked at *)
Definition diff_cmp (l r : dnode) : Z :=
  let cmp_op := (ops_order (d_op l) - ops_order (d_op r))%Z in
  let nz (z : Z) := if Z.eqb z 0 then cmp_op else z in
  if String.eqb (d_row l) (d_row r) then cmp_op
  else if Z.eqb cmp_op 0 then 0%Z
  else
    let lws := split_char " "%char (d_row l) in
    let rws := split_char " "%char (d_row r) in
    match lws, rws with
    | a0 :: lt, b0 :: rt =>
      match num_cmp a0 b0 with
      | Some z => nz z
      | None =>
        match lt, rt with
        | a1 :: _, b1 :: _ =>
          match num_cmp a1 b1 with
          | Some z => nz z
          | None => if String.eqb a1 b1 then cmp_op else 0%Z
          end
        | _, _ => 0%Z
        end
      end
    | _, _ => 0%Z
    end.

(* "a goes before-or-with b": not (b < a) *)
Definition cmp_leb (a b : dnode) : bool := negb (Z.ltb (diff_cmp b a) 0).

Fixpoint resort_n (d : dnode) : dnode :=
  match d with DN o r m k => DN o r m (stable_sort cmp_leb (map resort_n k)) end.
(* resort_diff *)
Definition resort (d : list dnode) : list dnode := stable_sort cmp_leb (map resort_n d).

(* no word the model cannot classify among the first two words of any row *)
Fixpoint sort_modelled_n (d : dnode) : bool :=
  match d with
  | DN _ r _ k => forallb (fun w => negb (wunk w)) (firstn 2 (split_char " "%char r)) && forallb sort_modelled_n k
  end.

(* diff_cmp is a weak order (total, transitive "not greater") on the entries of a level *)
Definition wo_on (l : list dnode) : bool :=
  forallb (fun a => forallb (fun b => cmp_leb a b || cmp_leb b a) l) l &&
  forallb (fun a => forallb (fun b => forallb (fun c => negb (cmp_leb a b && cmp_leb b c) || cmp_leb a c) l) l) l.

Fixpoint wo_all_n (d : dnode) : bool := match d with DN _ _ _ k => wo_on k && forallb wo_all_n k end.
Definition wo_all (d : list dnode) : bool := wo_on d && forallb wo_all_n d.

(* checks on a real resort_diff output [out] for the input [d] (entries of a level distinct by (op,row)) *)
Definition same_entry (a b : dnode) : bool := op_eqb (d_op a) (d_op b) && String.eqb (d_row a) (d_row b).
Fixpoint lvlperm_n (d out : dnode) {struct d} : bool :=
  match d, out with
  | DN _ _ _ k, DN _ _ _ k' =>
    Nat.eqb (List.length k) (List.length k') &&
    forallb (fun x => match find (same_entry x) k' with Some y => lvlperm_n x y | None => false end) k
  end.
Definition lvlperm (d out : list dnode) : bool :=
  lvlperm_n (DN Affected "" (MI "" [] (Attrs "" LDefault DDefault false false)) d)
            (DN Affected "" (MI "" [] (Attrs "" LDefault DDefault false false)) out).
Fixpoint sorted_lvl (l : list dnode) : bool :=
  match l with
  | [] => true
  | a :: t => forallb (cmp_leb a) t && sorted_lvl t
  end.
Fixpoint sorted_all_n (d : dnode) : bool := match d with DN _ _ _ k => sorted_lvl k && forallb sorted_all_n k end.
Definition sorted_all (d : list dnode) : bool := sorted_lvl d && forallb sorted_all_n d.
