(* C09: the deploy-rule matcher on the richest rule language available (Model/PatternY.v:
   plain words, `*`, `*/re/`, trailing `~`, one-word regexps such as `(ftp|FTP)`, `~/re/`, glued
   suffixes and the special last words).  Model/Deploy.v stays as it is: its [row_hit] reads the
   rule rows with the plain language of Model/Pattern.v; on those rows the two matchers coincide
   (Proofs/DeployYProofs.v, conservativity).  No proofs in this file. *)
From Coq Require Import List String Ascii Bool Arith NArith.
From Annet Require Import Base.Str Model.Pattern Model.PatternX Model.PatternY Model.Deploy.
Import ListNotations.
Open Scope string_scope.
Open Scope list_scope.

(* rule["attrs"]["regexp"].match(row) and match_context(rule ifcontext, context);
   _compile_deploying calls syntax.compile_row_regexp(attrs["row"]) without flags *)
Definition row_hit_y (r : drule) (row : string) (c : ctx) : bool :=
  match yrule_match (d_pat r) false row with Some _ => true | None => false end &&
  match_context (d_ifctx r) c.

(* the same with every rule row of the rulebook parsed once (case files) *)
Definition yparsed := (option ypat * bool)%type.
Definition yparse_row (p : string) : yparsed := (yrule_pat p, rule_ic p false).
Definition ypat_table (rs : list drule) : list (string * yparsed) :=
  map (fun p => (p, yparse_row p)) (flat_map all_pats_r rs).

Definition ytbl_hit (tbl : list (string * yparsed)) (r : drule) (row : string) (c : ctx) : bool :=
  let pp := match lookup_str (d_pat r) tbl with Some x => x | None => yparse_row (d_pat r) end in
  match fst pp with
  | Some p => match ypmatch p (snd pp) row with Some _ => true | None => false end
  | None => false
  end && match_context (d_ifctx r) c.

Definition fast_hit_y (rs : list drule) : drule -> string -> ctx -> bool := ytbl_hit (ypat_table rs).

(* a rule row is inside the modelled language / the plain language *)
Definition row_modelled (p : string) : bool := match yrule_pat p with Some _ => true | None => false end.
Definition row_plain (p : string) : bool := match rule_pat p with Some _ => true | None => false end.
Definition book_modelled (rs : list drule) : bool := forallb row_modelled (flat_map all_pats_r rs).
Definition book_plain (rs : list drule) : bool := forallb row_plain (flat_map all_pats_r rs).
