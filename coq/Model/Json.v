(* C13 — executable model of annet/annlib/jsontools.py (and of the parts of the third-party
   jsonpointer / jsonpatch libraries it drives).  No proofs here.

   Python exceptions are [None] (one error value: the property never depends on the
   exception class).  Python dicts are association lists in insertion order.

   Three places of the source exist in two shapes (current tree / after the repairs in
   /verif/fixes/C13-*.patch); the shape is a field of [variant]:
     v_esc     _resolve_json_pointers builds the pointer with JsonPointer.from_parts
               (escaping "~" and "/")  instead of  JsonPointer("/" + "/".join(parts))
     v_strseq  _resolve_json_pointers treats a str as a Sequence (descends into characters)
     v_sorted  make_patch sorts the library's operations by "path"                      *)
From Coq Require Import List String Ascii Bool Arith ZArith.
From Annet Require Import Base.Str.
Import ListNotations.
Open Scope string_scope.
Open Scope list_scope.

Inductive json :=
| JNull
| JBool (b : bool)
| JNum (z : Z)
| JStr (s : string)
| JArr (l : list json)
| JObj (kvs : list (string * json)).

Definition path := list string.

Record variant := { v_esc : bool; v_strseq : bool; v_sorted : bool }.
Definition V_current : variant := {| v_esc := false; v_strseq := true; v_sorted := true |}.
Definition V_fixed : variant := {| v_esc := true; v_strseq := false; v_sorted := false |}.

Definition bind {A B} (o : option A) (f : A -> option B) : option B :=
  match o with Some x => f x | None => None end.
Notation "x <- e ; k" := (bind e (fun x => k)) (at level 61, e at next level, right associativity).

(* ---------------------------------------------------------------- dict primitives *)

Fixpoint lookup (k : string) (kvs : list (string * json)) : option json :=
  match kvs with
  | [] => None
  | (k', v) :: r => if String.eqb k k' then Some v else lookup k r
  end.

(* d[k] = v : replace in place, or append *)
Fixpoint aset (k : string) (v : json) (kvs : list (string * json)) : list (string * json) :=
  match kvs with
  | [] => [(k, v)]
  | (k', v') :: r => if String.eqb k k' then (k, v) :: r else (k', v') :: aset k v r
  end.

(* d.pop(k, None) *)
Definition adel (k : string) (kvs : list (string * json)) : list (string * json) :=
  filter (fun kv => negb (String.eqb k (fst kv))) kvs.

(* ---------------------------------------------------------------- str(i), sequences *)

Definition digit (n : nat) : ascii := ascii_of_nat (48 + n).

Fixpoint dec_aux (fuel n : nat) (acc : string) : string :=
  match fuel with
  | O => acc
  | S f => let acc' := String (digit (Nat.modulo n 10)) acc in
           if Nat.ltb n 10 then acc' else dec_aux f (Nat.div n 10) acc'
  end.
Definition dec (n : nat) : string := dec_aux (S n) n EmptyString.

Fixpoint indexed (i : nat) (l : list json) : list (string * json) :=
  match l with
  | [] => []
  | x :: r => (dec i, x) :: indexed (S i) r
  end.

Fixpoint chars (s : string) : list json :=
  match s with
  | EmptyString => []
  | String c r => JStr (String c EmptyString) :: chars r
  end.

(* the members a JSON pointer step can address: object members by key, array elements by
   their canonical decimal index (jsonpointer: fullmatch 0|[1-9][0-9]* and in range —
   i.e. the part is str(i) for some i < len) *)
Definition children (d : json) : list (string * json) :=
  match d with
  | JObj kvs => kvs
  | JArr l => indexed 0 l
  | _ => []
  end.

(* Python: a str is a collections.abc.Sequence too *)
Definition children_py (strseq : bool) (d : json) : list (string * json) :=
  match d with
  | JStr s => if strseq then indexed 0 (chars s) else []
  | _ => children d
  end.

Definition is_digit (c : ascii) : bool :=
  let n := nat_of_ascii c in Nat.leb 48 n && Nat.leb n 57.
Fixpoint all_digits (s : string) : bool :=
  match s with EmptyString => true | String c r => is_digit c && all_digits r end.
(* JsonPointer._RE_ARRAY_INDEX.fullmatch *)
Definition is_index (s : string) : bool :=
  match s with
  | EmptyString => false
  | String c r => if Ascii.eqb c "0" then is_empty r else is_digit c && all_digits r
  end.

(* ---------------------------------------------------------------- RFC 6901 pointers *)

Definition tilde : ascii := "~"%char.
Definition slash : ascii := "/"%char.

(* str.replace of a two-character needle *)
Fixpoint repl2 (a b : ascii) (by_ : string) (s : string) : string :=
  match s with
  | EmptyString => EmptyString
  | String c r =>
    match r with
    | EmptyString => String c EmptyString
    | String d r' =>
      if Ascii.eqb c a && Ascii.eqb d b then (by_ ++ repl2 a b by_ r')%string
      else String c (repl2 a b by_ r)
    end
  end.

Fixpoint repl1 (a : ascii) (by_ : string) (s : string) : string :=
  match s with
  | EmptyString => EmptyString
  | String c r => if Ascii.eqb c a then (by_ ++ repl1 a by_ r)%string else String c (repl1 a by_ r)
  end.

Definition unescape (s : string) : string := repl2 tilde "0" "~" (repl2 tilde "1" "/" s).
Definition escape (s : string) : string := repl1 slash "~1" (repl1 tilde "~0" s).

(* _RE_INVALID_ESCAPE = (~[^01]|~$) *)
Fixpoint bad_escape (s : string) : bool :=
  match s with
  | EmptyString => false
  | String c r =>
    if Ascii.eqb c tilde then
      match r with
      | EmptyString => true
      | String d _ => if Ascii.eqb d "0" || Ascii.eqb d "1" then bad_escape r else true
      end
    else bad_escape r
  end.

(* JsonPointer(text).parts *)
Definition parse_pointer (s : string) : option path :=
  if bad_escape s then None
  else match split_char slash s with
       | first :: rest => if is_empty first then Some (map unescape rest) else None
       | [] => None
       end.

(* JsonPointer.path *)
Definition pointer_path (p : path) : string := String.concat "" (map (fun k => ("/" ++ escape k)%string) p).

(* ---------------------------------------------------------------- fnmatch.fnmatchcase *)

Inductive gtok :=
| GStar
| GAny
| GLit (c : ascii)
| GSet (neg : bool) (items : list (ascii * ascii)).   (* inclusive ranges; x = (x,x) *)

Fixpoint str_list (s : string) : list ascii :=
  match s with EmptyString => [] | String c r => c :: str_list r end.

(* position of the closing bracket of a set whose body starts at l (after an optional
   leading "!" and an optional leading "]" have been consumed into acc) *)
Fixpoint until_rbracket (l : list ascii) (acc : list ascii) : option (list ascii * list ascii) :=
  match l with
  | [] => None
  | c :: r => if Ascii.eqb c "]" then Some (rev acc, r) else until_rbracket r (c :: acc)
  end.

Fixpoint set_items (l : list ascii) : list (ascii * ascii) :=
  match l with
  | [] => []
  | a :: r =>
    match r with
    | m :: b :: r' => if Ascii.eqb m "-" then (a, b) :: set_items r' else (a, a) :: set_items r
    | _ => (a, a) :: set_items r
    end
  end.

Definition scan_set (l : list ascii) : option (gtok * list ascii) :=
  let '(neg, l1) := match l with c :: r => if Ascii.eqb c "!" then (true, r) else (false, l) | [] => (false, l) end in
  let '(pre, l2) := match l1 with c :: r => if Ascii.eqb c "]" then ([c], r) else ([], l1) | [] => ([], l1) end in
  match until_rbracket l2 pre with
  | Some (body, rest) => Some (GSet neg (set_items body), rest)
  | None => None
  end.

Fixpoint gtokens (fuel : nat) (l : list ascii) : list gtok :=
  match fuel with
  | O => []
  | S f =>
    match l with
    | [] => []
    | c :: r =>
      if Ascii.eqb c "*" then GStar :: gtokens f r
      else if Ascii.eqb c "?" then GAny :: gtokens f r
      else if Ascii.eqb c "[" then
        match scan_set r with
        | Some (t, rest) => t :: gtokens f rest
        | None => GLit c :: gtokens f r
        end
      else GLit c :: gtokens f r
    end
  end.

Definition in_range (c : ascii) (ab : ascii * ascii) : bool :=
  let n := nat_of_ascii c in
  Nat.leb (nat_of_ascii (fst ab)) n && Nat.leb n (nat_of_ascii (snd ab)).

Fixpoint gmatch (p : list gtok) (s : list ascii) {struct p} : bool :=
  match p with
  | [] => match s with [] => true | _ => false end
  | GStar :: p' =>
    (fix star (s : list ascii) : bool :=
       gmatch p' s || match s with [] => false | _ :: s' => star s' end) s
  | GAny :: p' => match s with _ :: s' => gmatch p' s' | [] => false end
  | GLit c :: p' => match s with d :: s' => Ascii.eqb c d && gmatch p' s' | [] => false end
  | GSet neg items :: p' =>
    match s with
    | d :: s' => xorb neg (existsb (in_range d) items) && gmatch p' s'
    | [] => false
    end
  end.

(* fnmatch.fnmatchcase(name, pat) *)
Definition fnm (name pat : string) : bool :=
  gmatch (gtokens (S (String.length pat)) (str_list pat)) (str_list name).

(* ---------------------------------------------------------------- _resolve_json_pointers *)

(* the matched key lists, in the order the level-by-level loop produces them *)
Fixpoint resolve_parts (strseq : bool) (parts : list string) (d : json) : list path :=
  match parts with
  | [] => [[]]
  | part :: rest =>
    flat_map (fun kv => if fnm (fst kv) part
                        then map (cons (fst kv)) (resolve_parts strseq rest (snd kv))
                        else [])
             (children_py strseq d)
  end.

Fixpoint mapM {A B} (f : A -> option B) (l : list A) : option (list B) :=
  match l with
  | [] => Some []
  | x :: r => y <- f x ; ys <- mapM f r ; Some (y :: ys)
  end.

(* current tree: JsonPointer("/" + "/".join(matched_parts)) — re-parsed, NOT escaped;
   repaired: JsonPointer.from_parts(matched_parts) *)
Definition mk_pointer (V : variant) (keys : path) : option path :=
  if v_esc V then Some keys else parse_pointer ("/" ++ join_with "/" keys)%string.

Definition resolve (V : variant) (pattern : string) (d : json) : option (list path) :=
  parts <- parse_pointer pattern ;
  mapM (mk_pointer V) (resolve_parts (v_strseq V) parts d).

(* ---------------------------------------------------------------- jsonpointer get / set *)

(* JsonPointer.walk: dict by key, list (and str!) by canonical in-range index *)
Definition walk (d : json) (part : string) : option json := lookup part (children_py true d).

Fixpoint get_ptr (p : path) (d : json) : option json :=
  match p with
  | [] => Some d
  | k :: r => c <- walk d k ; get_ptr r c
  end.

(* replace the element whose index prints as k *)
Fixpoint lupd (i : nat) (k : string) (f : json -> option json) (l : list json) : option (list json) :=
  match l with
  | [] => None
  | x :: r => if String.eqb k (dec i) then x' <- f x ; Some (x' :: r)
              else r' <- lupd (S i) k f r ; Some (x :: r')
  end.

(* apply f to the member k of container d and store the result back (in-place update of
   a nested member); str members can be read but not written *)
Definition upd_child (k : string) (f : json -> option json) (d : json) : option json :=
  match d with
  | JObj kvs => c <- lookup k kvs ; c' <- f c ; Some (JObj (aset k c' kvs))
  | JArr l => l' <- lupd 0 k f l ; Some (JArr l')
  | JStr s => c <- walk d k ; _ <- f c ; Some d
  | _ => None
  end.

(* JsonPointer.set(doc, value) with inplace=True *)
Fixpoint set_ptr (p : path) (v : json) (d : json) : option json :=
  match p with
  | [] => None                                     (* 'Cannot set root in place' *)
  | k :: r =>
    match r with
    | [] =>
      match d with
      | JObj kvs => Some (JObj (aset k v kvs))
      | JArr l => if String.eqb k "-" then Some (JArr (l ++ [v]))
                  else l' <- lupd 0 k (fun _ => Some v) l ; Some (JArr l')   (* IndexError *)
      | _ => None                                  (* str: TypeError; scalar: no indexing *)
      end
    | _ => upd_child k (set_ptr r v) d
    end
  end.

(* _ensure_pointer_exists *)
Fixpoint ensure (p : path) (d : json) : json :=
  match p with
  | [] => d
  | k :: r =>
    match r with
    | [] => d
    | _ =>
      match d with
      | JObj kvs =>
        let sub := match lookup k kvs with
                   | None | Some JNull => JObj []
                   | Some c => c
                   end in
        JObj (aset k (ensure r sub) kvs)
      | _ => d
      end
    end
  end.

(* doc, part = pointer.to_last(cfg); if isinstance(doc, dict) and isinstance(part, str): doc.pop(part, None) *)
Fixpoint del_ptr (p : path) (d : json) : option json :=
  match p with
  | [] => Some d
  | k :: r =>
    match r with
    | [] =>
      match d with
      | JObj kvs => Some (JObj (adel k kvs))
      | JArr _ | JStr _ => if String.eqb k "-" || is_index k then Some d else None
      | _ => None
      end
    | _ => upd_child k (del_ptr r) d
    end
  end.

(* ---------------------------------------------------------------- apply_json_fragment *)

Definition path_eqb (a b : path) : bool := list_str_eqb a b.
Definition mem_path (p : path) (l : list path) : bool := existsb (path_eqb p) l.

Definition set_from (f : json) (c : option json) (p : path) : option json :=
  c0 <- c ; v <- get_ptr p f ; set_ptr p v (ensure p c0).

Definition del_at (c : option json) (p : path) : option json := c0 <- c ; del_ptr p c0.

Definition frag_step (V : variant) (f : json) (cfg : option json) (pat : string) : option json :=
  cfg0 <- cfg ;
  newp <- resolve V pat f ;
  oldp <- resolve V pat cfg0 ;
  cfg1 <- fold_left (set_from f) newp (Some cfg0) ;
  fold_left del_at (filter (fun p => negb (mem_path p newp)) oldp) (Some cfg1).

Definition apply_fragment (V : variant) (old f : json) (acl : list string) : option json :=
  fold_left (frag_step V f) acl (Some old).

(* ---------------------------------------------------------------- RFC 6902 operations *)

Inductive op :=
| OpAdd (path_ : string) (v : json)
| OpRemove (path_ : string)
| OpReplace (path_ : string) (v : json)
| OpMove (from path_ : string)
| OpCopy (from path_ : string)
| OpTest (path_ : string) (v : json).

Definition op_path (o : op) : string :=
  match o with
  | OpAdd p _ | OpRemove p | OpReplace p _ | OpMove _ p | OpCopy _ p | OpTest p _ => p
  end.

Fixpoint linsert (i : nat) (k : string) (v : json) (l : list json) : option (list json) :=
  if String.eqb k (dec i) then Some (v :: l)
  else match l with
       | [] => None
       | x :: r => r' <- linsert (S i) k v r ; Some (x :: r')
       end.

Fixpoint lremove (i : nat) (k : string) (l : list json) : option (list json) :=
  match l with
  | [] => None
  | x :: r => if String.eqb k (dec i) then Some r else r' <- lremove (S i) k r ; Some (x :: r')
  end.

(* AddOperation.apply *)
Fixpoint add_at (p : path) (v : json) (d : json) : option json :=
  match p with
  | [] => match d with JObj _ => Some v | _ => None end
  | k :: r =>
    match r with
    | [] =>
      match d with
      | JObj kvs => Some (JObj (aset k v kvs))
      | JArr l => if String.eqb k "-" then Some (JArr (l ++ [v]))
                  else l' <- linsert 0 k v l ; Some (JArr l')
      | _ => None
      end
    | _ => upd_child k (add_at r v) d
    end
  end.

(* RemoveOperation.apply *)
Fixpoint remove_at (p : path) (d : json) : option json :=
  match p with
  | [] => None
  | k :: r =>
    match r with
    | [] =>
      match d with
      | JObj kvs => match lookup k kvs with Some _ => Some (JObj (adel k kvs)) | None => None end
      | JArr l => l' <- lremove 0 k l ; Some (JArr l')
      | _ => None
      end
    | _ => upd_child k (remove_at r) d
    end
  end.

(* ReplaceOperation.apply *)
Fixpoint replace_at (p : path) (v : json) (d : json) : option json :=
  match p with
  | [] => Some v
  | k :: r =>
    match r with
    | [] =>
      match d with
      | JObj kvs => match lookup k kvs with Some _ => Some (JObj (aset k v kvs)) | None => None end
      | JArr l => l' <- lupd 0 k (fun _ => Some v) l ; Some (JArr l')
      | _ => None
      end
    | _ => upd_child k (replace_at r v) d
    end
  end.

Fixpoint is_prefix (a b : path) : bool :=
  match a, b with
  | [], _ => true
  | x :: a', y :: b' => String.eqb x y && is_prefix a' b'
  | _ :: _, [] => false
  end.

Fixpoint parent_of (p : path) (d : json) : option json :=
  match p with
  | [] => None
  | k :: r => match r with [] => Some d | _ => c <- walk d k ; parent_of r c end
  end.

(* order-insensitive equality of documents (Python dict ==) *)
Fixpoint jeq (a b : json) {struct a} : bool :=
  match a, b with
  | JNull, JNull => true
  | JBool x, JBool y => Bool.eqb x y
  | JNum x, JNum y => Z.eqb x y
  | JStr x, JStr y => String.eqb x y
  | JArr x, JArr y =>
    (fix go (x y : list json) : bool :=
       match x, y with
       | [], [] => true
       | a' :: x', b' :: y' => jeq a' b' && go x' y'
       | _, _ => false
       end) x y
  | JObj x, JObj y =>
    Nat.eqb (List.length x) (List.length y) &&
    (fix go (x : list (string * json)) : bool :=
       match x with
       | [] => true
       | (k, v) :: x' => match lookup k y with Some w => jeq v w | None => false end && go x'
       end) x
  | _, _ => false
  end.

Definition apply_op (o : op) (d : json) : option json :=
  match o with
  | OpAdd p v => pp <- parse_pointer p ; add_at pp v d
  | OpRemove p => pp <- parse_pointer p ; remove_at pp d
  | OpReplace p v => pp <- parse_pointer p ; replace_at pp v d
  | OpMove fr p =>
    pp <- parse_pointer p ; fp <- parse_pointer fr ;
    _ <- parent_of fp d ;                          (* from = root: doc[None] raises *)
    v <- get_ptr fp d ;
    if path_eqb pp fp then Some d
    else
      par <- parent_of fp d ;
      if (match par with JObj _ => true | _ => false end) && is_prefix fp pp then None
      else d' <- remove_at fp d ; add_at pp v d'
  | OpCopy fr p =>
    pp <- parse_pointer p ; fp <- parse_pointer fr ;
    match fp with [] => None | _ => v <- get_ptr fp d ; add_at pp v d end
  | OpTest p v =>
    pp <- parse_pointer p ; x <- get_ptr pp d ; if jeq x v then Some d else None
  end.

(* JsonPatch.apply *)
Definition apply_ops (ops : list op) (d : json) : option json :=
  fold_left (fun acc o => d0 <- acc ; apply_op o d0) ops (Some d).

(* sorted(ops, key=itemgetter("path")): stable, str comparison by code point *)
Definition path_leb (a b : op) : bool :=
  match String.compare (op_path a) (op_path b) with Gt => false | _ => true end.

Fixpoint insert_op (x : op) (l : list op) : list op :=
  match l with
  | [] => [x]
  | y :: t => if path_leb x y then x :: y :: t else y :: insert_op x t
  end.

Definition sort_ops (ops : list op) : list op := fold_right insert_op [] ops.

(* annet's make_patch on top of the library's diff output *)
Definition make_patch_of (V : variant) (libops : list op) : list op :=
  if v_sorted V then sort_ops libops else libops.

(* ---------------------------------------------------------------- apply_acl_filters *)

(* the "sub_tree" walk that creates {} for missing members; a non-dict on the way raises *)
Fixpoint mkpath (p : path) (d : json) : option json :=
  match p with
  | [] => Some d
  | k :: r =>
    match d with
    | JObj kvs =>
      let sub := match lookup k kvs with Some c => c | None => JObj [] end in
      s' <- mkpath r sub ; Some (JObj (aset k s' kvs))
    | _ => None
    end
  end.

Definition filter_ptr (content : json) (res : option json) (p : path) : option json :=
  r0 <- res ; part <- get_ptr p content ; r1 <- mkpath p r0 ; add_at p part r1.

Definition filter_step (V : variant) (content : json) (res : option json) (f : string) : option json :=
  let t := strip f in
  if is_empty t then res
  else r0 <- res ; ps <- resolve V t content ; fold_left (filter_ptr content) ps (Some r0).

Definition apply_acl_filters (V : variant) (content : json) (filters : list string) : option json :=
  fold_left (filter_step V content) filters (Some (JObj [])).

(* ---------------------------------------------------------------- equalities for the harness *)

Definition ojeq (a b : option json) : bool :=
  match a, b with
  | Some x, Some y => jeq x y
  | None, None => true
  | _, _ => false
  end.

Definition op_eqb (a b : op) : bool :=
  match a, b with
  | OpAdd p v, OpAdd q w | OpReplace p v, OpReplace q w | OpTest p v, OpTest q w => String.eqb p q && jeq v w
  | OpRemove p, OpRemove q => String.eqb p q
  | OpMove f p, OpMove g q | OpCopy f p, OpCopy g q => String.eqb f g && String.eqb p q
  | _, _ => false
  end.

Fixpoint ops_eqb (a b : list op) : bool :=
  match a, b with
  | [], [] => true
  | x :: a', y :: b' => op_eqb x y && ops_eqb a' b'
  | _, _ => false
  end.
