(* Python str helpers used by several models (printable ASCII domain). *)
From Coq Require Import List String Ascii Bool Arith Lia.
Import ListNotations.
Open Scope string_scope.
Open Scope list_scope.

Definition nl : ascii := Ascii.ascii_of_nat 10.
Definition tab : ascii := Ascii.ascii_of_nat 9.
Definition sp : ascii := " "%char.

(* str.strip() whitespace restricted to ASCII: space \t \n \r \v \f *)
Definition is_ws (c : ascii) : bool :=
  let n := Ascii.nat_of_ascii c in
  Nat.eqb n 32 || (Nat.leb 9 n && Nat.leb n 13).

Fixpoint lstrip (s : string) : string :=
  match s with
  | EmptyString => EmptyString
  | String c r => if is_ws c then lstrip r else s
  end.

(* rstrip: drop the trailing whitespace run *)
Fixpoint rstrip (s : string) : string :=
  match s with
  | EmptyString => EmptyString
  | String c r =>
    match rstrip r with
    | EmptyString => if is_ws c then EmptyString else String c EmptyString
    | r' => String c r'
    end
  end.

Definition strip (s : string) : string := rstrip (lstrip s).

Definition startswith (p s : string) : bool := String.prefix p s.

Fixpoint endswith_aux (p s : string) (n : nat) : bool :=
  match n with
  | O => String.eqb p s
  | S n' => match s with EmptyString => false | String _ r => endswith_aux p r n' end
  end.
Definition endswith (p s : string) : bool :=
  Nat.leb (String.length p) (String.length s) && endswith_aux p s (String.length s - String.length p).

(* str.split(sep_char): always returns at least one element *)
Fixpoint split_char (c : ascii) (s : string) : list string :=
  match s with
  | EmptyString => [EmptyString]
  | String a r =>
    if Ascii.eqb a c then EmptyString :: split_char c r
    else match split_char c r with
         | [] => [String a EmptyString]
         | h :: t => String a h :: t
         end
  end.

Definition is_empty (s : string) : bool := match s with EmptyString => true | _ => false end.

(* list(filter(None, text.split("\n"))) *)
Definition split_lines (s : string) : list string :=
  filter (fun l => negb (is_empty l)) (split_char nl s).

Fixpoint join_with (sep : string) (l : list string) : string :=
  match l with
  | [] => EmptyString
  | [x] => x
  | x :: r => x ++ sep ++ join_with sep r
  end.

(* str.split() on whitespace, as used for words of a row *)
Fixpoint words_aux (s : string) (cur : string) : list string :=
  match s with
  | EmptyString => if is_empty cur then [] else [cur]
  | String c r =>
    if is_ws c then (if is_empty cur then words_aux r EmptyString else cur :: words_aux r EmptyString)
    else words_aux r (cur ++ String c EmptyString)
  end.
Definition words (s : string) : list string := words_aux s EmptyString.

Fixpoint repeat_str (s : string) (n : nat) : string :=
  match n with O => EmptyString | S n' => s ++ repeat_str s n' end.

Definition list_str_eqb (a b : list string) : bool :=
  Nat.eqb (List.length a) (List.length b) && forallb (fun p => String.eqb (fst p) (snd p)) (combine a b).

Lemma list_str_eqb_eq a b : list_str_eqb a b = true <-> a = b.
Proof.
  unfold list_str_eqb. revert b. induction a as [|x a IH]; intros [|y b]; cbn; split; intro H;
    try reflexivity; try discriminate.
  - apply andb_true_iff in H as [Hl H]. apply andb_true_iff in H as [Hx H].
    apply String.eqb_eq in Hx. subst. f_equal. apply IH. cbn in Hl. rewrite Hl. exact H.
  - injection H as -> ->. rewrite String.eqb_refl. cbn.
    specialize (proj2 (IH b) eq_refl) as H. apply andb_true_iff in H as [H1 H2].
    rewrite H1, H2. reflexivity.
Qed.
