(* Config trees: Python's OrderedDict[str, OrderedDict[...]] as an association list in
   insertion order.  Contains the rebuild lemma shared by C04, C05 and C10. *)
From Coq Require Import List String Bool Arith Lia.
Import ListNotations.
Open Scope string_scope.
Open Scope list_scope.

Inductive tree := T (kids : list (string * tree)).
Definition forest := list (string * tree).
Definition kids (t : tree) : forest := match t with T k => k end.

Section TreeInd.
  Variable P : tree -> Prop.
  Variable Q : forest -> Prop.
  Hypothesis HT : forall k, Q k -> P (T k).
  Hypothesis Hnil : Q [].
  Hypothesis Hcons : forall r t k, P t -> Q k -> Q ((r, t) :: k).
  Fixpoint tree_ind2 (t : tree) : P t :=
    match t with
    | T k => HT k ((fix go (l : forest) : Q l :=
                     match l with
                     | [] => Hnil
                     | (r, c) :: l' => Hcons r c l' (tree_ind2 c) (go l')
                     end) k)
    end.
  Definition forest_ind2 : forall f, Q f :=
    fix go (l : forest) : Q l :=
      match l with
      | [] => Hnil
      | (r, c) :: l' => Hcons r c l' (tree_ind2 c) (go l')
      end.
End TreeInd.

(* boolean equality *)
Fixpoint tree_eqb (a b : tree) {struct a} : bool :=
  match a, b with
  | T ka, T kb =>
    (fix go (l m : forest) {struct l} : bool :=
       match l, m with
       | [], [] => true
       | (r, c) :: l', (r', c') :: m' => String.eqb r r' && tree_eqb c c' && go l' m'
       | _, _ => false
       end) ka kb
  end.
Definition forest_eqb (a b : forest) : bool := tree_eqb (T a) (T b).

Lemma forest_eqb_cons r c l r' c' m :
  forest_eqb ((r, c) :: l) ((r', c') :: m) = String.eqb r r' && tree_eqb c c' && forest_eqb l m.
Proof. reflexivity. Qed.

Lemma forest_eqb_eq : forall a b, forest_eqb a b = true <-> a = b.
Proof.
  apply (forest_ind2 (fun t => forall u, tree_eqb t u = true <-> t = u)
                     (fun a => forall b, forest_eqb a b = true <-> a = b)).
  - intros k IH [kb]. change (tree_eqb (T k) (T kb)) with (forest_eqb k kb).
    rewrite IH. split; [intros ->; reflexivity | intros H; injection H; auto].
  - intros [|[r' c'] m]; split; intro H; try reflexivity; try discriminate.
  - intros r t k IHt IHk [|[r' c'] m].
    + split; intro H; discriminate.
    + rewrite forest_eqb_cons. rewrite !andb_true_iff, String.eqb_eq, IHt, IHk.
      split.
      * intros [[-> ->] ->]. reflexivity.
      * intros H. injection H as -> -> ->. auto.
Qed.

Lemma tree_eqb_eq a b : tree_eqb a b = true <-> a = b.
Proof.
  destruct a as [ka], b as [kb]. change (tree_eqb (T ka) (T kb)) with (forest_eqb ka kb).
  rewrite forest_eqb_eq. split; [intros ->; reflexivity | intros H; injection H; auto].
Qed.

Lemma forest_eqb_refl a : forest_eqb a a = true.
Proof. apply forest_eqb_eq. reflexivity. Qed.

(* odict insertion of a path: parse_to_tree's inner loop *)
Fixpoint ins (p : list string) (f : forest) {struct p} : forest :=
  match p with
  | [] => f
  | k :: p' =>
    (fix go (l : forest) : forest :=
       match l with
       | [] => [(k, T (ins p' []))]
       | (k', v) :: r => if String.eqb k k' then (k', T (ins p' (kids v))) :: r
                         else (k', v) :: go r
       end) f
  end.

Definition insall (ps : list (list string)) (f : forest) := fold_left (fun a p => ins p a) ps f.

(* preorder paths *)
Fixpoint paths_t (pre : list string) (t : tree) : list (list string) :=
  match t with
  | T k => (fix go (l : forest) : list (list string) :=
              match l with
              | [] => []
              | (r, c) :: l' => (pre ++ [r]) :: paths_t (pre ++ [r]) c ++ go l'
              end) k
  end.
Definition paths (pre : list string) (f : forest) := paths_t pre (T f).

Lemma paths_cons pre r c f :
  paths pre ((r, c) :: f) = (pre ++ [r]) :: paths (pre ++ [r]) (kids c) ++ paths pre f.
Proof. unfold paths. destruct c as [k]. reflexivity. Qed.
Lemma paths_nil pre : paths pre [] = [].
Proof. reflexivity. Qed.

Definition keys (f : forest) := map fst f.

(* Python dict: keys unique at every level *)
Inductive wf : forest -> Prop :=
| wf_nil : wf []
| wf_cons r c f : ~ In r (keys f) -> wf (kids c) -> wf f -> wf ((r, c) :: f).

Fixpoint wfb_t (t : tree) : bool :=
  match t with
  | T k => (fix go (l : forest) : bool :=
              match l with
              | [] => true
              | (r, c) :: l' => negb (existsb (String.eqb r) (map fst l')) && wfb_t c && go l'
              end) k
  end.
Definition wfb (f : forest) : bool := wfb_t (T f).

Lemma wfb_cons r c f : wfb ((r, c) :: f) = negb (existsb (String.eqb r) (keys f)) && wfb (kids c) && wfb f.
Proof. unfold wfb. destruct c. reflexivity. Qed.

Lemma existsb_eqb_In r l : existsb (String.eqb r) l = true <-> In r l.
Proof.
  rewrite existsb_exists. split.
  - intros (x & Hx & E). apply String.eqb_eq in E. subst. exact Hx.
  - intros H. exists r. split; [exact H | apply String.eqb_refl].
Qed.

Lemma wfb_wf : forall f, wfb f = true <-> wf f.
Proof.
  apply (forest_ind2 (fun t => wfb (kids t) = true <-> wf (kids t))
                     (fun f => wfb f = true <-> wf f)).
  - intros k IH. exact IH.
  - split; [constructor | reflexivity].
  - intros r t k IHt IHk.
    rewrite wfb_cons, !andb_true_iff, negb_true_iff. split.
    + intros [[H1 H2] H3]. constructor.
      * intro Hin. apply existsb_eqb_In in Hin. congruence.
      * apply IHt. exact H2.
      * apply IHk. exact H3.
    + intros H. inversion H as [|r' c' f' Hn Hc Hf]; subst. repeat split.
      * destruct (existsb (String.eqb r) (keys k)) eqn:E; [|reflexivity].
        apply existsb_eqb_In in E. contradiction.
      * apply IHt. exact Hc.
      * apply IHk. exact Hf.
Qed.

Lemma wf_inv r c f : wf ((r, c) :: f) -> ~ In r (keys f) /\ wf (kids c) /\ wf f.
Proof. intros H. inversion H; subst. auto. Qed.

Lemma insall_app ps qs f : insall (ps ++ qs) f = insall qs (insall ps f).
Proof. unfold insall. apply fold_left_app. Qed.
Lemma insall_cons p ps f : insall (p :: ps) f = insall ps (ins p f).
Proof. reflexivity. Qed.

Lemma paths_prefix q : forall g pre, paths (q ++ pre) g = map (app q) (paths pre g).
Proof.
  apply (forest_ind2 (fun t => forall pre, paths (q ++ pre) (kids t) = map (app q) (paths pre (kids t)))
                     (fun g => forall pre, paths (q ++ pre) g = map (app q) (paths pre g))).
  - intros k IH. exact IH.
  - intros pre. reflexivity.
  - intros r t k IHt IHk pre. rewrite !paths_cons. cbn [map]. rewrite map_app.
    rewrite <- (app_assoc q pre [r]). rewrite IHt, IHk. reflexivity.
Qed.

Lemma paths_cons_prefix r g : paths [r] g = map (cons r) (paths [] g).
Proof. change [r] with ([r] ++ []). rewrite paths_prefix. reflexivity. Qed.

Lemma ins_fresh r f : ~ In r (keys f) -> ins [r] f = f ++ [(r, T [])].
Proof.
  induction f as [|[k v] f IH]; cbn; intros H.
  - reflexivity.
  - destruct (String.eqb_spec r k) as [->|Hne].
    + exfalso. apply H. now left.
    + f_equal. apply IH. intro Hin. apply H. now right.
Qed.

Lemma ins_under r p : forall f1 k f2, ~ In r (keys f1) ->
  ins (r :: p) (f1 ++ (r, T k) :: f2) = f1 ++ (r, T (ins p k)) :: f2.
Proof.
  induction f1 as [|[k' v'] f1 IHf]; intros k f2 Hf; cbn.
  - rewrite String.eqb_refl. reflexivity.
  - destruct (String.eqb_spec r k') as [->|Hne].
    + exfalso. apply Hf. now left.
    + f_equal. apply IHf. intro Hin. apply Hf. now right.
Qed.

Lemma insall_under r ps : forall f1 k f2, ~ In r (keys f1) ->
  insall (map (cons r) ps) (f1 ++ (r, T k) :: f2) = f1 ++ (r, T (insall ps k)) :: f2.
Proof.
  induction ps as [|p ps IH]; intros f1 k f2 Hf.
  - reflexivity.
  - cbn [map]. rewrite insall_cons, ins_under by exact Hf.
    rewrite IH by exact Hf. reflexivity.
Qed.

Theorem insall_paths : forall g f0, wf g ->
  (forall x, In x (keys g) -> ~ In x (keys f0)) ->
  insall (paths [] g) f0 = f0 ++ g.
Proof.
  apply (forest_ind2
    (fun t => forall f0, wf (kids t) ->
            (forall x, In x (keys (kids t)) -> ~ In x (keys f0)) ->
            insall (paths [] (kids t)) f0 = f0 ++ kids t)
    (fun g => forall f0, wf g ->
            (forall x, In x (keys g) -> ~ In x (keys f0)) ->
            insall (paths [] g) f0 = f0 ++ g)).
  - intros k IH. exact IH.
  - intros f0 _ _. rewrite app_nil_r. reflexivity.
  - intros r t k IHt IHk f0 Hwf Hdis. destruct (wf_inv _ _ _ Hwf) as (Hr & Hc & Hk).
    rewrite paths_cons. cbn [app]. rewrite insall_cons, insall_app.
    rewrite ins_fresh by (apply Hdis; now left).
    rewrite paths_cons_prefix.
    rewrite (insall_under r _ f0 [] []) by (apply Hdis; now left).
    rewrite (IHt [] Hc) by (intros x _ []).
    cbn [app]. destruct t as [kt]. cbn [kids].
    rewrite IHk; auto.
    + rewrite <- app_assoc. reflexivity.
    + intros x Hx. unfold keys. rewrite map_app, in_app_iff. cbn.
      intros [H|[H|[]]].
      * apply (Hdis x); [now right|exact H].
      * subst. exact (Hr Hx).
Qed.

Corollary rebuild g : wf g -> insall (paths [] g) [] = g.
Proof. intros H. apply (insall_paths g [] H). intros x _ []. Qed.
